#!/usr/bin/env python3
"""tools/record_fix.py <Cxx[,Cyy]> <commit> <what failed (rule)>
records a repaired defect: a `fixed:` entry in known_findings.json (suppresses nothing) and the reverse of the
commit as mutants/revert-<cxx>-<commit>.diff (expect: violation) for the thorough-tier self test."""
import sys, json, subprocess
props, sha, what = sys.argv[1], sys.argv[2][:7], sys.argv[3]
first = props.split(",")[0]
kf = json.load(open("/verif/known_findings.json"))
if not any(e["commit"] == sha for e in kf["fixed"]):
    kf["fixed"].append({"property": first, "commit": sha, "entry": "fixed: property=%s %s %s" % (first, sha, what)})
    json.dump(kf, open("/verif/known_findings.json", "w"), indent=1)
    open("/verif/known_findings.json", "a").write("\n")
name = "revert-%s-%s" % (first.lower(), sha)
diff = subprocess.check_output(["git", "-C", "/repo", "diff", sha, sha + "~1", "--", "src"]).decode()
open("/verif/mutants/%s.diff" % name, "w").write(diff)
idx = json.load(open("/verif/mutants/index.json"))
idx["mutants"] = [m for m in idx["mutants"] if m["name"] != name]
idx["mutants"].append({"name": name, "property": props, "expect": "violation", "patch": "mutants/%s.diff" % name, "what": ("reverse of fix commit %s: %s" % (sha, what))[:200]})
json.dump(idx, open("/verif/mutants/index.json", "w"), indent=1)
print("recorded", name)
