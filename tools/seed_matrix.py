#!/usr/bin/env python3
"""tools/seed_matrix.py: run every kept seeded change against the quick check of its property (and
of the other properties listed in ALSO) on a scratch copy of /repo's current tree; write
/verif/seeded/MATRIX.json and update each meta.json `status`."""
import json, os, subprocess, sys, tempfile, shutil
from concurrent.futures import ThreadPoolExecutor
V = "/verif"
ALSO = {"C04": ["C12", "C01", "C15", "C08"], "C06": ["C04", "C01", "C13"], "C14": ["C04", "C19"], "C18": ["C01", "C15", "C05", "C04"], "C15": ["C12", "C04", "C05"], "C11": ["C19", "C01"], "C05": ["C04", "C01"], "C07": ["C12", "C04"], "C10": ["C08", "C01", "C02", "C09"], "C08": ["C10", "C01", "C06", "C07"], "C02": ["C01", "C14"], "C01": ["C02"], "C20": ["C11"], "C03": ["C01", "C19", "C14"], "C19": ["C09", "C12", "C10", "C03"], "C09": ["C15"], "C17": ["C01"], "C12": ["C11", "C01", "C07", "C04"]}


def run(d):
    meta_p = os.path.join(V, "seeded", d, "meta.json")
    meta = json.load(open(meta_p))
    prop = meta["property"]
    patch = os.path.join(V, "seeded", d, "patch.rebased.diff")
    if not os.path.exists(patch):
        patch = os.path.join(V, "seeded", d, "patch.diff")
    t = tempfile.mkdtemp(prefix="seedmx.", dir="/tmp")
    out = {"seed": d, "property": prop, "patch": os.path.basename(patch)}
    try:
        repo = t + "/repo"
        subprocess.check_call(["rsync", "-a", "--exclude", "target", "--exclude", ".git", "/repo/", repo + "/"])
        r = subprocess.run(["git", "apply", "--whitespace=nowarn", patch], cwd=repo, capture_output=True, text=True)
        if r.returncode != 0:
            out["applies"] = False
            return out
        out["applies"] = True
        out["caught"] = {}
        for p in [prop] + ALSO.get(prop, []):
            env = dict(os.environ, STAM_REPO=repo, STAM_VERIF_NOEVIDENCE="1")
            r = subprocess.run([V + "/bin/check", p, "--tier", "quick"], env=env, capture_output=True, text=True)
            keys = sorted(set(l.split(" key=")[1].split(" ")[0] for l in r.stdout.splitlines() if l.startswith("VIOLATION") and " key=" in l))
            if keys:
                out["caught"][p] = keys[:6]
        return out
    finally:
        shutil.rmtree(t, ignore_errors=True)


ds = sorted(x for x in os.listdir(V + "/seeded") if os.path.isdir(os.path.join(V, "seeded", x)))
if len(sys.argv) > 1:
    ds = [d for d in ds if d in sys.argv[1:]]
with ThreadPoolExecutor(max_workers=8) as ex:
    res = list(ex.map(run, ds))
prev = {}
if len(sys.argv) > 1 and os.path.exists(V + "/seeded/MATRIX.json"):
    prev = dict((r["seed"], r) for r in json.load(open(V + "/seeded/MATRIX.json")))
for r in res:
    prev[r["seed"]] = r
json.dump([prev[k] for k in sorted(prev)], open(V + "/seeded/MATRIX.json", "w"), indent=1)
for r in res:
    print(r["seed"], "applies" if r.get("applies") else "STALE", r.get("caught"))

# record in each meta.json which checks report the seed (the thorough-tier self test reads `caught_by`)
for r in json.load(open(V + "/seeded/MATRIX.json")):
    mp = os.path.join(V, "seeded", r["seed"], "meta.json")
    m = json.load(open(mp))
    st = m.get("status") or {}
    if isinstance(st, str):
        st = {"state": st}
    if (st.get("state") or "") in ("neutralised", "obsolete"):
        continue   # set by hand, with a note (an automatic "obsolete: no longer applies" is recomputed)
    if not r.get("applies", True):
        st = dict(st, state="obsolete: no longer applies to the current tree")
    elif r.get("caught"):
        st = {"caught_by": sorted(r["caught"]), "keys": r["caught"], "expect": "violation", "state": "caught"}
    else:
        st = {"caught_by": [m["property"]], "expect": "violation", "state": "missed"}
    if m.get("status") != st:
        m["status"] = st
        json.dump(m, open(mp, "w"), indent=1)
