"""(re)generates rules/owners.json from the current tree; every line must then be reviewed.
Not used by the checks: the committed table is the frozen reference."""
import sys, re, json
sys.path.insert(0, '/verif/lib')
import facts, mirq
from effects import field_effects, accessor_callers
from props.c01 import INDEX_FIELDS
f = facts.Facts(); p = mirq.Program(f.mir())
eff = field_effects(p)
try:
    old = json.load(open('/verif/rules/owners.json'))
except Exception:
    old = {"fields": {}, "accessors": {}}
def reason(bid, k):
    prev = old["fields"].get(k, {}).get(bid)
    if prev: return prev
    if 'StoreCallbacks' in bid: return "store callback (the designated maintainer of the index)"
    if bid.endswith('::reindex'): return "compaction: rebuilds the structure with the same gap table"
    if 'shrink_to_fit' in bid: return "capacity only"
    if bid.endswith('store_mut') or bid.endswith('idmap_mut'): return "accessor handed to StoreFor default methods only (see accessors table)"
    if re.search(r"store::(RelationMap|TripleRelationMap|RelationBTreeMap|ExclusiveRelationMap|IdMap)::", bid): return "method of the container itself"
    if 'Visitor' in bid: return "JSON loader: re-creates gaps before inserting items with temporary ids"
    if bid.endswith('::new') or bid.endswith('::default') or 'initialize' in bid or bid.endswith('with_string'): return "construction / (re)initialisation of the text"
    if 'protect_text' in bid: return "protect_text adds validation data to an existing annotation and updates the data index by hand (checked by C18)"
    if 'check_mutation' in bid or 'create_milestones' in bid: return "rebuilds the position index after the text changed / places milestones"
    if 'remove_data' in bid or 'remove_key' in bid: return "store-level removal entry point"
    if 'strip_' in bid: return "strips public ids (id map cleared together with the ids)"
    if 'substore' in bid.lower(): return "sub-store bookkeeping"
    if 'Storable' in bid or bid.endswith('with_handle') or bid.endswith('unbind') or bid.endswith('with_id'): return "binding of a new item before insertion"
    return "REVIEW"
own = {"fields": {}, "accessors": {}}
for adt, flds in INDEX_FIELDS.items():
    for fl in flds:
        k = "%s.%s" % (adt, fl)
        own["fields"][k] = {}
        for bid in sorted(eff.get((adt, fl), {})):
            if p.bodies[bid].d.get('derived'): continue
            own["fields"][k][bid] = reason(bid, k)
acc = accessor_callers(p, {"store_mut", "idmap_mut"})
for name, cs in acc.items():
    own["accessors"][name] = {bid: old["accessors"].get(name, {}).get(bid, "StoreFor default method") for bid in sorted(cs)}
json.dump(own, open('/verif/rules/owners.json', 'w'), indent=1)
for k, v in own["fields"].items():
    for b, r in v.items():
        if r == "REVIEW": print("REVIEW", k, b)
