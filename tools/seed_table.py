#!/usr/bin/env python3
"""tools/seed_table.py: print the seeds table of DESIGN.md section 9.4 from seeded/MATRIX.json and the meta.json files,
and (with --write) replace the table in DESIGN.md (the block that starts with the `| seed | round |` header)."""
import json, os, re, sys
V = "/verif"
mx = dict((r["seed"], r) for r in json.load(open(V + "/seeded/MATRIX.json")))
rows = ["| seed | round | change (first words of the sub-agent's summary) | rules that report it on the current tree |", "|------|---|--------|-----------|"]
caught = missed = controls = stale = 0
for d in sorted(x for x in os.listdir(V + "/seeded") if os.path.isdir(V + "/seeded/" + x)):
    m = json.load(open("%s/seeded/%s/meta.json" % (V, d)))
    r = mx.get(d, {})
    st = m.get("status", {})
    rules = sorted(set(k.split(":")[0] for ks in (r.get("caught") or {}).values() for k in ks))
    if st.get("state") == "neutralised":
        cell = "(neutralised by a later fix: the demo passes with the patch; control that must stay silent)" + (" **but reported by %s**" % ", ".join(rules) if rules else "")
        controls += 1
    elif not r.get("applies", True):
        cell = "- (no longer applies: the code it patched was repaired)"
        stale += 1
    elif rules:
        cell = ", ".join(rules)
        caught += 1
    else:
        cell = "**missed**"
        missed += 1
    rows.append("| %s | %s | %s | %s |" % (d, m.get("round", 1), re.sub(r"\s+", " ", m["summary"])[:100].replace("|", "/"), cell))
print("\n".join(rows))
print("\ncaught=%d missed=%d controls=%d stale=%d total=%d" % (caught, missed, controls, stale, caught + missed + controls + stale), file=sys.stderr)
if "--write" in sys.argv:
    s = open(V + "/DESIGN.md").read()
    a = s.index("| seed | round |")
    b = s.index("\n\n", a)
    s = s[:a] + "\n".join(rows) + s[b:]
    open(V + "/DESIGN.md", "w").write(s)
