#!/usr/bin/env python3
"""tools/seed_all.py <patch> [<patch>..]: apply each patch to a scratch copy of /repo and run ALL quick checks; print which rules fire."""
import json, os, subprocess, sys, tempfile, shutil
from concurrent.futures import ThreadPoolExecutor
V = "/verif"
PROPS = [c["property_id"] for c in json.load(open(V + "/MANIFEST.json"))["checks"]]


def run(patch):
    t = tempfile.mkdtemp(prefix="seedall.", dir="/tmp")
    out = {"patch": patch}
    try:
        repo = t + "/repo"
        subprocess.check_call(["rsync", "-a", "--exclude", "target", "--exclude", ".git", "/repo/", repo + "/"])
        r = subprocess.run(["git", "apply", "--whitespace=nowarn", patch], cwd=repo, capture_output=True, text=True)
        if r.returncode != 0:
            out["applies"] = False
            return out
        out["applies"] = True
        out["caught"] = {}
        env = dict(os.environ, STAM_REPO=repo, STAM_VERIF_NOEVIDENCE="1")
        # first one property alone to fill the fact cache, then the rest
        for p in PROPS:
            r = subprocess.run([V + "/bin/check", p, "--tier", "quick"], env=env, capture_output=True, text=True)
            keys = sorted(set(l.split(" key=")[1].split(" ")[0] for l in r.stdout.splitlines() if l.startswith("VIOLATION") and " key=" in l))
            if keys:
                out["caught"][p] = keys[:4]
        return out
    finally:
        shutil.rmtree(t, ignore_errors=True)


with ThreadPoolExecutor(max_workers=3) as ex:
    for r in ex.map(run, sys.argv[1:]):
        print(json.dumps(r))
        sys.stdout.flush()
