#!/usr/bin/env python3
"""tools/rekey_known.py <Cxx> <rule-prefix>: after a repair in /repo renamed the call sites that known findings of <rule-prefix>
name, add the keys that fire now and are not listed, and drop the listed ones of that prefix that no longer fire.  Run by hand,
together with the repair, after reading the list it prints; the checks never write known_findings.json."""
import json, subprocess, sys
pid, prefix = sys.argv[1], sys.argv[2]
out = subprocess.run(["/verif/bin/check", pid, "--tier", "quick"], capture_output=True, text=True).stdout
new, still = [], set()
for l in out.splitlines():
    if l.startswith("VIOLATION"):
        key = l.split(" key=")[1].split(" at=")[0]
        if key.startswith(prefix):
            new.append((key, l.split(" :: ", 1)[1]))
    if l.startswith("KNOWN-FINDING: property=%s " % pid):
        still.add(l[len("KNOWN-FINDING: property=%s " % pid):].split(" -- ")[0])
k = json.load(open("/verif/known_findings.json"))
stale = [f for f in k["findings"] if f["property"] == pid and f["key"].startswith(prefix) and f["key"] not in still]
for f in stale:
    print("drop ", f["key"])
for key, msg in new:
    print("add  ", key)
if "--apply" in sys.argv:
    k["findings"] = [f for f in k["findings"] if f not in stale]
    for key, msg in new:
        k["findings"].append({"property": pid, "key": key, "what": msg[:300]})
    json.dump(k, open("/verif/known_findings.json", "w"), indent=1)
    print("applied")
