#!/usr/bin/env python3
"""tools/mkmutant.py <name> <property> <expect: violation|silent> <file> <<< JSON [[old,new],...]
creates /verif/mutants/<name>.diff against /repo's current tree (scratch copy under /tmp, removed),
checks that the mutant compiles (cargo check --offline, shared scratch target dir) and records it in
mutants/index.json."""
import sys, os, json, subprocess, tempfile, shutil
name, prop, expect, path = sys.argv[1:5]
edits = json.load(sys.stdin)
d = tempfile.mkdtemp(prefix="mkmut.", dir="/tmp")
try:
    subprocess.check_call(["rsync", "-a", "--exclude", "target", "--exclude", ".git", "/repo/", d + "/r/"])
    subprocess.check_call("git init -q . && git add -A >/dev/null && git commit -qm base >/dev/null", shell=True, cwd=d + "/r")
    p = os.path.join(d, "r", path)
    s = open(p).read()
    for old, new in edits:
        if s.count(old) != 1:
            print("edit does not match exactly once (%d): %r" % (s.count(old), old[:60]))
            sys.exit(2)
        s = s.replace(old, new)
    open(p, "w").write(s)
    diff = subprocess.check_output(["git", "diff"], cwd=d + "/r").decode()
    env = dict(os.environ, CARGO_TARGET_DIR="/tmp/mkmut-target", CARGO_NET_OFFLINE="true")
    r = subprocess.run(["cargo", "check", "--offline", "--lib", "-q"], cwd=d + "/r", env=env, capture_output=True, text=True)
    if r.returncode != 0:
        print("MUTANT DOES NOT COMPILE\n" + "\n".join(l for l in r.stderr.splitlines() if l.startswith("error"))[:800])
        sys.exit(3)
    out = "/verif/mutants/%s.diff" % name
    open(out, "w").write(diff)
    idxp = "/verif/mutants/index.json"
    idx = json.load(open(idxp)) if os.path.exists(idxp) else {"mutants": []}
    idx["mutants"] = [m for m in idx["mutants"] if m["name"] != name]
    idx["mutants"].append({"name": name, "property": prop, "expect": expect, "patch": "mutants/%s.diff" % name, "what": os.environ.get("WHAT", "")})
    idx["mutants"].sort(key=lambda m: m["name"])
    json.dump(idx, open(idxp, "w"), indent=1)
    print("wrote", out)
finally:
    shutil.rmtree(d, ignore_errors=True)
