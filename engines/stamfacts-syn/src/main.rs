//! stamfacts-syn: dumps the syntax tree of a crate (following `mod x;` declarations
//! from the crate root) as one JSON document. No rule lives here: the deciding rules
//! are in /verif/lib (python). Every node carries its start line (`l`).
//!
//! usage: stamfacts-syn <crate-root.rs> <out.json>

use proc_macro2::TokenStream;
use quote::ToTokens;
use serde_json::{json, Map, Value};
use std::path::{Path, PathBuf};
use syn::punctuated::Punctuated;
use syn::spanned::Spanned;
use syn::*;

fn ts<T: ToTokens>(t: &T) -> String {
    t.to_token_stream().to_string()
}
fn line<T: Spanned>(t: &T) -> usize {
    t.span().start().line
}
fn endline<T: Spanned>(t: &T) -> usize {
    t.span().end().line
}
fn col<T: Spanned>(t: &T) -> usize {
    t.span().start().column
}

fn obj(kind: &str, l: usize) -> Map<String, Value> {
    let mut m = Map::new();
    m.insert("k".into(), Value::String(kind.into()));
    m.insert("l".into(), json!(l));
    m
}

fn attrs(a: &[Attribute]) -> Value {
    Value::Array(
        a.iter()
            .map(|a| {
                let mut m = Map::new();
                m.insert("path".into(), json!(ts(a.path())));
                m.insert("s".into(), json!(ts(&a.meta)));
                if let Meta::NameValue(nv) = &a.meta {
                    if let Expr::Lit(ExprLit {
                        lit: Lit::Str(s), ..
                    }) = &nv.value
                    {
                        m.insert("str".into(), json!(s.value()));
                    }
                }
                if let Meta::List(ml) = &a.meta {
                    m.insert("tokens".into(), json!(ml.tokens.to_string()));
                }
                Value::Object(m)
            })
            .collect(),
    )
}

fn vis(v: &Visibility) -> Value {
    match v {
        Visibility::Public(_) => json!("pub"),
        Visibility::Restricted(r) => json!(format!("pub({})", ts(&r.path))),
        Visibility::Inherited => json!(""),
    }
}

fn path_segments(p: &syn::Path) -> Value {
    Value::Array(
        p.segments
            .iter()
            .map(|s| json!(s.ident.to_string()))
            .collect(),
    )
}

fn ty(t: &Type) -> Value {
    let mut m = obj("ty", line(t));
    m.insert("s".into(), json!(ts(t)));
    match t {
        Type::Path(tp) => {
            m.insert("path".into(), path_segments(&tp.path));
            if let Some(last) = tp.path.segments.last() {
                if let PathArguments::AngleBracketed(ab) = &last.arguments {
                    let args: Vec<Value> = ab
                        .args
                        .iter()
                        .filter_map(|a| match a {
                            GenericArgument::Type(t) => Some(ty(t)),
                            _ => None,
                        })
                        .collect();
                    m.insert("args".into(), Value::Array(args));
                }
            }
        }
        Type::Reference(r) => {
            m.insert("ref".into(), json!(if r.mutability.is_some() { "mut" } else { "shared" }));
            m.insert("elem".into(), ty(&r.elem));
        }
        Type::Tuple(t) => {
            m.insert("tuple".into(), Value::Array(t.elems.iter().map(ty).collect()));
        }
        Type::Slice(s) => {
            m.insert("slice".into(), ty(&s.elem));
        }
        Type::Array(s) => {
            m.insert("array".into(), ty(&s.elem));
        }
        _ => {}
    }
    Value::Object(m)
}

fn lit(l: &Lit) -> Value {
    let mut m = obj("lit", line(l));
    match l {
        Lit::Str(s) => {
            m.insert("t".into(), json!("str"));
            m.insert("v".into(), json!(s.value()));
        }
        Lit::ByteStr(s) => {
            m.insert("t".into(), json!("bytestr"));
            m.insert("v".into(), json!(String::from_utf8_lossy(&s.value()).to_string()));
        }
        Lit::Byte(b) => {
            m.insert("t".into(), json!("byte"));
            m.insert("v".into(), json!(b.value()));
        }
        Lit::Char(c) => {
            m.insert("t".into(), json!("char"));
            m.insert("v".into(), json!(c.value().to_string()));
        }
        Lit::Int(i) => {
            m.insert("t".into(), json!("int"));
            m.insert("v".into(), json!(i.base10_digits()));
            m.insert("suffix".into(), json!(i.suffix()));
        }
        Lit::Float(f) => {
            m.insert("t".into(), json!("float"));
            m.insert("v".into(), json!(f.base10_digits()));
        }
        Lit::Bool(b) => {
            m.insert("t".into(), json!("bool"));
            m.insert("v".into(), json!(b.value));
        }
        _ => {
            m.insert("t".into(), json!("other"));
            m.insert("v".into(), json!(ts(l)));
        }
    }
    Value::Object(m)
}

fn pat(p: &Pat) -> Value {
    let mut m = obj("pat", line(p));
    m.insert("s".into(), json!(ts(p)));
    match p {
        Pat::Ident(i) => {
            m.insert("p".into(), json!("ident"));
            m.insert("name".into(), json!(i.ident.to_string()));
            m.insert("byref".into(), json!(i.by_ref.is_some()));
            m.insert("mut".into(), json!(i.mutability.is_some()));
            if let Some((_, sub)) = &i.subpat {
                m.insert("sub".into(), pat(sub));
            }
        }
        Pat::Wild(_) => {
            m.insert("p".into(), json!("wild"));
        }
        Pat::Rest(_) => {
            m.insert("p".into(), json!("rest"));
        }
        Pat::Lit(l) => {
            m.insert("p".into(), json!("lit"));
            m.insert("lit".into(), lit(&l.lit));
        }
        Pat::Or(o) => {
            m.insert("p".into(), json!("or"));
            m.insert("cases".into(), Value::Array(o.cases.iter().map(pat).collect()));
        }
        Pat::Paren(p) => return pat(&p.pat),
        Pat::Path(pp) => {
            m.insert("p".into(), json!("path"));
            m.insert("path".into(), path_segments(&pp.path));
        }
        Pat::Range(r) => {
            m.insert("p".into(), json!("range"));
            if let Some(s) = &r.start {
                m.insert("start".into(), expr(s));
            }
            if let Some(e) = &r.end {
                m.insert("end".into(), expr(e));
            }
            m.insert("inclusive".into(), json!(matches!(r.limits, RangeLimits::Closed(_))));
        }
        Pat::Reference(r) => {
            m.insert("p".into(), json!("ref"));
            m.insert("pat".into(), pat(&r.pat));
        }
        Pat::Slice(s) => {
            m.insert("p".into(), json!("slice"));
            m.insert("elems".into(), Value::Array(s.elems.iter().map(pat).collect()));
        }
        Pat::Struct(s) => {
            m.insert("p".into(), json!("struct"));
            m.insert("path".into(), path_segments(&s.path));
            m.insert(
                "fields".into(),
                Value::Array(
                    s.fields
                        .iter()
                        .map(|f| {
                            json!({"name": ts(&f.member), "pat": pat(&f.pat), "shorthand": f.colon_token.is_none()})
                        })
                        .collect(),
                ),
            );
            m.insert("rest".into(), json!(s.rest.is_some()));
        }
        Pat::Tuple(t) => {
            m.insert("p".into(), json!("tuple"));
            m.insert("elems".into(), Value::Array(t.elems.iter().map(pat).collect()));
        }
        Pat::TupleStruct(t) => {
            m.insert("p".into(), json!("tuplestruct"));
            m.insert("path".into(), path_segments(&t.path));
            m.insert("elems".into(), Value::Array(t.elems.iter().map(pat).collect()));
        }
        Pat::Type(t) => {
            m.insert("p".into(), json!("typed"));
            m.insert("pat".into(), pat(&t.pat));
            m.insert("ty".into(), ty(&t.ty));
        }
        Pat::Macro(mc) => {
            m.insert("p".into(), json!("macro"));
            m.insert("mac".into(), mac(&mc.mac, line(mc)));
        }
        Pat::Const(c) => {
            m.insert("p".into(), json!("const"));
            m.insert("block".into(), block(&c.block));
        }
        _ => {
            m.insert("p".into(), json!("other"));
        }
    }
    Value::Object(m)
}

struct MatchesArgs {
    e: Expr,
    p: Pat,
    guard: Option<Expr>,
}
impl parse::Parse for MatchesArgs {
    fn parse(input: parse::ParseStream) -> Result<Self> {
        let e: Expr = input.parse()?;
        input.parse::<Token![,]>()?;
        let p = Pat::parse_multi_with_leading_vert(input)?;
        let guard = if input.peek(Token![if]) {
            input.parse::<Token![if]>()?;
            Some(input.parse::<Expr>()?)
        } else {
            None
        };
        let _ = input.parse::<Option<Token![,]>>();
        Ok(MatchesArgs { e, p, guard })
    }
}

fn mac(m: &syn::Macro, l: usize) -> Value {
    let mut o = obj("macro", l);
    let name = m.path.segments.last().map(|s| s.ident.to_string()).unwrap_or_default();
    o.insert("name".into(), json!(name));
    o.insert("tokens".into(), json!(m.tokens.to_string()));
    if name == "matches" {
        if let Ok(ma) = syn::parse2::<MatchesArgs>(m.tokens.clone()) {
            o.insert("args".into(), Value::Array(vec![expr(&ma.e)]));
            o.insert("pat".into(), pat(&ma.p));
            if let Some(g) = ma.guard {
                o.insert("guard".into(), expr(&g));
            }
            return Value::Object(o);
        }
    }
    let parser = Punctuated::<Expr, Token![,]>::parse_terminated;
    if let Ok(args) = parse::Parser::parse2(parser, m.tokens.clone()) {
        o.insert("args".into(), Value::Array(args.iter().map(expr).collect()));
    } else {
        // `vec![x; n]`
        let parser2 = |input: parse::ParseStream| -> Result<(Expr, Expr)> {
            let a: Expr = input.parse()?;
            input.parse::<Token![;]>()?;
            let b: Expr = input.parse()?;
            Ok((a, b))
        };
        if let Ok((a, b)) = parse::Parser::parse2(parser2, m.tokens.clone()) {
            o.insert("repeat".into(), Value::Array(vec![expr(&a), expr(&b)]));
        }
    }
    Value::Object(o)
}

fn block(b: &Block) -> Value {
    let mut m = obj("block", line(b));
    m.insert("el".into(), json!(endline(b)));
    m.insert("stmts".into(), Value::Array(b.stmts.iter().map(stmt).collect()));
    Value::Object(m)
}

fn stmt(s: &Stmt) -> Value {
    match s {
        Stmt::Local(l) => {
            let mut m = obj("let", line(l));
            m.insert("pat".into(), pat(&l.pat));
            if let Some(init) = &l.init {
                m.insert("init".into(), expr(&init.expr));
                if let Some((_, e)) = &init.diverge {
                    m.insert("else".into(), expr(e));
                }
            }
            Value::Object(m)
        }
        Stmt::Item(i) => {
            let mut m = obj("itemstmt", line(i));
            m.insert("item".into(), item(i, None));
            Value::Object(m)
        }
        Stmt::Expr(e, semi) => {
            let mut m = obj("exprstmt", line(e));
            m.insert("e".into(), expr(e));
            m.insert("semi".into(), json!(semi.is_some()));
            Value::Object(m)
        }
        Stmt::Macro(mc) => {
            let mut m = obj("exprstmt", line(mc));
            m.insert("e".into(), mac(&mc.mac, line(mc)));
            m.insert("semi".into(), json!(mc.semi_token.is_some()));
            Value::Object(m)
        }
    }
}

fn binop(op: &BinOp) -> &'static str {
    match op {
        BinOp::Add(_) => "+",
        BinOp::Sub(_) => "-",
        BinOp::Mul(_) => "*",
        BinOp::Div(_) => "/",
        BinOp::Rem(_) => "%",
        BinOp::And(_) => "&&",
        BinOp::Or(_) => "||",
        BinOp::BitXor(_) => "^",
        BinOp::BitAnd(_) => "&",
        BinOp::BitOr(_) => "|",
        BinOp::Shl(_) => "<<",
        BinOp::Shr(_) => ">>",
        BinOp::Eq(_) => "==",
        BinOp::Lt(_) => "<",
        BinOp::Le(_) => "<=",
        BinOp::Ne(_) => "!=",
        BinOp::Ge(_) => ">=",
        BinOp::Gt(_) => ">",
        BinOp::AddAssign(_) => "+=",
        BinOp::SubAssign(_) => "-=",
        BinOp::MulAssign(_) => "*=",
        BinOp::DivAssign(_) => "/=",
        BinOp::RemAssign(_) => "%=",
        BinOp::BitXorAssign(_) => "^=",
        BinOp::BitAndAssign(_) => "&=",
        BinOp::BitOrAssign(_) => "|=",
        BinOp::ShlAssign(_) => "<<=",
        BinOp::ShrAssign(_) => ">>=",
        _ => "?",
    }
}

fn expr(e: &Expr) -> Value {
    let l = line(e);
    let mut m;
    match e {
        Expr::Array(a) => {
            m = obj("array", l);
            m.insert("elems".into(), Value::Array(a.elems.iter().map(expr).collect()));
        }
        Expr::Assign(a) => {
            m = obj("assign", l);
            m.insert("left".into(), expr(&a.left));
            m.insert("right".into(), expr(&a.right));
        }
        Expr::Async(a) => {
            m = obj("async", l);
            m.insert("block".into(), block(&a.block));
        }
        Expr::Await(a) => {
            m = obj("await", l);
            m.insert("e".into(), expr(&a.base));
        }
        Expr::Binary(b) => {
            m = obj("binary", l);
            m.insert("op".into(), json!(binop(&b.op)));
            m.insert("left".into(), expr(&b.left));
            m.insert("right".into(), expr(&b.right));
        }
        Expr::Block(b) => {
            m = obj("blockexpr", l);
            m.insert("block".into(), block(&b.block));
            if let Some(lb) = &b.label {
                m.insert("label".into(), json!(lb.name.ident.to_string()));
            }
        }
        Expr::Break(b) => {
            m = obj("break", l);
            if let Some(x) = &b.expr {
                m.insert("e".into(), expr(x));
            }
            if let Some(lb) = &b.label {
                m.insert("label".into(), json!(lb.ident.to_string()));
            }
        }
        Expr::Call(c) => {
            m = obj("call", l);
            m.insert("func".into(), expr(&c.func));
            m.insert("args".into(), Value::Array(c.args.iter().map(expr).collect()));
        }
        Expr::Cast(c) => {
            m = obj("cast", l);
            m.insert("e".into(), expr(&c.expr));
            m.insert("ty".into(), ty(&c.ty));
        }
        Expr::Closure(c) => {
            m = obj("closure", l);
            m.insert("inputs".into(), Value::Array(c.inputs.iter().map(pat).collect()));
            m.insert("body".into(), expr(&c.body));
            m.insert("move".into(), json!(c.capture.is_some()));
        }
        Expr::Const(c) => {
            m = obj("constblock", l);
            m.insert("block".into(), block(&c.block));
        }
        Expr::Continue(c) => {
            m = obj("continue", l);
            if let Some(lb) = &c.label {
                m.insert("label".into(), json!(lb.ident.to_string()));
            }
        }
        Expr::Field(f) => {
            m = obj("field", l);
            m.insert("base".into(), expr(&f.base));
            m.insert("member".into(), json!(ts(&f.member)));
        }
        Expr::ForLoop(f) => {
            m = obj("for", l);
            m.insert("pat".into(), pat(&f.pat));
            m.insert("iter".into(), expr(&f.expr));
            m.insert("body".into(), block(&f.body));
            if let Some(lb) = &f.label {
                m.insert("label".into(), json!(lb.name.ident.to_string()));
            }
        }
        Expr::Group(g) => return expr(&g.expr),
        Expr::If(i) => {
            m = obj("if", l);
            m.insert("cond".into(), expr(&i.cond));
            m.insert("then".into(), block(&i.then_branch));
            if let Some((_, e)) = &i.else_branch {
                m.insert("else".into(), expr(e));
            }
        }
        Expr::Index(i) => {
            m = obj("index", l);
            m.insert("base".into(), expr(&i.expr));
            m.insert("index".into(), expr(&i.index));
        }
        Expr::Infer(_) => {
            m = obj("infer", l);
        }
        Expr::Let(x) => {
            m = obj("letexpr", l);
            m.insert("pat".into(), pat(&x.pat));
            m.insert("e".into(), expr(&x.expr));
        }
        Expr::Lit(x) => return lit(&x.lit),
        Expr::Loop(x) => {
            m = obj("loop", l);
            m.insert("body".into(), block(&x.body));
            if let Some(lb) = &x.label {
                m.insert("label".into(), json!(lb.name.ident.to_string()));
            }
        }
        Expr::Macro(x) => return mac(&x.mac, l),
        Expr::Match(x) => {
            m = obj("match", l);
            m.insert("e".into(), expr(&x.expr));
            m.insert(
                "arms".into(),
                Value::Array(
                    x.arms
                        .iter()
                        .map(|a| {
                            let mut am = obj("arm", line(a));
                            am.insert("el".into(), json!(endline(a)));
                            am.insert("pat".into(), pat(&a.pat));
                            if let Some((_, g)) = &a.guard {
                                am.insert("guard".into(), expr(g));
                            }
                            am.insert("body".into(), expr(&a.body));
                            am.insert("attrs".into(), attrs(&a.attrs));
                            Value::Object(am)
                        })
                        .collect(),
                ),
            );
        }
        Expr::MethodCall(x) => {
            m = obj("mcall", l);
            m.insert("recv".into(), expr(&x.receiver));
            m.insert("method".into(), json!(x.method.to_string()));
            m.insert("ml".into(), json!(line(&x.method)));
            if let Some(t) = &x.turbofish {
                m.insert("turbofish".into(), json!(ts(t)));
            }
            m.insert("args".into(), Value::Array(x.args.iter().map(expr).collect()));
        }
        Expr::Paren(x) => {
            m = obj("paren", l);
            m.insert("e".into(), expr(&x.expr));
        }
        Expr::Path(x) => {
            m = obj("path", l);
            m.insert("path".into(), path_segments(&x.path));
            m.insert("s".into(), json!(ts(&x.path)));
            if let Some(q) = &x.qself {
                m.insert("qself".into(), ty(&q.ty));
            }
        }
        Expr::Range(x) => {
            m = obj("range", l);
            if let Some(s) = &x.start {
                m.insert("start".into(), expr(s));
            }
            if let Some(s) = &x.end {
                m.insert("end".into(), expr(s));
            }
            m.insert("inclusive".into(), json!(matches!(x.limits, RangeLimits::Closed(_))));
        }
        Expr::RawAddr(x) => {
            m = obj("rawaddr", l);
            m.insert("e".into(), expr(&x.expr));
        }
        Expr::Reference(x) => {
            m = obj("ref", l);
            m.insert("mut".into(), json!(x.mutability.is_some()));
            m.insert("e".into(), expr(&x.expr));
        }
        Expr::Repeat(x) => {
            m = obj("repeat", l);
            m.insert("e".into(), expr(&x.expr));
            m.insert("len".into(), expr(&x.len));
        }
        Expr::Return(x) => {
            m = obj("return", l);
            if let Some(e) = &x.expr {
                m.insert("e".into(), expr(e));
            }
        }
        Expr::Struct(x) => {
            m = obj("structlit", l);
            m.insert("path".into(), path_segments(&x.path));
            m.insert(
                "fields".into(),
                Value::Array(
                    x.fields
                        .iter()
                        .map(|f| json!({"name": ts(&f.member), "e": expr(&f.expr), "shorthand": f.colon_token.is_none(), "l": line(f)}))
                        .collect(),
                ),
            );
            if let Some(r) = &x.rest {
                m.insert("rest".into(), expr(r));
            }
        }
        Expr::Try(x) => {
            m = obj("try", l);
            m.insert("e".into(), expr(&x.expr));
        }
        Expr::TryBlock(x) => {
            m = obj("tryblock", l);
            m.insert("block".into(), block(&x.block));
        }
        Expr::Tuple(x) => {
            m = obj("tuple", l);
            m.insert("elems".into(), Value::Array(x.elems.iter().map(expr).collect()));
        }
        Expr::Unary(x) => {
            m = obj("unary", l);
            m.insert(
                "op".into(),
                json!(match x.op {
                    UnOp::Deref(_) => "*",
                    UnOp::Not(_) => "!",
                    UnOp::Neg(_) => "-",
                    _ => "?",
                }),
            );
            m.insert("e".into(), expr(&x.expr));
        }
        Expr::Unsafe(x) => {
            m = obj("unsafe", l);
            m.insert("block".into(), block(&x.block));
        }
        Expr::While(x) => {
            m = obj("while", l);
            m.insert("cond".into(), expr(&x.cond));
            m.insert("body".into(), block(&x.body));
            if let Some(lb) = &x.label {
                m.insert("label".into(), json!(lb.name.ident.to_string()));
            }
        }
        Expr::Yield(x) => {
            m = obj("yield", l);
            if let Some(e) = &x.expr {
                m.insert("e".into(), expr(e));
            }
        }
        Expr::Verbatim(t) => {
            m = obj("verbatim", l);
            m.insert("tokens".into(), json!(t.to_string()));
        }
        _ => {
            m = obj("otherexpr", l);
            m.insert("tokens".into(), json!(ts(e)));
        }
    }
    m.insert("c".into(), json!(col(e)));
    m.insert("el".into(), json!(endline(e)));
    Value::Object(m)
}

fn fields(f: &Fields) -> Value {
    match f {
        Fields::Named(n) => Value::Array(
            n.named
                .iter()
                .map(|f| json!({"name": f.ident.as_ref().map(|i| i.to_string()), "vis": vis(&f.vis), "ty": ty(&f.ty), "attrs": attrs(&f.attrs), "l": line(f)}))
                .collect(),
        ),
        Fields::Unnamed(n) => Value::Array(
            n.unnamed
                .iter()
                .enumerate()
                .map(|(i, f)| json!({"name": i.to_string(), "vis": vis(&f.vis), "ty": ty(&f.ty), "attrs": attrs(&f.attrs), "l": line(f), "unnamed": true}))
                .collect(),
        ),
        Fields::Unit => Value::Array(vec![]),
    }
}

fn sig(s: &Signature) -> Value {
    let mut recv = Value::Null;
    let mut inputs = vec![];
    for a in &s.inputs {
        match a {
            FnArg::Receiver(r) => {
                recv = json!(if r.reference.is_some() {
                    if r.mutability.is_some() { "&mut self" } else { "&self" }
                } else if r.colon_token.is_some() {
                    "self:ty"
                } else {
                    "self"
                });
            }
            FnArg::Typed(t) => inputs.push(json!({"pat": pat(&t.pat), "ty": ty(&t.ty)})),
        }
    }
    json!({
        "name": s.ident.to_string(),
        "recv": recv,
        "inputs": inputs,
        "output": match &s.output { ReturnType::Default => Value::Null, ReturnType::Type(_, t) => ty(t) },
        "generics": ts(&s.generics),
        "where": s.generics.where_clause.as_ref().map(|w| ts(w)),
        "unsafe": s.unsafety.is_some(),
    })
}

fn item(i: &Item, dir: Option<&ModCtx>) -> Value {
    let l = line(i);
    let mut m;
    match i {
        Item::Fn(f) => {
            m = obj("fn", l);
            m.insert("name".into(), json!(f.sig.ident.to_string()));
            m.insert("vis".into(), vis(&f.vis));
            m.insert("attrs".into(), attrs(&f.attrs));
            m.insert("sig".into(), sig(&f.sig));
            m.insert("body".into(), block(&f.block));
        }
        Item::Impl(im) => {
            m = obj("impl", l);
            m.insert("attrs".into(), attrs(&im.attrs));
            m.insert("generics".into(), json!(ts(&im.generics)));
            m.insert("self_ty".into(), ty(&im.self_ty));
            if let Some((neg, p, _)) = &im.trait_ {
                m.insert("trait".into(), json!(ts(p)));
                m.insert("trait_path".into(), path_segments(p));
                m.insert("negative".into(), json!(neg.is_some()));
            }
            let mut items = vec![];
            for it in &im.items {
                match it {
                    ImplItem::Fn(f) => {
                        let mut fm = obj("fn", line(f));
                        fm.insert("name".into(), json!(f.sig.ident.to_string()));
                        fm.insert("vis".into(), vis(&f.vis));
                        fm.insert("attrs".into(), attrs(&f.attrs));
                        fm.insert("sig".into(), sig(&f.sig));
                        fm.insert("body".into(), block(&f.block));
                        fm.insert("el".into(), json!(endline(f)));
                        items.push(Value::Object(fm));
                    }
                    ImplItem::Const(c) => {
                        let mut cm = obj("const", line(c));
                        cm.insert("name".into(), json!(c.ident.to_string()));
                        cm.insert("ty".into(), ty(&c.ty));
                        cm.insert("e".into(), expr(&c.expr));
                        items.push(Value::Object(cm));
                    }
                    ImplItem::Type(t) => {
                        let mut tm = obj("type", line(t));
                        tm.insert("name".into(), json!(t.ident.to_string()));
                        tm.insert("ty".into(), ty(&t.ty));
                        items.push(Value::Object(tm));
                    }
                    ImplItem::Macro(mc) => items.push(mac(&mc.mac, line(mc))),
                    _ => {}
                }
            }
            m.insert("items".into(), Value::Array(items));
        }
        Item::Struct(s) => {
            m = obj("struct", l);
            m.insert("name".into(), json!(s.ident.to_string()));
            m.insert("vis".into(), vis(&s.vis));
            m.insert("attrs".into(), attrs(&s.attrs));
            m.insert("generics".into(), json!(ts(&s.generics)));
            m.insert("fields".into(), fields(&s.fields));
            m.insert("tuple".into(), json!(matches!(s.fields, Fields::Unnamed(_))));
        }
        Item::Enum(e) => {
            m = obj("enum", l);
            m.insert("name".into(), json!(e.ident.to_string()));
            m.insert("vis".into(), vis(&e.vis));
            m.insert("attrs".into(), attrs(&e.attrs));
            m.insert("generics".into(), json!(ts(&e.generics)));
            m.insert(
                "variants".into(),
                Value::Array(
                    e.variants
                        .iter()
                        .map(|v| {
                            json!({"name": v.ident.to_string(), "attrs": attrs(&v.attrs), "fields": fields(&v.fields),
                                   "named": matches!(v.fields, Fields::Named(_)),
                                   "disc": v.discriminant.as_ref().map(|(_, e)| expr(e)), "l": line(v)})
                        })
                        .collect(),
                ),
            );
        }
        Item::Trait(t) => {
            m = obj("trait", l);
            m.insert("name".into(), json!(t.ident.to_string()));
            m.insert("vis".into(), vis(&t.vis));
            m.insert("attrs".into(), attrs(&t.attrs));
            m.insert("generics".into(), json!(ts(&t.generics)));
            m.insert("supertraits".into(), json!(ts(&t.supertraits)));
            let mut items = vec![];
            for it in &t.items {
                match it {
                    TraitItem::Fn(f) => {
                        let mut fm = obj("fn", line(f));
                        fm.insert("name".into(), json!(f.sig.ident.to_string()));
                        fm.insert("vis".into(), json!("trait"));
                        fm.insert("attrs".into(), attrs(&f.attrs));
                        fm.insert("sig".into(), sig(&f.sig));
                        fm.insert("el".into(), json!(endline(f)));
                        if let Some(b) = &f.default {
                            fm.insert("body".into(), block(b));
                        }
                        items.push(Value::Object(fm));
                    }
                    TraitItem::Const(c) => {
                        let mut cm = obj("const", line(c));
                        cm.insert("name".into(), json!(c.ident.to_string()));
                        cm.insert("ty".into(), ty(&c.ty));
                        if let Some((_, e)) = &c.default {
                            cm.insert("e".into(), expr(e));
                        }
                        items.push(Value::Object(cm));
                    }
                    TraitItem::Type(t) => {
                        let mut tm = obj("type", line(t));
                        tm.insert("name".into(), json!(t.ident.to_string()));
                        items.push(Value::Object(tm));
                    }
                    _ => {}
                }
            }
            m.insert("items".into(), Value::Array(items));
        }
        Item::Mod(md) => {
            m = obj("mod", l);
            m.insert("name".into(), json!(md.ident.to_string()));
            m.insert("vis".into(), vis(&md.vis));
            m.insert("attrs".into(), attrs(&md.attrs));
            if let Some((_, items)) = &md.content {
                m.insert("inline".into(), json!(true));
                let sub = dir.map(|d| d.child_inline(&md.ident.to_string()));
                m.insert(
                    "items".into(),
                    Value::Array(items.iter().map(|i| item(i, sub.as_ref())).collect()),
                );
            } else if let Some(d) = dir {
                m.insert("inline".into(), json!(false));
                let mut path_attr = None;
                for a in &md.attrs {
                    if a.path().is_ident("path") {
                        if let Meta::NameValue(nv) = &a.meta {
                            if let Expr::Lit(ExprLit { lit: Lit::Str(s), .. }) = &nv.value {
                                path_attr = Some(s.value());
                            }
                        }
                    }
                }
                match d.resolve(&md.ident.to_string(), path_attr) {
                    Some((file, sub)) => {
                        m.insert("file".into(), json!(file.to_string_lossy()));
                        d.files.borrow_mut().push((file, sub));
                    }
                    None => {
                        m.insert("file".into(), Value::Null);
                    }
                }
            }
        }
        Item::Const(c) => {
            m = obj("const", l);
            m.insert("name".into(), json!(c.ident.to_string()));
            m.insert("vis".into(), vis(&c.vis));
            m.insert("attrs".into(), attrs(&c.attrs));
            m.insert("ty".into(), ty(&c.ty));
            m.insert("e".into(), expr(&c.expr));
        }
        Item::Static(c) => {
            m = obj("static", l);
            m.insert("name".into(), json!(c.ident.to_string()));
            m.insert("vis".into(), vis(&c.vis));
            m.insert("attrs".into(), attrs(&c.attrs));
            m.insert("ty".into(), ty(&c.ty));
            m.insert("e".into(), expr(&c.expr));
            m.insert("mut".into(), json!(matches!(c.mutability, StaticMutability::Mut(_))));
        }
        Item::Type(t) => {
            m = obj("type", l);
            m.insert("name".into(), json!(t.ident.to_string()));
            m.insert("vis".into(), vis(&t.vis));
            m.insert("ty".into(), ty(&t.ty));
        }
        Item::Use(u) => {
            m = obj("use", l);
            m.insert("vis".into(), vis(&u.vis));
            m.insert("attrs".into(), attrs(&u.attrs));
            m.insert("tree".into(), json!(ts(&u.tree)));
        }
        Item::Macro(mc) => {
            m = obj("itemmacro", l);
            m.insert("attrs".into(), attrs(&mc.attrs));
            m.insert("name".into(), json!(ts(&mc.mac.path)));
            m.insert("ident".into(), json!(mc.ident.as_ref().map(|i| i.to_string())));
            m.insert("tokens".into(), json!(mc.mac.tokens.to_string()));
        }
        Item::ExternCrate(_) => {
            m = obj("externcrate", l);
        }
        _ => {
            m = obj("otheritem", l);
            m.insert("tokens".into(), json!(ts(i)));
        }
    }
    m.insert("el".into(), json!(endline(i)));
    Value::Object(m)
}

/// module resolution context: where `mod x;` inside this file is looked up
struct ModCtx<'a> {
    /// directory in which child modules of the current module live
    dir: PathBuf,
    files: &'a std::cell::RefCell<Vec<(PathBuf, PathBuf)>>,
}
impl<'a> ModCtx<'a> {
    fn child_inline(&self, name: &str) -> ModCtx<'a> {
        ModCtx { dir: self.dir.join(name), files: self.files }
    }
    /// returns (file, directory for its children)
    fn resolve(&self, name: &str, path_attr: Option<String>) -> Option<(PathBuf, PathBuf)> {
        if let Some(p) = path_attr {
            let f = self.dir.join(p);
            let d = f.parent().unwrap().to_path_buf();
            return if f.exists() { Some((f, d)) } else { None };
        }
        let f1 = self.dir.join(format!("{}.rs", name));
        if f1.exists() {
            return Some((f1, self.dir.join(name)));
        }
        let f2 = self.dir.join(name).join("mod.rs");
        if f2.exists() {
            return Some((f2, self.dir.join(name)));
        }
        None
    }
}

fn main() {
    let args: Vec<String> = std::env::args().collect();
    if args.len() != 3 {
        eprintln!("usage: stamfacts-syn <crate-root.rs> <out.json>");
        std::process::exit(2);
    }
    let root = PathBuf::from(&args[1]);
    let rootdir = root.parent().unwrap_or(Path::new(".")).to_path_buf();
    let queue = std::cell::RefCell::new(vec![(root.clone(), rootdir.clone())]);
    let mut files = vec![];
    let mut errors = vec![];
    let mut done = std::collections::BTreeSet::new();
    loop {
        let next = queue.borrow_mut().pop();
        let Some((file, childdir)) = next else { break };
        if !done.insert(file.clone()) {
            continue;
        }
        let src = match std::fs::read_to_string(&file) {
            Ok(s) => s,
            Err(e) => {
                errors.push(json!({"file": file.to_string_lossy(), "error": e.to_string()}));
                continue;
            }
        };
        let parsed = match syn::parse_file(&src) {
            Ok(p) => p,
            Err(e) => {
                errors.push(json!({"file": file.to_string_lossy(), "error": e.to_string(), "line": e.span().start().line}));
                continue;
            }
        };
        let ctx = ModCtx { dir: childdir, files: &queue };
        let items: Vec<Value> = parsed.items.iter().map(|i| item(i, Some(&ctx))).collect();
        let rel = file.strip_prefix(rootdir.parent().unwrap_or(&rootdir)).unwrap_or(&file);
        files.push(json!({"file": rel.to_string_lossy(), "abs": file.to_string_lossy(), "attrs": attrs(&parsed.attrs), "items": items, "lines": src.lines().count()}));
    }
    let _unused: Option<TokenStream> = None;
    let out = json!({"engine": "stamfacts-syn", "root": root.to_string_lossy(), "files": files, "errors": errors});
    std::fs::write(&args[2], serde_json::to_vec(&out).unwrap()).unwrap();
}
