//! stamfacts-mir: a rustc_private driver that dumps the type-checked program of crate
//! `stam` (MIR bodies with resolved callees, place projections with field names, impl
//! table, ADT table) as one JSON document, written in a single write. No rule lives
//! here: the deciding rules are in /verif/lib (python).
//!
//! Used as RUSTC_WORKSPACE_WRAPPER (argv[1] is the real rustc and is dropped).
//! env: STAMFACTS_OUT (file), STAMFACTS_NONCE (copied into the file),
//!      STAMFACTS_CRATE (default "stam").
#![feature(rustc_private)]
#![allow(unused)]

extern crate rustc_abi;
extern crate rustc_data_structures;
extern crate rustc_driver;
extern crate rustc_hir;
extern crate rustc_index;
extern crate rustc_interface;
extern crate rustc_middle;
extern crate rustc_span;

use rustc_driver::Compilation;
use rustc_hir::def::DefKind;
use rustc_hir::def_id::{DefId, LocalDefId, LOCAL_CRATE};
use rustc_interface::interface;
use rustc_middle::mir::*;
use rustc_middle::ty::print::with_no_trimmed_paths;
use rustc_middle::ty::print::PrintTraitRefExt;
use rustc_middle::ty::{self, Instance, Ty, TyCtxt, TypingEnv};
use rustc_span::Span;
use std::fmt::Write as _;

// ---------------------------------------------------------------- tiny JSON writer
enum J {
    Null,
    Bool(bool),
    Num(i128),
    Str(String),
    Arr(Vec<J>),
    Obj(Vec<(&'static str, J)>),
}
fn s<T: Into<String>>(x: T) -> J {
    J::Str(x.into())
}
fn n<T: TryInto<i128>>(x: T) -> J {
    J::Num(x.try_into().ok().unwrap_or(-1))
}
impl J {
    fn write(&self, out: &mut String) {
        match self {
            J::Null => out.push_str("null"),
            J::Bool(b) => out.push_str(if *b { "true" } else { "false" }),
            J::Num(v) => {
                let _ = write!(out, "{}", v);
            }
            J::Str(st) => {
                out.push('"');
                for c in st.chars() {
                    match c {
                        '"' => out.push_str("\\\""),
                        '\\' => out.push_str("\\\\"),
                        '\n' => out.push_str("\\n"),
                        '\r' => out.push_str("\\r"),
                        '\t' => out.push_str("\\t"),
                        c if (c as u32) < 0x20 => {
                            let _ = write!(out, "\\u{:04x}", c as u32);
                        }
                        c => out.push(c),
                    }
                }
                out.push('"');
            }
            J::Arr(v) => {
                out.push('[');
                for (i, x) in v.iter().enumerate() {
                    if i > 0 {
                        out.push(',');
                    }
                    x.write(out);
                }
                out.push(']');
            }
            J::Obj(v) => {
                out.push('{');
                for (i, (k, x)) in v.iter().enumerate() {
                    if i > 0 {
                        out.push(',');
                    }
                    out.push('"');
                    out.push_str(k);
                    out.push_str("\":");
                    x.write(out);
                }
                out.push('}');
            }
        }
    }
}

// ---------------------------------------------------------------- helpers
fn tystr<'tcx>(t: Ty<'tcx>) -> String {
    with_no_trimmed_paths!(format!("{}", t))
}
fn path<'tcx>(tcx: TyCtxt<'tcx>, d: DefId) -> String {
    with_no_trimmed_paths!(tcx.def_path_str(d))
}

struct Cx<'tcx> {
    tcx: TyCtxt<'tcx>,
}

impl<'tcx> Cx<'tcx> {
    fn span(&self, sp: Span) -> Vec<(&'static str, J)> {
        let sm = self.tcx.sess.source_map();
        let cs = sp.source_callsite();
        let lo = sm.lookup_char_pos(cs.lo());
        let hi = sm.lookup_char_pos(cs.hi());
        let mut v = vec![
            ("line", n(lo.line as i128)),
            ("eline", n(hi.line as i128)),
        ];
        if sp.from_expansion() {
            let names: Vec<J> = sp
                .macro_backtrace()
                .map(|e| s(e.kind.descr()))
                .collect();
            v.push(("exp", J::Arr(names)));
        }
        v
    }
    fn file(&self, sp: Span) -> String {
        let sm = self.tcx.sess.source_map();
        let cs = sp.source_callsite();
        let lo = sm.lookup_char_pos(cs.lo());
        format!("{}", lo.file.name.prefer_local_unconditionally())
    }

    fn place(&self, body: &Body<'tcx>, p: &Place<'tcx>) -> J {
        let tcx = self.tcx;
        let mut proj = vec![];
        let mut pty = PlaceTy::from_ty(body.local_decls[p.local].ty);
        for elem in p.projection.iter() {
            let j = match elem {
                ProjectionElem::Deref => s("*"),
                ProjectionElem::Field(f, _) => {
                    let mut o = vec![("f", n(f.as_usize() as i128))];
                    match pty.ty.kind() {
                        ty::Adt(def, _) => {
                            let v = pty.variant_index.unwrap_or(rustc_abi::FIRST_VARIANT);
                            let vd = def.variant(v);
                            if let Some(fd) = vd.fields.get(f) {
                                o.push(("n", s(fd.name.as_str())));
                            }
                            o.push(("a", s(path(tcx, def.did()))));
                        }
                        ty::Closure(..) => o.push(("a", s("{closure}"))),
                        ty::Tuple(..) => o.push(("a", s("(tuple)"))),
                        _ => {}
                    }
                    J::Obj(o)
                }
                ProjectionElem::Index(l) => J::Obj(vec![("i", n(l.as_usize() as i128))]),
                ProjectionElem::ConstantIndex { offset, from_end, .. } => {
                    J::Obj(vec![("ci", n(offset as i128)), ("fe", J::Bool(from_end))])
                }
                ProjectionElem::Subslice { .. } => s("sub"),
                ProjectionElem::Downcast(name, idx) => J::Obj(vec![
                    ("d", n(idx.as_usize() as i128)),
                    ("n", s(name.map(|x| x.to_string()).unwrap_or_default())),
                ]),
                _ => s("?"),
            };
            proj.push(j);
            pty = pty.projection_ty(tcx, elem);
        }
        J::Obj(vec![("l", n(p.local.as_usize() as i128)), ("p", J::Arr(proj))])
    }

    fn fn_info(&self, owner: DefId, def_id: DefId, args: ty::GenericArgsRef<'tcx>) -> J {
        let tcx = self.tcx;
        let mut o = vec![
            ("fn", s(path(tcx, def_id))),
            (
                "ga",
                J::Arr(
                    args.iter()
                        .map(|a| s(with_no_trimmed_paths!(format!("{}", a))))
                        .collect(),
                ),
            ),
            ("local", J::Bool(def_id.is_local())),
        ];
        if let Some(tr) = tcx.trait_of_assoc(def_id) {
            o.push(("trait", s(path(tcx, tr))));
            if args.len() > 0 {
                if let Some(t) = args[0].as_type() {
                    o.push(("self", s(tystr(t))));
                }
            }
        }
        if let Some(im) = tcx.inherent_impl_of_assoc(def_id) {
            let t = tcx.type_of(im).instantiate_identity().skip_norm_wip();
            o.push(("implself", s(tystr(t))));
        }
        // trait bounds of the callee instantiated with the call's generic arguments: the
        // trait methods a (foreign) generic callee may call back into
        {
            let r = std::panic::catch_unwind(std::panic::AssertUnwindSafe(|| {
                let mut v = vec![];
                let preds = tcx.predicates_of(def_id).instantiate(tcx, args);
                for c in preds.predicates {
                    let c = c.skip_norm_wip();
                    if let Some(tp) = c.as_trait_clause() {
                        let tp = tp.skip_binder();
                        v.push(J::Arr(vec![s(path(tcx, tp.def_id())), s(tystr(tp.self_ty()))]));
                    }
                }
                v
            }));
            if let Ok(v) = r {
                if !v.is_empty() {
                    o.push(("preds", J::Arr(v)));
                }
            }
        }
        // resolution
        let env = TypingEnv::post_analysis(tcx, owner);
        let res = std::panic::catch_unwind(std::panic::AssertUnwindSafe(|| {
            Instance::try_resolve(tcx, env, def_id, args)
        }));
        match res {
            Ok(Ok(Some(inst))) => {
                let kind = match inst.def {
                    ty::InstanceKind::Item(_) => "item",
                    ty::InstanceKind::Virtual(..) => "virtual",
                    ty::InstanceKind::Intrinsic(_) => "intrinsic",
                    ty::InstanceKind::ClosureOnceShim { .. } => "closure_once_shim",
                    ty::InstanceKind::FnPtrShim(..) => "fnptr_shim",
                    ty::InstanceKind::DropGlue(..) => "drop_glue",
                    ty::InstanceKind::CloneShim(..) => "clone_shim",
                    ty::InstanceKind::ReifyShim(..) => "reify_shim",
                    _ => "other",
                };
                o.push(("rk", s(kind)));
                let rd = inst.def_id();
                o.push(("r", s(path(tcx, rd))));
                o.push(("rlocal", J::Bool(rd.is_local())));
                if rd != def_id || inst.args != args {
                    o.push((
                        "rga",
                        J::Arr(
                            inst.args
                                .iter()
                                .map(|a| s(with_no_trimmed_paths!(format!("{}", a))))
                                .collect(),
                        ),
                    ));
                }
                // impl self type of the resolved item (for trait impl methods)
                if let Some(parent) = tcx.opt_parent(rd) {
                    if let DefKind::Impl { .. } = tcx.def_kind(parent) {
                        let t = tcx.type_of(parent).instantiate_identity().skip_norm_wip();
                        o.push(("rimplself", s(tystr(t))));
                    }
                }
            }
            Ok(Ok(None)) => o.push(("rk", s("unresolved"))),
            Ok(Err(_)) => o.push(("rk", s("error"))),
            Err(_) => o.push(("rk", s("ice"))),
        }
        J::Obj(o)
    }

    fn operand(&self, body: &Body<'tcx>, owner: DefId, op: &Operand<'tcx>) -> J {
        let tcx = self.tcx;
        match op {
            Operand::Copy(p) => J::Obj(vec![("c", self.place(body, p))]),
            Operand::Move(p) => J::Obj(vec![("m", self.place(body, p))]),
            Operand::Constant(c) => {
                let t = c.const_.ty();
                let mut o = vec![("ty", s(tystr(t)))];
                match t.kind() {
                    ty::FnDef(d, a) => o.push(("f", self.fn_info(owner, *d, a))),
                    ty::Closure(d, _) => o.push(("closure", s(path(tcx, *d)))),
                    _ => {
                        let env = TypingEnv::post_analysis(tcx, owner);
                        let r = std::panic::catch_unwind(std::panic::AssertUnwindSafe(|| {
                            c.const_.try_eval_scalar_int(tcx, env)
                        }));
                        if let Ok(Some(si)) = r {
                            let size = si.size();
                            if t.is_signed() {
                                o.push(("v", J::Num(si.to_int(size))));
                            } else if t.is_bool() || t.is_integral() || t.is_char() {
                                o.push(("v", J::Num(si.to_uint(size) as i128)));
                            }
                        }
                        o.push(("s", s(with_no_trimmed_paths!(format!("{}", c.const_)))));
                    }
                }
                J::Obj(vec![("k", J::Obj(o))])
            }
            #[allow(unreachable_patterns)]
            _ => J::Obj(vec![("other", J::Null)]),
        }
    }

    fn rvalue(&self, body: &Body<'tcx>, owner: DefId, rv: &Rvalue<'tcx>) -> J {
        let tcx = self.tcx;
        match rv {
            Rvalue::Use(op, ..) => J::Obj(vec![("r", s("use")), ("o", self.operand(body, owner, op))]),
            Rvalue::Repeat(op, _) => J::Obj(vec![("r", s("repeat")), ("o", self.operand(body, owner, op))]),
            Rvalue::Ref(_, bk, p) => J::Obj(vec![
                ("r", s("ref")),
                (
                    "bk",
                    s(match bk {
                        BorrowKind::Shared => "shared",
                        BorrowKind::Fake(_) => "fake",
                        BorrowKind::Mut { .. } => "mut",
                    }),
                ),
                ("p", self.place(body, p)),
            ]),
            Rvalue::RawPtr(k, p) => J::Obj(vec![
                ("r", s("rawptr")),
                ("bk", s(format!("{:?}", k))),
                ("p", self.place(body, p)),
            ]),
            Rvalue::Cast(kind, op, t) => J::Obj(vec![
                ("r", s("cast")),
                ("ck", s(format!("{:?}", kind))),
                ("o", self.operand(body, owner, op)),
                ("ty", s(tystr(*t))),
            ]),
            Rvalue::BinaryOp(bop, ops) => J::Obj(vec![
                ("r", s("bin")),
                ("op", s(format!("{:?}", bop))),
                ("a", self.operand(body, owner, &ops.0)),
                ("b", self.operand(body, owner, &ops.1)),
            ]),
            Rvalue::UnaryOp(uop, op) => J::Obj(vec![
                ("r", s("un")),
                ("op", s(format!("{:?}", uop))),
                ("o", self.operand(body, owner, op)),
            ]),
            Rvalue::Discriminant(p) => J::Obj(vec![("r", s("discr")), ("p", self.place(body, p))]),
            Rvalue::Aggregate(kind, ops) => {
                let mut o = vec![("r", s("agg"))];
                match &**kind {
                    AggregateKind::Array(_) => o.push(("ak", s("array"))),
                    AggregateKind::Tuple => o.push(("ak", s("tuple"))),
                    AggregateKind::Adt(d, vidx, _, _, _) => {
                        o.push(("ak", s("adt")));
                        o.push(("adt", s(path(tcx, *d))));
                        let adt = tcx.adt_def(*d);
                        let vd = adt.variant(*vidx);
                        o.push(("variant", s(vd.name.as_str())));
                        o.push(("vi", n(vidx.as_usize() as i128)));
                        o.push((
                            "fields",
                            J::Arr(vd.fields.iter().map(|f| s(f.name.as_str())).collect()),
                        ));
                    }
                    AggregateKind::Closure(d, _) => {
                        o.push(("ak", s("closure")));
                        o.push(("closure", s(path(tcx, *d))));
                    }
                    AggregateKind::Coroutine(d, _) | AggregateKind::CoroutineClosure(d, _) => {
                        o.push(("ak", s("coroutine")));
                        o.push(("closure", s(path(tcx, *d))));
                    }
                    AggregateKind::RawPtr(..) => o.push(("ak", s("rawptr"))),
                }
                o.push(("ops", J::Arr(ops.iter().map(|x| self.operand(body, owner, x)).collect())));
                J::Obj(o)
            }
            Rvalue::CopyForDeref(p) => J::Obj(vec![("r", s("use")), ("o", J::Obj(vec![("c", self.place(body, p))]))]),
            other => J::Obj(vec![("r", s("other")), ("s", s(format!("{:?}", other)))]),
        }
    }

    fn body(&self, did: LocalDefId) -> J {
        let tcx = self.tcx;
        let owner = did.to_def_id();
        let body: &Body<'tcx> = tcx.optimized_mir(owner);
        let kind = tcx.def_kind(did);
        let mut o: Vec<(&'static str, J)> = vec![("id", s(path(tcx, owner)))];
        o.push(("kind", s(format!("{:?}", kind))));
        let dsp = tcx.def_span(did);
        o.push(("file", s(self.file(body.span))));
        o.extend(self.span(body.span));
        o.push(("derived", J::Bool(dsp.from_expansion())));
        if matches!(kind, DefKind::Fn | DefKind::AssocFn) {
            let v = tcx.visibility(owner);
            o.push(("pub", J::Bool(v.is_public())));
            o.push(("reachable", J::Bool(tcx.effective_visibilities(()).is_reachable(did))));
            o.push(("name", s(tcx.item_name(owner).as_str())));
        }
        if let Some(parent) = tcx.opt_parent(owner) {
            match tcx.def_kind(parent) {
                DefKind::Impl { of_trait } => {
                    let t = tcx.type_of(parent).instantiate_identity().skip_norm_wip();
                    o.push(("implself", s(tystr(t))));
                    if of_trait {
                        let tr = tcx.impl_trait_ref(parent).instantiate_identity().skip_norm_wip();
                        o.push(("impltrait", s(with_no_trimmed_paths!(format!("{}", tr.print_only_trait_path())))));
                        o.push(("impltraitdef", s(path(tcx, tr.def_id))));
                    }
                }
                DefKind::Trait => {
                    o.push(("intrait", s(path(tcx, parent))));
                }
                _ => {
                    o.push(("parent", s(path(tcx, parent))));
                }
            }
        }
        if matches!(kind, DefKind::Closure) {
            let caps: Vec<J> = tcx
                .closure_captures(did)
                .iter()
                .map(|c| s(c.to_symbol().as_str()))
                .collect();
            o.push(("upvars", J::Arr(caps)));
        }
        {
            let g = tcx.generics_of(owner);
            let mut names = vec![];
            for i in 0..g.count() {
                names.push(s(g.param_at(i, tcx).name.as_str()));
            }
            o.push(("generics", J::Arr(names)));
        }
        o.push(("argc", n(body.arg_count as i128)));
        // locals
        let mut names: Vec<Option<String>> = vec![None; body.local_decls.len()];
        for vdi in &body.var_debug_info {
            if let VarDebugInfoContents::Place(p) = &vdi.value {
                if p.projection.is_empty() {
                    names[p.local.as_usize()] = Some(vdi.name.to_string());
                }
            }
        }
        let locals: Vec<J> = body
            .local_decls
            .iter_enumerated()
            .map(|(l, d)| {
                let mut lo = vec![("ty", s(tystr(d.ty)))];
                if let Some(nm) = &names[l.as_usize()] {
                    lo.push(("n", s(nm.clone())));
                }
                J::Obj(lo)
            })
            .collect();
        o.push(("locals", J::Arr(locals)));
        // debug info for captured/projected variables
        let mut dbg = vec![];
        for vdi in &body.var_debug_info {
            if let VarDebugInfoContents::Place(p) = &vdi.value {
                if !p.projection.is_empty() {
                    dbg.push(J::Obj(vec![("n", s(vdi.name.to_string())), ("p", self.place(body, p))]));
                }
            }
        }
        o.push(("dbg", J::Arr(dbg)));
        // blocks
        let mut blocks = vec![];
        for (_bb, data) in body.basic_blocks.iter_enumerated() {
            let mut stmts = vec![];
            for st in &data.statements {
                match &st.kind {
                    StatementKind::Assign(b) => {
                        let (p, rv) = &**b;
                        let mut so = vec![("p", self.place(body, p)), ("rv", self.rvalue(body, owner, rv))];
                        so.extend(self.span(st.source_info.span));
                        stmts.push(J::Obj(so));
                    }
                    StatementKind::SetDiscriminant { place, variant_index } => {
                        let mut so = vec![
                            ("p", self.place(body, place)),
                            ("setdiscr", n(variant_index.as_usize() as i128)),
                        ];
                        so.extend(self.span(st.source_info.span));
                        stmts.push(J::Obj(so));
                    }
                    _ => {}
                }
            }
            let term = data.terminator();
            let mut t: Vec<(&'static str, J)> = vec![];
            match &term.kind {
                TerminatorKind::Goto { target } => {
                    t.push(("t", s("goto")));
                    t.push(("target", n(target.as_usize() as i128)));
                }
                TerminatorKind::SwitchInt { discr, targets } => {
                    t.push(("t", s("switch")));
                    t.push(("o", self.operand(body, owner, discr)));
                    let tv: Vec<J> = targets
                        .iter()
                        .map(|(v, b)| J::Arr(vec![J::Num(v as i128), n(b.as_usize() as i128)]))
                        .collect();
                    t.push(("targets", J::Arr(tv)));
                    t.push(("otherwise", n(targets.otherwise().as_usize() as i128)));
                    t.push(("dty", s(tystr(discr.ty(&body.local_decls, tcx)))));
                }
                TerminatorKind::Return => t.push(("t", s("return"))),
                TerminatorKind::Unreachable => t.push(("t", s("unreachable"))),
                TerminatorKind::UnwindResume => t.push(("t", s("resume"))),
                TerminatorKind::UnwindTerminate(_) => t.push(("t", s("terminate"))),
                TerminatorKind::Drop { place, target, .. } => {
                    t.push(("t", s("drop")));
                    t.push(("p", self.place(body, place)));
                    t.push(("target", n(target.as_usize() as i128)));
                }
                TerminatorKind::Call { func, args, destination, target, .. } => {
                    t.push(("t", s("call")));
                    t.push(("func", self.operand(body, owner, func)));
                    t.push(("args", J::Arr(args.iter().map(|a| self.operand(body, owner, &a.node)).collect())));
                    t.push((
                        "at",
                        J::Arr(args.iter().map(|a| s(tystr(a.node.ty(&body.local_decls, tcx)))).collect()),
                    ));
                    t.push(("dest", self.place(body, destination)));
                    if let Some(tg) = target {
                        t.push(("target", n(tg.as_usize() as i128)));
                    }
                }
                TerminatorKind::TailCall { func, args, .. } => {
                    t.push(("t", s("call")));
                    t.push(("func", self.operand(body, owner, func)));
                    t.push(("args", J::Arr(args.iter().map(|a| self.operand(body, owner, &a.node)).collect())));
                }
                TerminatorKind::Assert { cond, expected, msg, target, .. } => {
                    t.push(("t", s("assert")));
                    t.push(("cond", self.operand(body, owner, cond)));
                    t.push(("expected", J::Bool(*expected)));
                    let (mk, mops): (&str, Vec<&Operand<'tcx>>) = match &**msg {
                        AssertKind::BoundsCheck { len, index } => ("bounds", vec![len, index]),
                        AssertKind::Overflow(op, a, b) => (
                            match op {
                                BinOp::Add => "overflow_add",
                                BinOp::Sub => "overflow_sub",
                                BinOp::Mul => "overflow_mul",
                                _ => "overflow_other",
                            },
                            vec![a, b],
                        ),
                        AssertKind::OverflowNeg(a) => ("overflow_neg", vec![a]),
                        AssertKind::DivisionByZero(a) => ("div_zero", vec![a]),
                        AssertKind::RemainderByZero(a) => ("rem_zero", vec![a]),
                        AssertKind::MisalignedPointerDereference { .. } => ("ptr_misaligned", vec![]),
                        AssertKind::NullPointerDereference => ("ptr_null", vec![]),
                        AssertKind::InvalidEnumConstruction(_) => ("invalid_enum", vec![]),
                        _ => ("other", vec![]),
                    };
                    t.push(("msg", s(mk)));
                    t.push(("mops", J::Arr(mops.iter().map(|x| self.operand(body, owner, x)).collect())));
                    t.push(("target", n(target.as_usize() as i128)));
                }
                TerminatorKind::FalseEdge { real_target, .. } => {
                    t.push(("t", s("goto")));
                    t.push(("target", n(real_target.as_usize() as i128)));
                }
                TerminatorKind::FalseUnwind { real_target, .. } => {
                    t.push(("t", s("goto")));
                    t.push(("target", n(real_target.as_usize() as i128)));
                }
                other => {
                    t.push(("t", s("other")));
                    t.push(("s", s(format!("{:?}", other))));
                }
            }
            t.extend(self.span(term.source_info.span));
            let mut bo = vec![("s", J::Arr(stmts)), ("t", J::Obj(t))];
            if data.is_cleanup {
                bo.push(("cleanup", J::Bool(true)));
            }
            blocks.push(J::Obj(bo));
        }
        o.push(("blocks", J::Arr(blocks)));
        J::Obj(o)
    }

    fn dump(&self) -> J {
        let tcx = self.tcx;
        let mut bodies = vec![];
        for did in tcx.hir_body_owners() {
            let kind = tcx.def_kind(did);
            if !matches!(kind, DefKind::Fn | DefKind::AssocFn | DefKind::Closure) {
                continue;
            }
            bodies.push(self.body(did));
        }
        // impl table
        let mut impls = vec![];
        for (tr, ims) in tcx.all_local_trait_impls(()).iter() {
            for im in ims {
                let imd = im.to_def_id();
                let t = tcx.type_of(imd).instantiate_identity().skip_norm_wip();
                let trr = tcx.impl_trait_ref(imd).instantiate_identity().skip_norm_wip();
                let mut methods = vec![];
                for it in tcx.associated_items(imd).in_definition_order() {
                    if it.is_fn() {
                        let mut mo = vec![("name", s(it.name().as_str())), ("def", s(path(tcx, it.def_id)))];
                        if let Some(tid) = it.trait_item_def_id() {
                            mo.push(("traititem", s(path(tcx, tid))));
                        }
                        methods.push(J::Obj(mo));
                    }
                }
                impls.push(J::Obj(vec![
                    ("trait", s(path(tcx, *tr))),
                    ("traitref", s(with_no_trimmed_paths!(format!("{}", trr.print_only_trait_path())))),
                    ("self", s(tystr(t))),
                    ("def", s(path(tcx, imd))),
                    ("derived", J::Bool(tcx.def_span(imd).from_expansion())),
                    ("methods", J::Arr(methods)),
                ]));
            }
        }
        // local traits with their methods (default body or not)
        let mut traits = vec![];
        for id in tcx.hir_free_items() {
            let did = id.owner_id.to_def_id();
            if tcx.def_kind(did) == DefKind::Trait {
                let mut methods = vec![];
                for it in tcx.associated_items(did).in_definition_order() {
                    if it.is_fn() {
                        methods.push(J::Obj(vec![
                            ("name", s(it.name().as_str())),
                            ("def", s(path(tcx, it.def_id))),
                            ("default", J::Bool(it.defaultness(tcx).has_value())),
                        ]));
                    }
                }
                traits.push(J::Obj(vec![("trait", s(path(tcx, did))), ("methods", J::Arr(methods))]));
            }
        }
        // local ADTs
        let mut adts = vec![];
        for id in tcx.hir_free_items() {
            let did = id.owner_id.to_def_id();
            if matches!(tcx.def_kind(did), DefKind::Struct | DefKind::Enum | DefKind::Union) {
                let adt = tcx.adt_def(did);
                let mut variants = vec![];
                for v in adt.variants().iter() {
                    let fields: Vec<J> = v
                        .fields
                        .iter()
                        .map(|f| {
                            let ft = tcx.type_of(f.did).instantiate_identity().skip_norm_wip();
                            J::Obj(vec![
                                ("name", s(f.name.as_str())),
                                ("ty", s(tystr(ft))),
                                ("pub", J::Bool(f.vis.is_public())),
                            ])
                        })
                        .collect();
                    variants.push(J::Obj(vec![("name", s(v.name.as_str())), ("fields", J::Arr(fields))]));
                }
                adts.push(J::Obj(vec![
                    ("adt", s(path(tcx, did))),
                    ("kind", s(format!("{:?}", tcx.def_kind(did)))),
                    ("pub", J::Bool(tcx.visibility(did).is_public())),
                    ("reachable", J::Bool(tcx.effective_visibilities(()).is_reachable(id.owner_id.def_id))),
                    ("variants", J::Arr(variants)),
                ]));
            }
        }
        J::Obj(vec![
            ("engine", s("stamfacts-mir")),
            ("nonce", s(std::env::var("STAMFACTS_NONCE").unwrap_or_default())),
            ("crate", s(tcx.crate_name(LOCAL_CRATE).as_str())),
            ("bodies", J::Arr(bodies)),
            ("impls", J::Arr(impls)),
            ("traits", J::Arr(traits)),
            ("adts", J::Arr(adts)),
        ])
    }
}

struct Cb;
impl rustc_driver::Callbacks for Cb {
    fn after_analysis<'tcx>(&mut self, _c: &interface::Compiler, tcx: TyCtxt<'tcx>) -> Compilation {
        let want = std::env::var("STAMFACTS_CRATE").unwrap_or_else(|_| "stam".to_string());
        if tcx.crate_name(LOCAL_CRATE).as_str() == want {
            if let Ok(out) = std::env::var("STAMFACTS_OUT") {
                let cx = Cx { tcx };
                let j = cx.dump();
                let mut buf = String::with_capacity(64 << 20);
                j.write(&mut buf);
                std::fs::write(&out, buf.as_bytes()).expect("write facts");
            }
        }
        Compilation::Continue
    }
}

fn main() {
    let mut args: Vec<String> = std::env::args().collect();
    // wrapper mode: argv[1] is the path of the real rustc
    if args.len() > 1 && (args[1].ends_with("rustc") || args[1].contains("/rustc")) {
        args.remove(1);
    }
    rustc_driver::run_compiler(&args, &mut Cb);
}
