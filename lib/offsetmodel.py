"""Model of cursor / offset resolution, extracted from the syntax tree on every run and
evaluated over small texts (A7).  Used by C04 (and by C15 for the cursor print/parse table)."""
from synq import Syn, unparse
from formula import Evaluator, Interval, EnumVal, StructVal, SInt, Unknown, Panic, Return, some, is_some, ok, err
from core import AnchorMissing


class EmptyMap:
    """a position index with no known selection at the queried position"""

    def __repr__(self):
        return "<emptymap>"


def B(x):
    return EnumVal("BeginAligned", (x,))


def E(x):
    return EnumVal("EndAligned", (SInt(x),))


def offset(c1, c2):
    return StructVal("Offset", {"begin": c1, "end": c2})


def resource(L):
    # the text is modelled with 2-byte characters: its byte length differs from its length in codepoints
    return StructVal("TextResource", {"textlen": L, "text": StructVal("str", {"len": 2 * L}), "positionindex": StructVal("PositionIndex", {"0": EmptyMap()}), "intid": None})


def selection(b, e):
    iv = Interval()
    iv.update({"intid": None, "begin": b, "end": e})
    return iv


class OffsetModel:
    def __init__(self, syn):
        self.syn = syn
        self.fns = {
            "res.beginaligned_cursor": syn.fn("beginaligned_cursor", in_trait="Text"),
            "sel.beginaligned_cursor": syn.fn("beginaligned_cursor", self_ty="TextSelection"),
            "res.textselection_by_offset": syn.fn("textselection_by_offset", self_ty="TextResource"),
            "res.textselection_by_offset_unchecked": syn.fn("textselection_by_offset_unchecked", self_ty="TextResource"),
            "sel.textselection_by_offset": syn.fn("textselection_by_offset", self_ty="TextSelection"),
            "sel.absolute_offset": syn.fn("absolute_offset", self_ty="TextSelection"),
            "sel.relative_offset": syn.fn("relative_offset", self_ty="TextSelection"),
            "sel.relative_begin": syn.fn("relative_begin", self_ty="TextSelection"),
            "sel.relative_end": syn.fn("relative_end", self_ty="TextSelection"),
            "sel.relative_begin_endaligned": syn.fn("relative_begin_endaligned", self_ty="TextSelection"),
            "sel.relative_end_endaligned": syn.fn("relative_end_endaligned", self_ty="TextSelection"),
            "offsetmode.from": syn.fn("from", trait="From<&Offset>", self_ty="OffsetMode"),
            "offset.from_sel": syn.fn("from", trait="From<&TextSelection>", self_ty="Offset"),
        }
        self.depth = 0

    def evaluator(self):
        ev = Evaluator(hooks={})
        m = self

        def dispatch(name):
            def h(ev, recv, args, node, env):
                if isinstance(recv, Interval) and ("sel." + name) in m.fns:
                    return m.call(ev, "sel." + name, recv, args)
                if isinstance(recv, StructVal) and recv.tyname == "TextResource" and ("res." + name) in m.fns:
                    return m.call(ev, "res." + name, recv, args)
                return NotImplemented
            return h

        for nm in ("beginaligned_cursor", "textselection_by_offset", "textselection_by_offset_unchecked", "absolute_offset", "relative_offset",
                   "relative_begin", "relative_end", "relative_begin_endaligned", "relative_end_endaligned"):
            ev.hooks[nm] = dispatch(nm)

        def h_get(ev, recv, args, node, env):
            if isinstance(recv, EmptyMap):
                return None
            return NotImplemented

        def h_simple(ev, recv, args, node, env):
            return offset(B(args[0]), B(args[1]))

        def h_new(ev, recv, args, node, env):
            return offset(args[0], args[1])

        def h_into(ev, recv, args, node, env):
            if isinstance(recv, Interval):
                return m.call(ev, "offset.from_sel", None, [recv], noself=True)
            if isinstance(recv, StructVal) and recv.tyname == "Offset":
                return m.call(ev, "offsetmode.from", None, [recv], noself=True)
            return NotImplemented

        ev.hooks.update({"get": h_get, "call:Offset::simple": h_simple, "call:Offset::new": h_new, "into": h_into})

        def h_any(ev, recv, args, node, env):
            # a helper method of TextSelection / TextResource that is not in the table: follow it if it is unique
            ty = "TextSelection" if isinstance(recv, Interval) else ("TextResource" if isinstance(recv, StructVal) and recv.tyname == "TextResource" else None)
            if ty is None:
                return NotImplemented
            cands = [f for f in m.syn.fns if f.name == node["method"] and (f.self_ty or "") == ty and f.trait is None and f.body is not None]
            if len(cands) != 1:
                return NotImplemented
            fn = cands[0]
            params = [i["pat"].get("name") for i in fn.sig["inputs"]]
            if len(params) != len(args):
                return NotImplemented
            m.depth += 1
            try:
                if m.depth > 8:
                    raise Unknown("recursion depth")
                env2 = {"self": recv}
                env2.update(zip(params, args))
                return ev.run_body(fn.body, env2)
            finally:
                m.depth -= 1
        ev.hooks["*"] = h_any

        def h_map(ev, recv, args, node, env):
            if (recv is None or is_some(recv)) and args and isinstance(args[0], tuple) and args[0][0] == "closure":
                if recv is None:
                    return None
                clo = args[0][1]
                from formula import match_pat
                env2 = dict(env)
                b_ = {}
                if len(clo["inputs"]) != 1 or not match_pat(clo["inputs"][0], recv[1], b_):
                    raise Unknown("closure parameter pattern")
                env2.update(b_)
                return some(ev.eval(clo["body"], env2))
            return NotImplemented
        ev.hooks["map"] = h_map
        return ev

    def call(self, ev, key, recv, args, noself=False):
        fn = self.fns[key]
        self.depth += 1
        try:
            if self.depth > 8:
                raise Unknown("recursion depth")
            env = {} if noself else {"self": recv}
            params = [i["pat"].get("name") for i in fn.sig["inputs"]]
            if len(params) != len(args):
                raise Unknown("arity of %s" % fn.qual)
            for p, a in zip(params, args):
                env[p] = a
            # `Self` in struct literals / paths
            return ev.run_body(fn.body, env)
        finally:
            self.depth -= 1

    def run(self, key, recv, args, noself=False):
        ev = self.evaluator()
        return self.call(ev, key, recv, args, noself)


def resolve(c, L):
    """reference semantics of a cursor against a text of length L: absolute position or None"""
    if c.name == "BeginAligned":
        return c.args[0]
    x = int(c.args[0])
    if x > 0:
        return None  # a positive end-aligned cursor is malformed
    if -x > L:
        return None
    return L + x
