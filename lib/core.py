"""Check framework: findings, known-finding subtraction by exact key, evidence files,
VIOLATION / KNOWN-FINDING lines.  Property modules live in lib/props/cXX.py and expose
`run(ctx)`; they add rule results to the context."""
import json
import os
import sys
import time

VERIF = os.path.dirname(os.path.dirname(os.path.abspath(__file__)))
EVIDENCE = os.path.join(VERIF, "evidence")
REPLAY = os.path.join(EVIDENCE, "replay")
KNOWN = os.path.join(VERIF, "known_findings.json")


class AnchorMissing(Exception):
    """an anchor function/type/field the rule needs could not be found: fail closed"""


class Finding:
    def __init__(self, rule, key, msg, file=None, line=None, detail=None):
        self.rule = rule
        self.key = key  # no line numbers, no local names
        self.msg = msg
        self.file = file
        self.line = line
        self.detail = detail or {}

    def full_key(self):
        return "%s:%s" % (self.rule, self.key)

    def to_json(self):
        return {"rule": self.rule, "key": self.full_key(), "msg": self.msg, "file": self.file,
                "line": self.line, "detail": self.detail}


class Rule:
    """bookkeeping for one rule: what was analysed, floors, unknowns"""

    def __init__(self, rid, text):
        self.id = rid
        self.text = text
        self.instances = 0  # rule instances evaluated (call sites, arms, fields, obligations)
        self.unknown = 0
        self.floor = None
        self.samples = []
        self.notes = []
        self.obligations = 0
        self.discharged = 0
        self.seen = set()

    def sample(self, s):
        if len(self.samples) < 6:
            self.samples.append(s)

    def hit(self, key, sample=None):
        """count one evaluated rule instance (distinct by key)"""
        self.instances += 1
        self.seen.add(str(key))
        if sample is not None:
            self.sample(sample)
        elif len(self.samples) < 6:
            self.samples.append(str(key))


class Ctx:
    def __init__(self, pid, tier, facts, seed=0):
        self.pid = pid
        self.tier = tier
        self.facts = facts
        self.seed = seed
        self.findings = []
        self.rules = {}
        self.not_decided = []
        self.assumptions = []
        self.functions_analysed = set()
        self.level = "other"
        self.extra = {}
        self.only_rule = None  # for --replay

    # -- rules
    def rule(self, rid, text):
        r = self.rules.get(rid)
        if r is None:
            r = Rule(rid, text)
            self.rules[rid] = r
        return r

    def report(self, rule, key, msg, file=None, line=None, detail=None):
        rid = rule.id if isinstance(rule, Rule) else rule
        f = Finding(rid, key, msg, file, line, detail)
        # one finding per key
        for g in self.findings:
            if g.full_key() == f.full_key():
                return g
        self.findings.append(f)
        return f

    def anchor_missing(self, rule, what):
        rid = rule.id if isinstance(rule, Rule) else rule
        self.report(rid, "anchor-missing:" + what,
                    "anchor not found: %s (the rule cannot be evaluated; failing closed)" % what,
                    detail={"kind": "anchor-missing"})

    def floor(self, rule, count, floor, what):
        """fail closed if a rule matched fewer instances than confirmed by hand"""
        rule.floor = floor
        if count < floor:
            self.report(rule.id, "floor:" + what,
                        "rule matched %d %s, fewer than the %d confirmed by hand on the pinned tree "
                        "(vacuous pass refused)" % (count, what, floor),
                        detail={"kind": "anchor-missing", "count": count, "floor": floor})


def load_known():
    try:
        with open(KNOWN) as fh:
            k = json.load(fh)
    except OSError:
        k = {"findings": [], "fixed": []}
    return k


def finish(ctx, t0):
    """subtract known findings by exact key, print lines, write evidence; returns exit code"""
    known = load_known()
    kmap = {}
    for k in known.get("findings", []):
        if k.get("property") == ctx.pid:
            kmap[k["key"]] = k
    new, still_known = [], []
    for f in ctx.findings:
        if ctx.only_rule and f.full_key() != ctx.only_rule:
            continue
        if f.full_key() in kmap:
            still_known.append(f)
        else:
            new.append(f)
    os.makedirs(REPLAY, exist_ok=True)
    for f in still_known:
        print("KNOWN-FINDING: property=%s %s -- %s" % (ctx.pid, f.full_key(), kmap[f.full_key()].get("what", f.msg)))
    rc = 0
    for i, f in enumerate(new):
        rc = 1
        safe = "".join(c if c.isalnum() or c in "._-" else "_" for c in f.full_key())[:120]
        rp = os.path.join(REPLAY, "%s-%s.json" % (ctx.pid, safe))
        with open(rp, "w") as fh:
            json.dump({"property": ctx.pid, "finding": f.to_json()}, fh, indent=1)
        loc = ("%s:%s" % (f.file, f.line)) if f.file else "-"
        print("VIOLATION property=%s replay=%s rule=%s key=%s at=%s :: %s" % (ctx.pid, rp, f.rule, f.full_key(), loc, f.msg))
    absent = [k for k in kmap if k not in {f.full_key() for f in ctx.findings}]
    if not ctx.only_rule and not os.environ.get("STAM_VERIF_NOEVIDENCE"):
        write_evidence(ctx, t0, new, still_known, absent)
    if rc == 0 and not ctx.only_rule:
        print("OK property=%s tier=%s rules=%d instances=%d known=%d wall=%.1fs" % (
            ctx.pid, ctx.tier, len(ctx.rules), sum(r.instances for r in ctx.rules.values()),
            len(still_known), time.time() - t0))
    return rc


def write_evidence(ctx, t0, new, still_known, absent):
    os.makedirs(EVIDENCE, exist_ok=True)
    rules = []
    samples = []
    instances = 0
    obligations = discharged = 0
    for r in ctx.rules.values():
        rules.append({"rule": r.id, "text": r.text, "instances": r.instances, "unknown": r.unknown,
                      "floor": r.floor, "notes": r.notes,
                      "obligations": r.obligations, "discharged": r.discharged})
        instances += r.instances
        obligations += r.obligations
        discharged += r.discharged
        for s in r.samples:
            samples.append({"rule": r.id, "instance": s})
    if not samples:
        samples = [{"note": "no rule instance sampled"}]
    cov = {
        "explanation": ("static analysis of /repo's current source (syn AST + rustc MIR facts); "
                        "rules evaluated: " + "; ".join("%s (%d instances)" % (r.id, r.instances) for r in ctx.rules.values())),
        "rules": rules,
        "functions_analysed": len(ctx.functions_analysed),
        "rule_instances": instances,
        "samples": samples[:40],
        "not_decided": ctx.not_decided,
        "known_findings_still_present": [f.full_key() for f in still_known],
        "known_findings_absent": absent,
        "new_violations": [f.to_json() for f in new],
        "evaluations": max(instances, 1),
        "distinct_nontrivial": len(set().union(*[{r.id + "|" + k for k in r.seen} for r in ctx.rules.values()])) if ctx.rules else 0,
        "rule": "one evaluation = one rule instance (call site, match arm, field, path or proof obligation) found in the current source; distinct = distinct sampled instances",
        "exhaustive": bool(ctx.extra.get("exhaustive", False)),
        "extractor_timing_s": {k: round(v, 2) for k, v in ctx.facts.timing.items()},
    }
    if ctx.level == "proof":
        cov["obligations"] = obligations
        cov["discharged"] = discharged
        cov["checker_cmd"] = "bin/check %s --tier %s" % (ctx.pid, ctx.tier)
        cov["trusted_base"] = ctx.extra.get("trusted_base", [])
    for k, v in ctx.extra.items():
        if k not in cov:
            cov[k] = v
    ev = {
        "property_id": ctx.pid,
        "tier": ctx.tier,
        "seed": ctx.seed,
        "level": ctx.level,
        "coverage": cov,
        "assumptions": ctx.assumptions,
        "wall_s": round(time.time() - t0, 2),
        "violations": len(new),
    }
    p = os.path.join(EVIDENCE, "%s.json" % ctx.pid)
    tmp = p + ".tmp%d" % os.getpid()
    with open(tmp, "w") as fh:
        json.dump(ev, fh, indent=1)
    os.replace(tmp, p)
