"""setup_cmd: build both extractors and warm the dependency artefacts (offline)."""
import os, sys
sys.path.insert(0, os.path.dirname(os.path.abspath(__file__)))
import facts
facts.build_engines()
f = facts.Facts()
f.syn()
f.mir()
print("setup ok", f.timing)
