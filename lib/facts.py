"""Fact extraction: builds the two extractors if needed, runs them on /repo's *current*
working tree and caches the result keyed by a hash of the inputs (a function of the
tree only; a miss recomputes).  Nothing here decides a property."""
import fcntl
import hashlib
import json
import os
import shutil
import subprocess
import sys
import time
import uuid

VERIF = os.path.dirname(os.path.dirname(os.path.abspath(__file__)))
REPO = os.environ.get("STAM_REPO", "/repo")
CACHE = os.environ.get("STAM_VERIF_CACHE", os.path.join(VERIF, ".cache"))
SYN_DIR = os.path.join(VERIF, "engines", "stamfacts-syn")
MIR_DIR = os.path.join(VERIF, "engines", "stamfacts-mir")
SYN_BIN = os.path.join(SYN_DIR, "target", "release", "stamfacts-syn")
MIR_BIN = os.path.join(MIR_DIR, "target", "release", "stamfacts-mir")

OFFLINE_ENV = {"CARGO_NET_OFFLINE": "true"}


def log(*a):
    print("[facts]", *a, file=sys.stderr, flush=True)


class Lock:
    def __init__(self, name):
        os.makedirs(CACHE, exist_ok=True)
        self.path = os.path.join(CACHE, name + ".lock")

    def __enter__(self):
        self.f = open(self.path, "w")
        fcntl.flock(self.f, fcntl.LOCK_EX)
        return self

    def __exit__(self, *a):
        fcntl.flock(self.f, fcntl.LOCK_UN)
        self.f.close()


def _run(cmd, cwd, env=None, timeout=1800):
    e = dict(os.environ)
    e.update(OFFLINE_ENV)
    if env:
        e.update(env)
    return subprocess.run(cmd, cwd=cwd, env=e, stdout=subprocess.PIPE, stderr=subprocess.STDOUT,
                          text=True, timeout=timeout)


def _src_mtime(d):
    m = 0
    for root, _, files in os.walk(os.path.join(d, "src")):
        for f in files:
            m = max(m, os.path.getmtime(os.path.join(root, f)))
    for f in ("Cargo.toml",):
        m = max(m, os.path.getmtime(os.path.join(d, f)))
    return m


def build_engines(force=False):
    """cargo build --release --offline for both extractors (idempotent)."""
    with Lock("build"):
        for d, b, extra in ((SYN_DIR, SYN_BIN, []), (MIR_DIR, MIR_BIN, [])):
            if not force and os.path.exists(b) and os.path.getmtime(b) >= _src_mtime(d):
                continue
            log("building", os.path.basename(d))
            r = _run(["cargo", "build", "--release", "--offline"] + extra, cwd=d)
            if r.returncode != 0 or not os.path.exists(b):
                sys.stderr.write(r.stdout)
                raise SystemExit("FATAL: cannot build extractor %s" % d)


def nightly_sysroot():
    r = subprocess.run(["rustc", "+nightly", "--print", "sysroot"], stdout=subprocess.PIPE, text=True)
    return r.stdout.strip()


def tree_hash(repo=None, features=None):
    repo = repo or REPO
    h = hashlib.sha256()
    paths = []
    for root, dirs, files in os.walk(os.path.join(repo, "src")):
        dirs.sort()
        for f in sorted(files):
            if f.endswith(".rs"):
                paths.append(os.path.join(root, f))
    for f in ("Cargo.toml", "Cargo.lock"):
        paths.append(os.path.join(repo, f))
    for p in paths:
        h.update(os.path.relpath(p, repo).encode())
        h.update(b"\0")
        try:
            with open(p, "rb") as fh:
                h.update(fh.read())
        except OSError:
            h.update(b"<missing>")
        h.update(b"\0")
    for b in (SYN_BIN, MIR_BIN):
        try:
            st = os.stat(b)
            h.update(("%s:%d:%d" % (b, st.st_size, int(st.st_mtime))).encode())
        except OSError:
            pass
    h.update(repr(features).encode())
    return h.hexdigest()[:24]


def _prune(keep):
    d = os.path.join(CACHE, "facts")
    try:
        ents = sorted((os.path.getmtime(os.path.join(d, e)), e) for e in os.listdir(d))
    except OSError:
        return
    for _, e in ents[:-4]:
        if e != keep:
            shutil.rmtree(os.path.join(d, e), ignore_errors=True)


def _target_dir(tag):
    # dependency artefacts are shared between runs; the stam fingerprint is deleted
    # before every run so that cargo must re-invoke the wrapper.
    return os.path.join(CACHE, "target-" + tag)


def extract_syn(repo, out):
    r = _run([SYN_BIN, os.path.join(repo, "src", "lib.rs"), out], cwd=repo)
    if r.returncode != 0 or not os.path.exists(out):
        sys.stderr.write(r.stdout)
        raise SystemExit("FATAL: stamfacts-syn failed")


def extract_mir(repo, out, features=None, tag="default", cfg_test=False):
    """features: None (crate defaults) or list (implies --no-default-features)."""
    tdir = _target_dir(tag)
    os.makedirs(tdir, exist_ok=True)
    # force cargo to re-run the wrapper on stam
    fp = os.path.join(tdir, "debug", ".fingerprint")
    if os.path.isdir(fp):
        for e in os.listdir(fp):
            if e.startswith("stam-"):
                shutil.rmtree(os.path.join(fp, e), ignore_errors=True)
    nonce = uuid.uuid4().hex
    env = {
        "LD_LIBRARY_PATH": os.path.join(nightly_sysroot(), "lib"),
        "RUSTFLAGS": "-Zmir-opt-level=0 -Awarnings",
        "RUSTC_WORKSPACE_WRAPPER": MIR_BIN,
        "CARGO_TARGET_DIR": tdir,
        "STAMFACTS_OUT": out,
        "STAMFACTS_NONCE": nonce,
        "CARGO_INCREMENTAL": "0",
    }
    cmd = ["cargo", "+nightly", "check", "--offline", "--lib"]
    if features is not None:
        cmd += ["--no-default-features"]
        if features:
            cmd += ["--features", ",".join(features)]
    if os.path.exists(out):
        os.unlink(out)
    t0 = time.time()
    r = _run(cmd, cwd=repo, env=env)
    if r.returncode != 0:
        sys.stderr.write(r.stdout[-6000:])
        raise SystemExit("FATAL: cargo check with stamfacts-mir failed (does /repo compile?)")
    if not os.path.exists(out):
        sys.stderr.write(r.stdout[-3000:])
        raise SystemExit("FATAL: stamfacts-mir produced no fact file (wrapper not invoked)")
    with open(out, "rb") as fh:
        head = fh.read(200).decode("utf8", "replace")
    if nonce not in head:
        raise SystemExit("FATAL: stale MIR fact file (nonce mismatch)")
    log("mir extraction [%s] %.1fs" % (tag, time.time() - t0))


class Facts:
    """Lazy access to the fact files for the current tree."""

    def __init__(self, repo=None):
        self.repo = repo or REPO
        self._syn = None
        self._mir = {}
        self.timing = {}

    def _dir(self):
        key = tree_hash(self.repo)
        d = os.path.join(CACHE, "facts", key)
        os.makedirs(d, exist_ok=True)
        return key, d

    def syn(self):
        if self._syn is None:
            build_engines()
            t0 = time.time()
            with Lock("extract"):
                key, d = self._dir()
                p = os.path.join(d, "syn.json")
                if not os.path.exists(p):
                    tmp = p + ".tmp%d" % os.getpid()
                    extract_syn(self.repo, tmp)
                    os.replace(tmp, p)
                    _prune(key)
                os.utime(d)
            with open(p) as fh:
                self._syn = json.load(fh)
            if self._syn.get("errors"):
                raise SystemExit("FATAL: syn could not parse: %r" % self._syn["errors"])
            self.timing["syn"] = time.time() - t0
        return self._syn

    def mir(self, features=None):
        tag = "default" if features is None else ("nf-" + "-".join(features) if features else "nf")
        if tag not in self._mir:
            build_engines()
            t0 = time.time()
            with Lock("extract"):
                key, d = self._dir()
                p = os.path.join(d, "mir-%s.json" % tag)
                if not os.path.exists(p):
                    tmp = p + ".tmp%d" % os.getpid()
                    extract_mir(self.repo, tmp, features=features, tag=tag)
                    os.replace(tmp, p)
                    _prune(key)
                os.utime(d)
            with open(p) as fh:
                self._mir[tag] = json.load(fh)
            self.timing["mir-" + tag] = time.time() - t0
        return self._mir[tag]


if __name__ == "__main__":
    f = Facts()
    s = f.syn()
    m = f.mir()
    print("syn files", len(s["files"]), "mir bodies", len(m["bodies"]), f.timing)
