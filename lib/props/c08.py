"""C08 query results equal the meaning of their constraints.

LIMIT  LimitIter::next, evaluated from its syntax tree on every sequence length 0..6 and every
       (begin, end) in [-7, 7]^2, yields exactly the slice [begin, end) of the unlimited results
       (negative = relative to the end, end 0 = until the end)
SET    Handles::union / intersection / contains / add, evaluated from their syntax trees on all
       pairs of subsets of a 5-element universe (sorted fast paths and unsorted paths): union
       has every element of both once, intersection exactly the common ones, order kept sorted
PAIR   for every result type and constraint, the index-driven source (first constraint) and the
       filter (later constraints) denote the same relation: the source navigates from the
       constraint's argument to the results with N, the filter keeps a candidate when the
       argument is among the candidate's inverse(N)"""
import itertools
import re
from synq import Syn, walk, find, unparse, strip, pat_names
import formula
from formula import Evaluator, Unknown, Panic, StructVal, EnumVal, SInt, some, is_some, ok, err
from props.c10 import closure_call


def run(ctx):
    syn = Syn(ctx.facts.syn())
    ctx.not_decided += ["that each navigation method (annotations(), data(), resources(), ...) returns what its name says (reverse indices: C01; text relations: C06)",
                        "sub-query evaluation order and OPTIONAL sub-queries (QueryIter::next_state / init_all_states)",
                        "agreement of the STAMQL parser with the programmatic builder (C09 decides parser totality only)",
                        "ADD / DELETE queries versus direct calls"]
    limit_rule(ctx, syn)
    set_rule(ctx, syn)
    pair_rule(ctx, syn)
    arms_rule(ctx, syn)
    ident_rule(ctx, syn)
    add_rule(ctx, syn)
    nocase_rule(ctx)
    sortkey_rule(ctx)
    from props.c07 import window_rule
    window_rule(ctx, syn, rid="C08.WINDOW")   # a TEXT constraint is answered by this search iterator: what it skips, the query misses


# ====================================================================== LIMIT
def expected_slice(n, b, e):
    start = max(n + b, 0) if b < 0 else min(b, n)
    stop = n if e == 0 else (max(n + e, 0) if e < 0 else min(e, n))
    return list(range(start, stop)) if start < stop else []


def limit_rule(ctx, syn):
    r = ctx.rule("C08.LIMIT", "LimitIter yields exactly the slice [begin, end) of the unlimited results for every sign combination")
    fl = [f for f in syn.fns if f.name == "next" and f.file == "src/api.rs" and (f.self_ty or "").startswith("LimitIter")]
    mk = [f for f in syn.fns if f.name == "limit" and f.file == "src/api.rs" and f.body is not None]
    if len(fl) != 1 or len(mk) != 1:
        ctx.anchor_missing(r, "impl Iterator for LimitIter::next / LimitIterator::limit")
        return
    f = fl[0]
    ctx.functions_analysed.add(f.qual)
    ctx.functions_analysed.add(mk[0].qual)
    # initial state from the constructor's struct literal
    lit = [n for n in walk(mk[0].body) if n.get("k") == "structlit" and n["path"][-1] == "LimitIter"]
    if len(lit) != 1:
        ctx.anchor_missing(r, "LimitIter { .. } literal in LimitIterator::limit")
        return
    hooks = {}
    hooks["next"] = lambda ev, recv, args, node, env: (inner_next(recv) if isinstance(recv, StructVal) and recv.tyname == "Inner" else NotImplemented)
    hooks["push_back"] = lambda ev, recv, args, node, env: (recv.append(args[0]) or ()) if isinstance(recv, list) else NotImplemented
    hooks["pop_front"] = lambda ev, recv, args, node, env: ((some(recv.pop(0)) if recv else None) if isinstance(recv, list) else NotImplemented)
    hooks["pop_back"] = lambda ev, recv, args, node, env: ((some(recv.pop()) if recv else None) if isinstance(recv, list) else NotImplemented)
    hooks["call:VecDeque::new"] = lambda ev, recv, args, node, env: []

    def inner_next(s):
        if s["pos"] < len(s["items"]):
            s["pos"] += 1
            return some(s["items"][s["pos"] - 1])
        return None
    reported = set()
    n_runs = 0
    for n in range(0, 7):
        for b in range(-7, 8):
            for e in range(-7, 8):
                ev = Evaluator(hooks=hooks)
                try:
                    st = ev.eval(lit[0], {"begin": SInt(b), "end": SInt(e), "self": StructVal("Inner", {"items": list(range(n)), "pos": 0})})
                    for k in ("cursor", "begin", "end"):
                        if isinstance(st.get(k), int) and not isinstance(st.get(k), bool):
                            st[k] = SInt(st[k])
                    out = []
                    for _ in range(2 * n + 6):
                        ev.steps = 0
                        v = ev.run_body(f.body, {"self": st})
                        if v is None:
                            break
                        if not is_some(v):
                            raise Unknown("next returned %r" % (v,))
                        out.append(v[1])
                    else:
                        raise Unknown("iterator does not terminate")
                except (Unknown, Panic) as ex:
                    if "unevaluated" not in reported:
                        reported.add("unevaluated")
                        ctx.report(r, "unevaluated", "LimitIter::next could not be evaluated (%s) for len=%d begin=%d end=%d: the slice law is not established" % (ex, n, b, e), f.file, f.line)
                    continue
                n_runs += 1
                want = expected_slice(n, b, e)
                sign = lambda x: "neg" if x < 0 else ("zero" if x == 0 else "pos")
                key = "begin-%s,end-%s" % (sign(b), sign(e))
                r.obligations += 1
                if out == want:
                    r.discharged += 1
                elif key not in reported:
                    reported.add(key)
                    ctx.report(r, key, "LIMIT %d %d over %d results yields %s; the corresponding slice of the unlimited results is %s" % (b, e, n, out, want), f.file, f.line, {"len": n, "begin": b, "end": e, "got": out, "want": want})
                if n == 5 and (b, e) in ((1, -1), (-3, -1), (-2, 0), (2, 4)):
                    r.hit("sample:%d:%d" % (b, e), sample={"results": n, "begin": b, "end": e, "yields": out})
    r.hit("grid", sample={"lengths": "0..6", "begin": "-7..7", "end": "-7..7", "runs": n_runs})
    ctx.floor(r, n_runs, 1575, "LimitIter runs")


# ====================================================================== SET
def set_rule(ctx, syn):
    r = ctx.rule("C08.SET", "Handles::union has every element of both operands exactly once, intersection exactly the common elements; sortedness is preserved")
    hf = {}
    for f in syn.fns:
        if f.file == "src/api.rs" and (f.self_ty or "").startswith("Handles<") and f.trait is None and f.body is not None:
            hf.setdefault(f.name, f)
    for need in ("union", "intersection", "contains", "add", "add_unchecked", "contains_subset", "len", "iter"):
        if need not in hf:
            ctx.anchor_missing(r, "fn Handles::" + need)
            return
    hooks = {}

    def method(name):
        def h(ev, recv, args, node, env):
            if isinstance(recv, StructVal) and recv.tyname == "Handles" and name in hf:
                fn = hf[name]
                params = [p["pat"].get("name") for p in fn.sig["inputs"]]
                e2 = {"self": recv}
                for p, a in zip(params, args):
                    e2[p] = a
                sub = Evaluator(hooks=hooks)
                return sub.run_body(fn.body, e2)
            return NotImplemented
        return h
    for name in ("contains", "add", "add_unchecked", "contains_subset"):
        hooks[name] = method(name)

    def h_len(ev, recv, args, node, env):
        if isinstance(recv, StructVal) and recv.tyname == "Handles":
            return len(recv["array"])
        return NotImplemented
    hooks["len"] = h_len

    def h_iter(ev, recv, args, node, env):
        if isinstance(recv, StructVal) and recv.tyname == "Handles":
            return list(recv["array"])
        return NotImplemented
    hooks["iter"] = h_iter
    hooks["is_empty"] = lambda ev, recv, args, node, env: (len(recv["array"]) == 0) if isinstance(recv, StructVal) and recv.tyname == "Handles" else NotImplemented

    def binary_search(ev, recv, args, node, env):
        if not isinstance(recv, list):
            return NotImplemented
        x = args[0]
        lo, hi = 0, len(recv)
        while lo < hi:
            mid = (lo + hi) // 2
            if recv[mid] == x:
                return ok(mid)
            if recv[mid] < x:
                lo = mid + 1
            else:
                hi = mid
        return err(lo)
    hooks["binary_search"] = binary_search
    hooks["to_mut"] = lambda ev, recv, args, node, env: recv
    hooks["sort_unstable"] = lambda ev, recv, args, node, env: (recv.sort() or ()) if isinstance(recv, list) else NotImplemented
    hooks["sort"] = hooks["sort_unstable"]
    hooks["clear"] = lambda ev, recv, args, node, env: (recv.clear() or ()) if isinstance(recv, list) else NotImplemented
    hooks["push"] = lambda ev, recv, args, node, env: (recv.append(args[0]) or ()) if isinstance(recv, list) else NotImplemented
    hooks["insert"] = lambda ev, recv, args, node, env: (recv.insert(args[0], args[1]) or ()) if isinstance(recv, list) else NotImplemented
    hooks["clone"] = lambda ev, recv, args, node, env: list(recv) if isinstance(recv, list) else recv
    hooks["next"] = lambda ev, recv, args, node, env: (some(recv[0]) if recv else None) if isinstance(recv, list) else NotImplemented
    hooks["zip"] = lambda ev, recv, args, node, env: [tuple(x) for x in zip(recv, args[0])] if isinstance(recv, list) else NotImplemented

    def h_all(ev, recv, args, node, env):
        if isinstance(recv, list) and args and isinstance(args[0], tuple) and args[0][0] == "closure":
            return all(closure_call(ev, args[0], [x], env) for x in recv)
        return NotImplemented
    hooks["all"] = h_all

    def h_contains_list(ev, recv, args, node, env):
        if isinstance(recv, list):
            return args[0] in recv
        return method("contains")(ev, recv, args, node, env)
    hooks["contains"] = h_contains_list

    def retain(ev, recv, args, node, env):
        if isinstance(recv, list) and args and isinstance(args[0], tuple) and args[0][0] == "closure":
            keep = []
            for x in list(recv):
                if closure_call(ev, args[0], [x], env):
                    keep.append(x)
            recv[:] = keep
            return ()
        return NotImplemented
    hooks["retain"] = retain

    universe = list(range(5))
    subsets = [[x for x in universe if m & (1 << x)] for m in range(32)]
    unsorted = [[3, 1], [4, 0, 2], [2, 4, 1], [1, 0, 3, 2]]  # duplicate-free: Handles never holds an item twice
    reported = set()
    nruns = 0
    for opname in ("union", "intersection"):
        fn = hf[opname]
        ctx.functions_analysed.add(fn.qual)
        cases = [(a, True, b, True) for a in subsets for b in subsets]
        cases += [(a, False, b, sb) for a in unsorted + subsets[:8] for b in subsets[::3] + unsorted for sb in ((True, False) if b == sorted(set(b)) else (False,))]
        cases += [(a, True, b, False) for a in subsets[::3] for b in unsorted]
        # the len()==0 / len()==1 fast paths of the operand, against every kind of receiver (a UNION's accumulator is unsorted)
        small = [[]] + [[x] for x in universe]
        cases += [(a, sa, b, sb) for a in unsorted + subsets for sa in ((True, False) if a == sorted(a) else (False,)) for b in small for sb in (True, False)]
        cases += [(b, sb, a, sa) for a in unsorted + subsets[::2] for sa in ((True, False) if a == sorted(a) else (False,)) for b in small for sb in (True, False)]
        for a, sa, b, sb in cases:
            A = StructVal("Handles", {"array": list(a), "sorted": sa})
            B = StructVal("Handles", {"array": list(b), "sorted": sb})
            ev = Evaluator(hooks=hooks)
            try:
                ev.run_body(fn.body, {"self": A, "other": B})
            except (Unknown, Panic) as ex:
                if "unevaluated:" + opname not in reported:
                    reported.add("unevaluated:" + opname)
                    ctx.report(r, "unevaluated:" + opname, "Handles::%s could not be evaluated (%s) on %s / %s: its set law is not established" % (opname, ex, a, b), fn.file, fn.line)
                continue
            nruns += 1
            got = A["array"]
            want = (set(a) | set(b)) if opname == "union" else (set(a) & set(b))
            kind = "sorted" if sa and sb else "unsorted"
            r.obligations += 1
            okay = set(got) == want
            dup_in = len(set(a)) != len(a)
            if opname == "union" and not dup_in and len(got) != len(set(got)):
                okay = False
            if opname == "intersection" and not dup_in and len(got) != len(set(got)):
                okay = False
            if sa and got != sorted(got):
                okay = False
            if okay:
                r.discharged += 1
            else:
                key = "%s:%s" % (opname, kind)
                if key not in reported:
                    reported.add(key)
                    ctx.report(r, key, "Handles::%s of %s (sorted=%s) with %s (sorted=%s) gives %s; expected the elements %s%s" % (opname, a, sa, b, sb, got, sorted(want), ", each once" if opname == "union" else ""), fn.file, fn.line, {"self": a, "other": b, "got": got})
        r.hit(opname, sample={"operation": opname, "cases": len(cases), "example": {"self": [1, 3], "other": [0, 1, 4]}})
    ctx.floor(r, nruns, 2200, "union/intersection evaluations")

    # ---------------- FLAG: the flag that licenses binary search is computed truthfully
    rf = ctx.rule("C08.FLAG", "Handles::from_iter reports sorted=true only for a sequence that is in handle order (contains() and the set operations binary-search under that flag), and keeps the items as given")
    fi = hf.get("from_iter")
    if fi is None:
        ctx.anchor_missing(rf, "fn Handles::from_iter")
        return
    ctx.functions_analysed.add(fi.qual)
    h2 = dict(hooks)
    h2["call:Vec::new"] = lambda ev, recv, args, node, env: []
    h2["call:Cow::Owned"] = lambda ev, recv, args, node, env: args[0]
    h2["first"] = lambda ev, recv, args, node, env: (some(recv[0]) if recv else None) if isinstance(recv, list) else NotImplemented
    h2["last"] = lambda ev, recv, args, node, env: (some(recv[-1]) if recv else None) if isinstance(recv, list) else NotImplemented
    nf = 0
    bad = False
    try:
        for n_ in range(0, 5):
            for seq in itertools.product(range(4), repeat=n_):
                seq = list(seq)
                res = Evaluator(hooks=h2).run_body(fi.body, {"iter": list(seq), "store": "store"})
                if not isinstance(res, StructVal):
                    raise Unknown("from_iter returned %r" % (res,))
                nf += 1
                flag, arr = res["sorted"], res["array"]
                if arr != seq and not bad:
                    bad = True
                    ctx.report(rf, "items", "Handles::from_iter(%s) holds %s" % (seq, arr), fi.file, fi.line)
                if flag is True and seq != sorted(seq) and not bad:
                    bad = True
                    ctx.report(rf, "sorted-flag", "Handles::from_iter(%s) reports sorted=true although the sequence is not in handle order: contains() binary-searches and misses members, filters built from the collection silently drop matches" % seq, fi.file, fi.line, {"sequence": seq})
        rf.hit("from_iter", sample={"sequences": nf, "law": "sorted flag => sequence nondecreasing; array == input"})
    except (Unknown, Panic) as ex:
        ctx.report(rf, "unevaluated", "Handles::from_iter could not be evaluated (%s): the truth of its sorted flag is not established" % ex, fi.file, fi.line)
    rf.obligations = rf.discharged = nf
    ctx.floor(rf, nf, 341, "sequences evaluated")


# ====================================================================== PAIR
import qpair

SKIP_VARIANTS = {"Limit": "decided by C08.LIMIT", "Union": "both sides build the union of init_state_* of the branches (C08.SET decides the union)",
                 "Text": "text equality of joined text versus text-selection lookup: run-time text", "Regex": "run-time text"}


def outer_arms(fn):
    for m in find(fn.body, "match"):
        if unparse(strip(m["e"])) == "constraint":
            return m["arms"]
    return None


def is_error_arm(arm):
    src = unparse(arm["body"])
    return src.startswith("{return Err(") or src.startswith("return Err(") or "todo!(" in src[:30] or "unimplemented!(" in src[:30]


def bind_env(model, binds, shape):
    env = {}
    vname = shape[0]
    for n, v in binds.items():
        if isinstance(v, tuple) and v and v[0] == "shape":
            continue
        if n == "handles" and vname in qpair.HANDLES_KIND:
            env[n] = ("handles", qpair.HANDLES_KIND[vname])
        elif n == "operator":
            env[n] = "OP"
        elif isinstance(v, str) and v.startswith("$"):
            env[n] = "ARG"
        else:
            env[n] = v
    return env


def pair_rule(ctx, syn):
    r = ctx.rule("C08.PAIR", "for every result type and constraint shape served both as first and as later constraint, the source and the filter denote the same relation")
    Q = "src/api/query.rs"
    model = qpair.Model(syn)
    if "Constraint" not in syn.enums or "Filter" not in syn.enums:
        ctx.anchor_missing(r, "enum Constraint / enum Filter")
        return
    shapes = model.shapes()
    asym = []
    decided = 0
    undecided = {}
    table = []
    for t, kind in qpair.RESULT_KIND.items():
        ini = [f for f in syn.fns if f.name == "init_state_" + t and f.file == Q]
        upd = [f for f in syn.fns if f.name == "update_state_" + t and f.file == Q]
        if len(ini) != 1 or len(upd) != 1:
            ctx.anchor_missing(r, "init_state_%s / update_state_%s" % (t, t))
            continue
        ctx.functions_analysed.add(ini[0].qual)
        ctx.functions_analysed.add(upd[0].qual)
        pa, sa = outer_arms(ini[0]), outer_arms(upd[0])
        if pa is None or sa is None:
            ctx.anchor_missing(r, "match constraint in init/update_state_" + t)
            continue
        for shape in shapes:
            vname = shape[0]
            if vname in SKIP_VARIANTS:
                continue
            label = "%s|%s(%s)" % (t, vname, ",".join(v for v in shape[2] if not v.startswith("$")))
            try:
                parm = sarm = None
                pb = sb = None
                for a in pa:
                    b = {}
                    if model.match(a["pat"], shape, b):
                        parm, pb = a, b
                        break
                for a in sa:
                    b = {}
                    if model.match(a["pat"], shape, b):
                        sarm, sb = a, b
                        break
            except qpair.Undecided as e:
                undecided[label] = "pattern: %s" % e
                continue
            p_ok = parm is not None and not is_error_arm(parm)
            s_ok = sarm is not None and not is_error_arm(sarm)
            if p_ok != s_ok:
                # accepted in one position, refused (error arm / catch-all) in the other: the query works or fails depending on where the constraint is written
                asym.append((label, "first-position-only" if p_ok else "later-position-only", (parm or sarm).get("l")))
            if not (p_ok and s_ok):
                continue
            try:
                P = model.body(parm["body"], bind_env(model, pb, shape))
                envs = bind_env(model, sb, shape)
                envs["iter"] = qpair.Den(kind, "x0", [])
                S = model.body(sarm["body"], envs)
            except qpair.Undecided as e:
                undecided[label] = str(e)
                r.unknown += 1
                continue
            if set(P) != set(S):
                undecided[label] = "case split differs: %s vs %s" % (sorted(P), sorted(S))
                r.unknown += 1
                continue
            for case in sorted(P):
                cp, cs = qpair.canonical(P[case]), qpair.canonical(S[case])
                key = label + (("|" + case) if case else "")
                decided += 1
                r.hit(key, sample={"pair": key, "source": qpair.fmt(cp), "filter": qpair.fmt(cs)} if decided % 7 == 1 else None)
                table.append((key, qpair.fmt(cp), qpair.fmt(cs), parm.get("l"), sarm.get("l")))
                if P[case].kind != kind:
                    ctx.report(r, key + "|kind", "as first constraint %s yields %s items for a %s query" % (key, P[case].kind, t.upper()), Q, parm.get("l"))
                elif cp != cs:
                    ctx.report(r, key, "the two implementations of the constraint disagree for %s: written first it selects { x | %s } (line %s), written later it keeps { x | %s } (line %s): the result depends on the order of the constraints" % (
                        key, qpair.fmt(cp), parm.get("l"), qpair.fmt(cs), sarm.get("l")), Q, sarm.get("l"), {"source": qpair.fmt(cp), "filter": qpair.fmt(cs)})
    ctx.floor(r, decided, 60, "constraint pairs decided")
    for label, side, line in sorted(set(asym)):
        r.hit("asym:" + label)
        ctx.report(r, "asymmetric:%s|%s" % (label, side), "the constraint %s is evaluated when it is written %s and refused (error arm) otherwise: whether the query works depends on the order of its constraints" % (label, "first" if side.startswith("first") else "after another constraint"), Q, line, {"kind": side})
    r.notes.append("pairs decided: %d; not decided: %d" % (decided, len(undecided)))
    # every pair is decidable on the reference tree: one that is not any more is reported (failing closed), it is not dropped
    for k_, v_ in sorted(undecided.items()):
        ctx.report(r, "undecided:" + k_, "the pair %s cannot be decided any more (%s): one of its two implementations has taken a form outside the navigation algebra, so their agreement is not established" % (k_, v_), Q, None, {"kind": "analysis-incomplete"})
    for k_, v_ in sorted(undecided.items())[:60]:
        r.notes.append("not decided: %s: %s" % (k_, v_))
    ctx.extra["pair_table"] = [{"pair": a, "source": b, "filter": c} for a, b, c, _, _ in table]
    ctx.extra["pair_undecided"] = undecided
    return table, undecided


# ====================================================================== ARMS
def arms_rule(ctx, syn):
    """every Filter a filter_* method of an iterator trait can build is interpreted by an arm of the
    corresponding Filtered*::test_filter (no fall-through to the catch-all unreachable!)"""
    r = ctx.rule("C08.ARMS", "every filter a filter_* method can build has an interpreting arm in the corresponding test_filter")
    model = qpair.Model(syn)
    DOM = {"SelectionQualifier": ["Normal", "Metadata"], "AnnotationDepth": ["Zero", "One", "Max"], "FilterMode": ["Any", "All"], "TextMode": ["Exact", "CaseInsensitive"]}
    n = 0
    for kind, file in sorted(qpair.KIND_FILE.items()):
        tfs = [f for f in syn.fns if f.file == file and f.name == "test_filter"]
        if len(tfs) != 1:
            ctx.anchor_missing(r, "test_filter in " + file)
            continue
        tf = tfs[0]
        ctx.functions_analysed.add(tf.qual)
        ms = [m for m in find(tf.body, "match")]
        arms = ms[0]["arms"] if ms else []
        fty = (tf.self_ty or "").split("<")[0]
        for fn in syn.fns:
            if fn.file != file or not fn.in_trait or not fn.name.startswith("filter_") or fn.body is None:
                continue
            lits = [x for x in walk(fn.body) if x.get("k") == "structlit" and x["path"][-1] == fty]
            for lit in lits:
                fe = [f_["e"] for f_ in lit["fields"] if f_["name"] == "filter"]
                if not fe:
                    continue
                fe = strip(fe[0])
                if fe.get("k") != "call" or unparse(fe["func"]).split("::")[0] != "Filter":
                    continue
                variant = fe["func"]["path"][-1]
                # parameters with a finite domain are expanded; everything else is opaque
                ptypes = dict((p["pat"].get("name"), re.sub(r"\s+", "", p["ty"]["s"])) for p in fn.sig["inputs"])
                choices = []
                for a in fe["args"]:
                    a0 = strip(a)
                    src = unparse(a0)
                    if a0.get("k") == "path" and len(a0["path"]) == 1 and ptypes.get(a0["path"][0]) in DOM:
                        choices.append(DOM[ptypes[a0["path"][0]]])
                    elif a0.get("k") == "path" and len(a0["path"]) >= 2 and a0["path"][-2] in DOM:
                        choices.append([a0["path"][-1]])
                    elif src.endswith("::default()"):
                        try:
                            choices.append([model.term(a0, {})])
                        except qpair.Undecided:
                            choices.append(["*"])
                    else:
                        choices.append(["*"])
                for combo in itertools.product(*choices):
                    n += 1
                    key = "%s::%s|Filter::%s(%s)" % (kind, fn.name, variant, ",".join(combo))
                    hit = None
                    for arm in arms:
                        if arm_matches(arm["pat"], variant, combo):
                            hit = arm
                            break
                    r.hit(key, sample={"method": "%s::%s" % (kind, fn.name), "builds": "Filter::%s(%s)" % (variant, ",".join(combo))} if n % 11 == 1 else None)
                    body = unparse(hit["body"]) if hit else ""
                    catch_all = hit is not None and re.sub(r"\s+", "", hit["pat"]["s"]) == "_"
                    if hit is None or catch_all:
                        ctx.report(r, key, "%s::%s builds Filter::%s(%s), which no arm of %s::test_filter interprets: the iterator panics in the catch-all unreachable!() as soon as it is polled" % (kind, fn.name, variant, ",".join(combo), fty), fn.file, fn.line)
                    elif body.lstrip("{").startswith("unreachable!(") or body.lstrip("{").startswith("todo!(") or body.lstrip("{").startswith("unimplemented!("):
                        ctx.report(r, key, "%s::%s builds Filter::%s(%s), whose arm in %s::test_filter is `%s`: the iterator panics as soon as it is polled" % (kind, fn.name, variant, ",".join(combo), fty, body[:60]), fn.file, fn.line)
    ctx.floor(r, n, 100, "filter constructions")


def arm_matches(pat, variant, combo):
    p = pat.get("p")
    if p == "ref":
        return arm_matches(pat["pat"], variant, combo)
    if p == "or":
        return any(arm_matches(c, variant, combo) for c in pat["cases"])
    if p == "wild":
        return True
    if p != "tuplestruct" or pat["path"][-1] != variant:
        return False
    elems = pat["elems"]
    if any(e.get("p") == "rest" for e in elems):
        return True
    if len(elems) != len(combo):
        return False
    for e, v in zip(elems, combo):
        ep = e.get("p")
        if ep in ("wild", "ident"):
            continue
        if ep == "path":
            if v == "*" or e["path"][-1] != v:
                return False
            continue
        return False
    return True


# ====================================================================== IDENT
def ident_rule(ctx, syn):
    """result items are identified by (the store that holds them, handle): keys and data of different
    datasets share handle values, and every BTreeSet / dedup of result items relies on Eq and Ord"""
    r = ctx.rule("C08.IDENT", "two result items are equal (Eq, Ord) exactly when they have the same handle in the same store")
    fns = {}
    for f in syn.fns:
        if f.file == "src/store.rs" and (f.self_ty or "").startswith("ResultItem<") and f.trait in ("PartialEq", "Ord", "PartialOrd") and f.body is not None:
            fns[(f.trait, f.name)] = f
    for need in (("PartialEq", "eq"), ("Ord", "cmp")):
        if need not in fns:
            ctx.anchor_missing(r, "impl %s for ResultItem::%s" % need)
            return
    hooks = {}
    hooks["handle"] = lambda ev, recv, args, node, env: recv["h"] if isinstance(recv, StructVal) and "h" in recv else NotImplemented
    hooks["store"] = lambda ev, recv, args, node, env: recv["store"] if isinstance(recv, StructVal) and "store" in recv else NotImplemented
    hooks["call:ptr::eq"] = lambda ev, recv, args, node, env: args[0] == args[1]

    def h_cmp(ev, recv, args, node, env):
        a, b = recv, args[0]
        if isinstance(a, StructVal) and a.tyname == "ResultItem":
            sub = Evaluator(hooks=hooks)
            return sub.run_body(fns[("Ord", "cmp")].body, {"self": a, "other": b})
        if isinstance(a, (int, str)) and isinstance(b, (int, str)) and type(a) == type(b):
            return EnumVal("Less") if a < b else (EnumVal("Greater") if a > b else EnumVal("Equal"))
        return NotImplemented
    hooks["cmp"] = h_cmp
    hooks["then"] = lambda ev, recv, args, node, env: (args[0] if recv == EnumVal("Equal") else recv) if isinstance(recv, EnumVal) else NotImplemented
    hooks["then_with"] = lambda ev, recv, args, node, env: (closure_call(ev, args[0], [], env) if recv == EnumVal("Equal") else recv) if isinstance(recv, EnumVal) else NotImplemented
    items = [StructVal("ResultItem", {"h": h, "store": st, "item": "i%s%s" % (st, h)}) for st in ("dataset-1", "dataset-2") for h in (0, 1)]
    for f in fns.values():
        ctx.functions_analysed.add(f.qual)
    try:
        for a in items:
            for b in items:
                same = a["h"] == b["h"] and a["store"] == b["store"]
                ev = Evaluator(hooks=hooks)
                eq = ev.run_body(fns[("PartialEq", "eq")].body, {"self": a, "other": b})
                ev = Evaluator(hooks=hooks)
                c = ev.run_body(fns[("Ord", "cmp")].body, {"self": a, "other": b})
                key = "%s#%s~%s#%s" % (a["store"], a["h"], b["store"], b["h"])
                r.hit(key, sample={"a": (a["store"], a["h"]), "b": (b["store"], b["h"]), "eq": eq, "cmp": repr(c)} if key.endswith("2#0") else None)
                if eq is not same:
                    ctx.report(r, "eq", "ResultItem::eq says %s for an item with handle %s in %s and an item with handle %s in %s: handles are only unique within one store, so sets of keys or data of several datasets %s" % (
                        eq, a["h"], a["store"], b["h"], b["store"], "lose items" if eq else "keep duplicates"), fns[("PartialEq", "eq")].file, fns[("PartialEq", "eq")].line)
                if (c == EnumVal("Equal")) is not same:
                    ctx.report(r, "cmp", "ResultItem::cmp says %r for an item with handle %s in %s and an item with handle %s in %s: a BTreeSet of such items %s" % (
                        c, a["h"], a["store"], b["h"], b["store"], "drops one of them" if c == EnumVal("Equal") else "keeps both copies of one item"), fns[("Ord", "cmp")].file, fns[("Ord", "cmp")].line)
    except (Unknown, Panic) as e:
        ctx.report(r, "unevaluated", "Eq / Ord of ResultItem could not be evaluated (%s): the identity of result items is not established" % e, "src/store.rs", None)
    ctx.floor(r, r.instances, 16, "pairs of result items")


# ====================================================================== ADD
def add_rule(ctx, syn):
    """ADD queries: `TARGET ?x OFFSET b e` on a TEXT result addresses text *relative to the selected text*.
    The offset may reach the selector builder only after `<selection>.textselection(offset)` has resolved it
    against that selection; passed on as is, it is read relative to the whole resource."""
    r = ctx.rule("C08.ADD", "in query_mut the OFFSET of a TARGET assignment on a text selection reaches SelectorBuilder::TextSelector only through <selection>.textselection(offset)")
    fl = [f for f in syn.fns if f.name == "query_mut" and f.file == "src/api/query.rs" and f.body is not None]
    if len(fl) != 1:
        ctx.anchor_missing(r, "fn AnnotationStore::query_mut")
        return
    f = fl[0]
    ctx.functions_analysed.add(f.qual)
    n = 0
    for m in find(f.body, "match"):
        for arm in m["arms"]:
            ps = re.sub(r"\s+", "", arm["pat"]["s"])
            mm = re.search(r"QueryResultItem::TextSelection\((\w+)\)", ps)
            if not mm:
                continue
            lets = {}
            for nd in walk(arm["body"]):
                if nd.get("k") == "let" and nd.get("init") is not None:
                    for nm in pat_names(nd["pat"]):
                        lets.setdefault(nm, []).append(nd["init"])
            for c in find(arm["body"], "call"):
                if unparse(c["func"]) != "SelectorBuilder::TextSelector" or len(c["args"]) != 2:
                    continue
                n += 1

                def raw_offset_use(e, depth=0, seen=None):
                    """does e use the assignment's `offset` other than as the argument of .textselection(..)?"""
                    seen = seen or set()
                    e = strip(e)
                    k = e.get("k")
                    if k == "mcall" and e["method"] == "textselection":
                        return raw_offset_use(e["recv"], depth, seen)
                    if k == "path" and len(e["path"]) == 1:
                        nm = e["path"][0]
                        if nm == "offset":
                            # a local re-binding `let offset = ...` inside the arm is followed, the assignment's own offset is raw
                            if nm in lets and depth < 6 and ("offset", depth) not in seen:
                                seen.add(("offset", depth))
                                return any(raw_offset_use(i, depth + 1, seen) for i in lets[nm])
                            return True
                        if nm in lets and depth < 6 and nm not in seen:
                            seen.add(nm)
                            return any(raw_offset_use(i, depth + 1, seen) for i in lets[nm])
                        return False
                    return any(raw_offset_use(ch, depth, seen) for ch in children_of(e))
                raw = raw_offset_use(c["args"][1])
                r.hit("TextSelector#%d" % n, sample={"offset_argument": unparse(c["args"][1])[:60], "uses_raw_offset": raw})
                if raw:
                    ctx.report(r, "raw-offset", "query_mut builds SelectorBuilder::TextSelector(.., %s) from the assignment's OFFSET without resolving it against the selected text (`.textselection(offset)`): the ADD query annotates text at that offset counted from the start of the resource, not from the start of the selection, unlike the equivalent direct annotate() call" % unparse(c["args"][1])[:50], f.file, c.get("l"))
    ctx.floor(r, n, 2, "TextSelector targets built from TEXT results in query_mut")


def children_of(e):
    from synq import children
    return list(children(e))


# ====================================================================== NOCASE
def nocase_rule(ctx):
    """filter_text_byref(text, case_sensitive=false, ..) compares the lower-cased text of each candidate with `text` as it
    is ("text MUST be a lower-cased &str").  The first-constraint implementation (find_text_nocase) lower-cases the
    needle itself, so a later-position use that hands the user's text on unchanged matches nothing as soon as it holds
    an upper-case letter: the result depends on where the constraint is written."""
    import mirq
    r = ctx.rule("C08.NOCASE", "every case-insensitive use of filter_text_byref passes a reference text that went through to_lowercase (the API compares lower-cased candidate text with the reference as it is)")
    prog = mirq.Program(ctx.facts.mir())
    n = 0
    for bid, b in sorted(prog.bodies.items()):
        if b.d.get("derived"):
            continue
        for bi, t in b.calls():
            d = mirq.callee_of(t)[0] or ""
            if not d.endswith("::filter_text_byref") or len(t.get("args", [])) < 3:
                continue
            n += 1
            cs = (t["args"][2].get("k") or {}).get("v") if "k" in t["args"][2] else None
            prov = sorted(b.provenance(t["args"][1]))
            r.hit("%s#%d" % (bid, n), sample={"in": bid, "case_sensitive": cs, "text_derives_from": prov[:5]})
            if cs == 1:
                continue
            if not any(x.endswith("to_lowercase") or x.endswith("to_ascii_lowercase") for x in prov):
                ctx.report(r, bid, "%s filters case-insensitively with filter_text_byref on a reference text that is not lower-cased (derives from %s): `TEXT AS NOCASE \"Hello\"` matches as first constraint and nothing as a later one" % (bid, prov[:3]), b.file, t.get("line"))
    r.notes.append("filter_text_byref call sites: %d" % n)


# ---------------------------------------------------------------------- SORTKEY
def sortkey_rule(ctx, rid="C08.SORTKEY"):
    """textual_order() makes results unique by sorting and then dropping *adjacent* equal items.  That only works if
    equal items end up next to each other, i.e. if the comparator looks at everything equality looks at.  Two
    ResultTextSelections are equal only in the same resource, so the comparator of their textual_order has to order by
    the resource as well (after the offsets): otherwise r1:0-5, r2:0-5, r1:0-5 stays as it is and SELECT TEXT returns
    r1:0-5 twice."""
    import mirq
    r = ctx.rule(rid, "the comparator that textual_order() of ResultTextSelection sorts with (before dedup) also orders by the resource, which equality of ResultTextSelection takes into account")
    prog = mirq.Program(ctx.facts.mir())
    outer = prog.find_bodies(r"^<I as api::textselection::SortTextualOrder<textselection::ResultTextSelection<'store>>>::textual_order$")
    clos = prog.find_bodies(r"^<I as api::textselection::SortTextualOrder<textselection::ResultTextSelection<'store>>>::textual_order(::\{closure#\d+\})+$")
    if len(outer) != 1 or not clos:
        ctx.anchor_missing(r, "SortTextualOrder<ResultTextSelection>::textual_order and its comparator")
        return
    b = outer[0]
    ctx.functions_analysed.add(b.id)
    dedups = [t for _, t in b.calls() if (mirq.callee_of(t)[0] or "").endswith("::dedup") or (mirq.callee_of(t)[0] or "").endswith("::dedup_by") or (mirq.callee_of(t)[0] or "").endswith("::dedup_by_key")]
    eq = prog.find_bodies(r"^<textselection::ResultTextSelection<'store> as std::cmp::PartialEq>::eq$")
    eq_looks_at_resource = bool(eq) and any(re.search(r"::(store|resource|rootstore)$", mirq.callee_of(t)[0] or "") for _, t in eq[0].calls())
    callees = sorted(set(mirq.callee_of(t)[0] or "?" for c in clos for _, t in c.calls()))
    # a helper the comparator delegates to counts as well (one level)
    deep = set(callees)
    for cal in callees:
        for hb in prog.find_bodies("^" + re.escape(cal) + "$"):
            deep |= set(mirq.callee_of(t)[0] or "?" for _, t in hb.calls())
    by_resource = any(re.search(r"::(resource|store)$", c_) for c_ in deep)
    r.hit("comparator", sample={"comparator_calls": [mirq.short_fn(c_) for c_ in callees], "dedup_after_sort": len(dedups), "equality_looks_at_resource": eq_looks_at_resource})
    if dedups and eq_looks_at_resource and not by_resource:
        ctx.report(r, "comparator-ignores-resource", "textual_order() of ResultTextSelection sorts with a comparator that never looks at the resource (%s) and then calls dedup(): selections with the same offsets in different resources compare as equal-for-sorting, so two equal selections of one resource can end up apart and both survive - a query for TEXT returns the same text selection more than once" % ", ".join(mirq.short_fn(c_) for c_ in callees), b.file, b.line)
