"""C19 loading untrusted input never panics / exhausts memory / hangs.

C19.PANIC : panic-source reachability from every loader entry point and every serde /
            minicbor callback (same machinery as C09.TOTAL).
C19.ALLOC : no allocation in loader-reachable code is sized by a value that is not a
            constant or a length of existing data.
C19.VALID : the CBOR loader must validate decoded handles before returning Ok.
C19.LOOP  : every loop in loader-reachable code consumes input or a finite iterator."""
import re
import mirq
import panics
from props.c09 import total_rule, load_safe

ROOT_RX = (r"(annotationstore::AnnotationStore|annotationdataset::AnnotationDataSet|resources::TextResource)::(from_file|from_str|with_file|annotate_from_file|from_cbor_file)$"
           r"|as json::FromJson>::(from_json_file|from_json_str|merge_json_file|merge_json_str)$"
           r"|as csv::FromCsv>::from_csv"
           r"|substore::<impl annotationstore::AnnotationStore>::add_substore$"
           r"|<(types::Cursor|types::Type|types::DataFormat|selector::SelectorKind|selector::OffsetMode) as std::convert::TryFrom<&.*str>>::try_from$")
CALLBACK_TRAITS = r"serde::de::(Deserialize|DeserializeSeed|Visitor)$|minicbor::decode::Decode$|minicbor::Decode$"

ALLOC_FNS = re.compile(r"::(resize_with|resize|with_capacity|reserve|reserve_exact|from_elem|with_capacity_in|repeat|extend_from_within)$")
LEN_PRODUCERS = re.compile(r"(::len|::size_hint|::count|::capacity|::min|::textlen|_len)$")
ADVANCE = re.compile(r"::(next|next_back|next_element|next_element_seed|next_key|next_key_seed|next_value|next_value_seed|next_entry|pop|pop_front|pop_back|read_line|read|read_record|deserialize|remove|recv|nth|find|position)$")


def loader_roots(prog):
    roots = [b.id for b in prog.find_bodies(ROOT_RX)]
    for im in prog.impls:
        if re.search(CALLBACK_TRAITS, im["trait"]):
            for m in im["methods"]:
                roots.append(m["def"])
    return roots


def run(ctx):
    prog = mirq.Program(ctx.facts.mir())
    ctx.not_decided += ["running time proportional to the input (only divergence by shape is decided)",
                        "memory use and panics inside dependencies (serde_json, csv, minicbor, chrono)",
                        "that a successfully loaded store satisfies C01-C03 (only the presence of a validation step is decided for CBOR)"]
    ctx.assumptions += ["lengths and counters never reach usize::MAX (x + small constant cannot overflow)",
                        "rules/panic_safe.json lines were reviewed by reading the pinned source; each names one panic source",
                        "handle-validity lines are sound for stores built through the JSON/CSV loaders (which insert through StoreFor::insert); they are NOT established for CBOR input, see C19.VALID"]
    roots = loader_roots(prog)
    r_panic = ctx.rule("C19.PANIC", "no undischarged panic source is reachable from a loader entry point or a serde/minicbor callback")
    safe = load_safe("C19")
    reach = total_rule(ctx, r_panic, prog, roots, safe, 300, 100)
    ctx.floor(r_panic, len(roots), 60, "loader roots (entry points + callbacks)")

    # ---------------- allocation sized by input
    r_alloc = ctx.rule("C19.ALLOC", "no allocation is sized by a parsed number")
    n_alloc = 0
    for bid in sorted(reach):
        b = prog.bodies[bid]
        if b.d.get("derived"):
            continue
        seen = {}
        for bi, t in b.calls():
            decl, res, info = mirq.callee_of(t)
            if not decl or info.get("local") or not ALLOC_FNS.search(decl):
                continue
            if "alloc::" not in decl and "std::" not in decl and "smallvec" not in decl and "core::" not in decl:
                continue
            args = t.get("args", [])
            # the size argument is the last usize-typed argument
            at = t.get("at", [])
            size_idx = None
            for i, ty in enumerate(at):
                if ty == "usize":
                    size_idx = i
            if size_idx is None:
                continue
            n_alloc += 1
            what = mirq.short_fn(decl)
            seen[what] = seen.get(what, 0) + 1
            key = "%s|%s#%d" % (bid, what, seen[what])
            o = args[size_idx]
            ok = None
            if "k" in o:
                ok = "constant size"
            else:
                prod = panics.producer(b, o)
                if LEN_PRODUCERS.search("::" + prod):
                    ok = "sized by %s of existing data" % prod
            r_alloc.hit(key, sample={"site": key, "size": b.key_of_operand(o), "ok": ok})
            if ok is None and key in safe:
                ok = safe[key]
            if ok is None:
                ctx.report(r_alloc, key, "%s in loader-reachable %s is sized by %s, which is not a constant or a length of existing data (a number in the input can exhaust memory)" % (
                    what, bid, b.key_of_operand(o)), b.file, t.get("line"))
    ctx.floor(r_alloc, n_alloc, 3, "allocation sites")

    # ---------------- CBOR validation
    r_valid = ctx.rule("C19.VALID", "from_cbor_file validates the decoded handles before returning Ok")
    try:
        fb = prog.one(r"annotationstore::AnnotationStore::from_cbor_file$")
        r_valid.hit("from_cbor_file")
        callees = set()
        for bi, t in fb.calls():
            decl, res, info = mirq.callee_of(t)
            callees.add((res or decl or "").split("::")[-1])
        if not any(re.search(r"valid|check|verify|sanity", c) for c in callees):
            ctx.report(r_valid, "from_cbor_file:no-validation", "from_cbor_file returns the decoded store without any cross-check of handles (callees: %s): a corrupted or crafted file yields a store that violates C01-C03 and makes later accessors panic" % sorted(c for c in callees if c)[:12], fb.file, fb.line)
    except Exception as e:
        ctx.anchor_missing(r_valid, str(e))

    exist_rule(ctx, Syn_(ctx))
    split_rule(ctx, Syn_(ctx))
    recur_rule(ctx, prog, reach, Syn_(ctx))
    # the division in create_milestones is discharged by its callers' guards: that supporting fact is checked here too
    from props.c12 import div_rule
    div_rule(ctx, prog, rid="C19.DIV")

    # ---------------- loops consume input
    r_loop = ctx.rule("C19.LOOP", "every loop in loader-reachable code advances an iterator / reader on each iteration")
    n_loops = 0
    for bid in sorted(reach):
        b = prog.bodies[bid]
        if b.d.get("derived"):
            continue
        dom = b.dominators()
        heads = {}
        for x in b.reachable_blocks():
            for s in b.succs(x):
                if s in dom.get(x, ()):  # back edge x -> s
                    heads.setdefault(s, []).append(x)
        idx = 0
        for h in sorted(heads):
            # natural loop of the back edges into h
            loop = {h}
            st = list(heads[h])
            while st:
                y = st.pop()
                if y in loop:
                    continue
                loop.add(y)
                st.extend(p for p in b.preds(y))
            n_loops += 1
            idx += 1
            adv = None
            for y in loop:
                t = b.blocks[y]["t"]
                if t["t"] == "call":
                    decl, res, info = mirq.callee_of(t)
                    nm = res or decl or ""
                    if ADVANCE.search(nm) or ADVANCE.search(decl or ""):
                        adv = mirq.short_fn(decl)
                        break
            key = "%s|loop#%d" % (bid, idx)
            r_loop.hit(key, sample={"loop": key, "advances": adv})
            if adv is None:
                # a loop with an explicit exit test on a compared counter
                has_cmp_exit = False
                for y in loop:
                    t = b.blocks[y]["t"]
                    if t["t"] == "switch" and any(s not in loop for s in b.succs(y)):
                        has_cmp_exit = True
                if not has_cmp_exit:
                    ctx.report(r_loop, key, "loop in loader-reachable %s neither advances an iterator/reader nor has an exit test" % bid, b.file, b.blocks[h]["t"].get("line"))
                else:
                    r_loop.unknown += 1
    ctx.floor(r_loop, n_loops, 40, "loops")


# ---------------------------------------------------------------------- EXIST
def exist_rule(ctx, syn):
    """AnnotationStore::selector() turns identifiers from the input into handles that are stored in the
    annotation.  A handle may be stored only if the item it names was fetched (`self.get(..)`): the bare id
    resolution (`to_handle` / `resolve_id`) maps a temporary id such as "!A3000000" to handle 3000000 without
    looking at the store, and the reverse indices are then resized to that number."""
    from synq import Syn, walk, find, unparse, strip, pat_names
    r = ctx.rule("C19.EXIST", "every handle AnnotationStore::selector() stores in a Selector comes from an item fetched from the store, never from bare id resolution")
    fl = [f for f in syn.fns if f.name == "selector" and (f.self_ty or "") == "AnnotationStore" and f.file == "src/annotationstore.rs" and f.body is not None]
    if len(fl) != 1:
        ctx.anchor_missing(r, "fn AnnotationStore::selector")
        return
    f = fl[0]
    ctx.functions_analysed.add(f.qual)
    tainted = {}
    for nd in walk(f.body):
        if nd.get("k") == "let" and nd.get("init") is not None:
            src = unparse(nd["init"])
            if re.search(r"\.to_handle\(|resolve_id\(|resolve_temp_id\(", src) and not re.search(r"\.get\(|\.get_mut\(", src):
                for nm in pat_names(nd["pat"]):
                    tainted[nm] = nd.get("l")
    n = 0
    for c in find(f.body, "call"):
        fn = unparse(c["func"])
        if not re.fullmatch(r"Selector::\w+Selector", fn):
            continue
        n += 1
        r.hit("%s#%d" % (fn, n))
        for a in c["args"]:
            used = [x["path"][0] for x in walk(a) if x.get("k") == "path" and len(x["path"]) == 1]
            direct = re.search(r"\.to_handle\(|resolve_id\(", unparse(a))
            bad = [u for u in used if u in tainted]
            if bad or direct:
                ctx.report(r, "%s|unfetched" % fn, "selector() stores a handle in %s that comes from bare id resolution (`%s`) instead of an item fetched with self.get(..): an input that names a non-existent temporary id is accepted, the handle dangles and sizes the reverse indices" % (fn, bad[0] if bad else "to_handle"), f.file, c.get("l"))
    ctx.floor(r, n, 6, "Selector constructions in selector()")


def Syn_(ctx):
    from synq import Syn
    return Syn(ctx.facts.syn())


# ---------------------------------------------------------------------- RECUR
def recur_rule(ctx, prog, reach, syn):
    """a function reachable from a loader that can call itself must be known to terminate: every such
    function carries a reviewed reason; the file-include recursion of TextResourceBuilder::build is
    additionally checked to re-enter only with a builder that carries text"""
    from synq import find, unparse, strip, walk
    r = ctx.rule("C19.RECUR", "every function reachable from a loader that may call itself has a reviewed termination argument; the include recursion re-enters only with text present")
    table = load_safe("C19.RECUR")
    n = 0
    for bid in sorted(reach):
        b = prog.bodies[bid]
        if b.d.get("derived"):
            continue
        for bi, t in b.calls():
            if bid in prog.call_targets(b, t):
                n += 1
                r.hit(bid, sample={"function": bid, "reason": table.get(bid, "-")[:90]})
                if bid not in table:
                    ctx.report(r, bid, "%s is reachable from a loader and may call itself (line %s); there is no reviewed termination argument for it: untrusted input may drive it into unbounded recursion (stack overflow aborts the process)" % (bid, t.get("line")), b.file, t.get("line"))
                break
    # mutual recursion: strongly connected components of the call graph among the loader-reachable functions
    scc_table = load_safe("C19.SCC")
    edges = prog.edges()
    index, low, stack, onstack, comps = {}, {}, [], set(), []
    counter = [0]
    for root in sorted(reach):
        if root in index:
            continue
        work = [(root, iter(sorted(w for w in edges.get(root, ()) if w in reach)))]
        index[root] = low[root] = counter[0]
        counter[0] += 1
        stack.append(root)
        onstack.add(root)
        while work:
            v, it = work[-1]
            adv = False
            for w in it:
                if w not in index:
                    index[w] = low[w] = counter[0]
                    counter[0] += 1
                    stack.append(w)
                    onstack.add(w)
                    work.append((w, iter(sorted(x for x in edges.get(w, ()) if x in reach))))
                    adv = True
                    break
                elif w in onstack:
                    low[v] = min(low[v], index[w])
            if adv:
                continue
            work.pop()
            if work:
                low[work[-1][0]] = min(low[work[-1][0]], low[v])
            if low[v] == index[v]:
                comp = []
                while True:
                    w = stack.pop()
                    onstack.discard(w)
                    comp.append(w)
                    if w == v:
                        break
                if len(comp) > 1:
                    comps.append(sorted(comp))
    for comp in sorted(comps):
        k = "|".join(comp)
        r.hit("scc:" + k[:80], sample={"cycle": comp, "reason": scc_table.get(k, "-")[:90]})
        if k not in scc_table:
            ctx.report(r, "cycle:" + "|".join(mirq.short_fn(x) for x in comp), "the loader-reachable functions %s can call each other in a cycle and there is no reviewed termination argument for that cycle: untrusted input (a file that includes itself, directly or through another file) may drive it into unbounded recursion, and a stack overflow aborts the process" % [mirq.short_fn(x) for x in comp], prog.bodies[comp[0]].file, prog.bodies[comp[0]].line)
    ctx.floor(r, len(comps), 3, "call-graph cycles among loader-reachable functions")
    # the dataset include cycle is bounded by a depth counter: checked, not trusted
    vm = [f for f in syn.fns if f.name == "visit_map" and "AnnotationDataSetVisitor" in (f.self_ty or "") and f.body is not None]
    if len(vm) != 1:
        ctx.anchor_missing(r, "AnnotationDataSetVisitor::visit_map")
    else:
        arms = [a for a in walk(vm[0].body) if a.get("k") == "arm" and a["pat"]["s"].replace(" ", "") == '"@include"']
        r.hit("dataset-include-depth")
        okd = False
        for a in arms:
            guards = [n for n in walk(a["body"]) if n.get("k") == "if" and "depth" in unparse(n["cond"]) and re.search(r"(>=|>)", unparse(n["cond"])) and any(x.get("k") == "return" for x in walk(n["then"]))]
            nested = [n for n in walk(a["body"]) if (n.get("k") == "structlit" and n["path"][-1] == "DeserializeAnnotationDataSet") or (n.get("k") == "mcall" and n["method"] in ("merge_json_file", "merge_json_str"))]
            passes = any(n.get("k") == "structlit" and any(f_["name"] == "depth" and "+1" in unparse(f_["e"]).replace(" ", "") for f_ in n["fields"]) for n in nested)
            if guards and nested and passes and min(g["l"] for g in guards) < min(n["l"] for n in nested):
                okd = True
        if not okd:
            ctx.report(r, "dataset-include-depth", "the @include arm of AnnotationDataSetVisitor::visit_map re-enters the dataset reader without a depth bound (a test of its depth counter against a constant that returns an error, and depth + 1 handed to the nested reader): a dataset file that includes itself, directly or through other files, recurses until the stack overflows", vm[0].file, vm[0].line)
    fl = [f for f in syn.fns if f.name == "build" and (f.self_ty or "") == "TextResourceBuilder" and f.body is not None]
    if len(fl) != 1:
        ctx.anchor_missing(r, "fn TextResourceBuilder::build")
    else:
        f = fl[0]
        ctx.functions_analysed.add(f.qual)
        okc = False
        for blk in walk(f.body):
            if not isinstance(blk.get("stmts"), list):
                continue
            srcs = [unparse(s_) for s_ in blk["stmts"]]
            rec_i = [i for i, s_ in enumerate(blk["stmts"]) if s_.get("k") == "exprstmt" and strip(s_["e"]).get("k") == "mcall" and strip(s_["e"])["method"] == "build" and unparse(strip(strip(s_["e"])["recv"])) == "builder"]
            if not rec_i:
                continue
            def is_guard(st_):
                # `if builder.text.is_none() { return Err(..) }`: the test alone or as one side of an `||` - a conjunction with
                # anything else lets a text-less builder through
                e_ = strip(st_["e"]) if st_.get("k") == "exprstmt" else None
                if not e_ or e_.get("k") != "if" or not any(x.get("k") == "return" and "Err" in unparse(x) for x in walk(e_["then"])):
                    return False

                def disjuncts(c_):
                    c_ = strip(c_)
                    if c_.get("k") == "binary" and c_.get("op") == "||":
                        return disjuncts(c_["left"]) + disjuncts(c_["right"])
                    return [c_]
                return any(unparse(d_).replace(" ", "") == "builder.text.is_none()" for d_ in disjuncts(e_["cond"]))
            guard_i = [i for i, s_ in enumerate(blk["stmts"]) if is_guard(s_)]
            r.hit("build:include-guard")
            if guard_i and min(guard_i) < min(rec_i):
                okc = True
            else:
                ctx.report(r, "build:include-guard", "TextResourceBuilder::build re-enters itself with the builder read from the included JSON file without first testing that it carries text: a file without a \"text\" member makes it load the same file again and again until the stack overflows", f.file, f.line)
        if not okc and "build:include-guard" not in r.seen:
            ctx.anchor_missing(r, "recursive builder.build(..) call in TextResourceBuilder::build")
    ctx.floor(r, n, 1, "self-recursive loader-reachable functions")


# ---------------------------------------------------------------------- SPLIT
def split_rule(ctx, syn):
    """the reviewed table lines for `<list>.last().unwrap()` / `<list>[0]` in the CSV row reader rest on one
    fact: each list is the collect() of a str::split(..), which yields at least one item.  That fact is
    checked here for every such list, on every path of its initialisation."""
    from synq import find, unparse, strip, walk, pat_names, block_tail
    r = ctx.rule("C19.SPLIT", "every list the CSV row reader takes `.last().unwrap()` of is, on every path, the collect() of a str::split (never empty)")
    fl = [f for f in syn.fns if f.name == "try_into" and f.file == "src/csv.rs" and f.body is not None and "AnnotationCsv" in (f.self_ty or "")]
    if len(fl) != 1:
        ctx.anchor_missing(r, "AnnotationCsv::try_into")
        return
    f = fl[0]
    ctx.functions_analysed.add(f.qual)
    names = set()
    for c in find(f.body, "mcall"):
        if c["method"] == "unwrap" and strip(c["recv"]).get("k") == "mcall" and strip(c["recv"])["method"] in ("last", "first"):
            base = strip(strip(c["recv"])["recv"])
            if base.get("k") == "path" and len(base["path"]) == 1:
                names.add(base["path"][0])
    lets = {}
    for nd in walk(f.body):
        if nd.get("k") == "let" and nd.get("init") is not None:
            for nm in pat_names(nd["pat"]):
                lets.setdefault(nm, []).append(nd["init"])

    def tails(e, out):
        e = strip(e)
        k = e.get("k")
        if k == "if":
            t = block_tail(e["then"])
            if t is not None:
                tails(t, out)
            if e.get("else") is not None:
                tails(e["else"], out)
            else:
                out.append(None)
        elif k == "blockexpr":
            t = block_tail(e["block"])
            tails(t, out) if t is not None else out.append(None)
        elif k == "match":
            for a in e["arms"]:
                tails(a["body"], out)
        else:
            out.append(e)
    for nm in sorted(names):
        for init in lets.get(nm, []):
            ts = []
            tails(init, ts)
            for t in ts:
                src = unparse(t) if t is not None else "(no value)"
                chain = []
                cur = t
                while cur is not None and cur.get("k") == "mcall":
                    chain.append(cur["method"])
                    cur = strip(cur["recv"])
                okc = bool(chain) and chain[0] == "collect" and "split" in chain and not any(m in ("filter", "filter_map", "skip", "take", "skip_while", "take_while", "split_terminator", "split_whitespace") for m in chain)
                if not okc and t is not None and re.fullmatch(r"(SmallVec|Vec)::new\(\)", src):
                    # filled by an unconditional push in a loop over a str::split (at least one iteration)
                    for lp in find(f.body, "for"):
                        if ".split(" in unparse(lp["iter"]) and not re.search(r"\.(filter|skip|take)\(", unparse(lp["iter"])):
                            direct = [st_ for st_ in lp["body"]["stmts"] if st_.get("k") == "exprstmt" and strip(st_["e"]).get("k") == "mcall" and strip(st_["e"])["method"] == "push" and unparse(strip(strip(st_["e"])["recv"])) == nm]
                            if direct:
                                okc = True
                                src += " + push in a loop over " + unparse(lp["iter"])[:40]
                r.hit("%s|%s" % (nm, re.sub(r"\W+", "_", src)[:40]), sample={"list": nm, "initialised_by": src[:70], "non_empty": okc})
                if not okc:
                    ctx.report(r, "%s|possibly-empty" % nm, "the CSV row reader takes `%s.last().unwrap()` (as the eagerly evaluated fallback of `.get(i).unwrap_or(..)`), but on one path `%s` is initialised by `%s`, which can be empty: a row with that column absent panics" % (nm, nm, src[:60]), f.file, (t or init).get("l"))
    ctx.floor(r, len(names), 6, "lists whose last element is unwrapped")
