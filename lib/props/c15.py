"""C15 STAM CSV round trip: writer/reader agreement.

KIND  selector kinds the writer can emit for a simple selector == kinds the reader's simple branch accepts
TGT   every Ok(builder) of the row reader is dominated by with_target (rows without data are valid)
COL   all eight column writers expand internal ranged selectors into the same number of ';' slots
CUR   Cursor: parse(display(c)) == c for both alignments including -0 (finite evaluation)
SETS  one data id and one set id per data item, appended unconditionally in the same loop
SIB   the three row literals (0, 1, many data) build the shared columns with the same expressions"""
import re
import mirq
from synq import Syn, walk, find, unparse, strip
from formula import Evaluator, EnumVal, SInt, Unknown, Panic, ok as OK, err as ERR, Return


def run(ctx):
    syn = Syn(ctx.facts.syn())
    ranged_rule(ctx, syn)
    rowkind_rule(ctx, syn)
    prog = mirq.Program(ctx.facts.mir())
    dialect_rule(ctx, prog)
    idcol_rule(ctx, syn)
    textlen_rule(ctx, prog)
    workdir_rule(ctx, syn)
    csvorder_rule(ctx, syn)
    csvvalue_rule(ctx, syn)
    from props.c11 import name_rule
    name_rule(ctx, rid="C15.NAME")   # to_file(name) / from_file(name): the manifest or store file is written under the name given
    from props.c01 import expand_rule
    expand_rule(ctx, syn, rid="C15.EXPAND")   # the CSV writer serialises complex targets through this expansion (set_beginoffset / set_endoffset over Selector::iter)
    from props.c05 import moved_rule
    moved_rule(ctx, rid="C15.MOVED")   # a store saved as CSV in a second directory: the per-resource / per-dataset files go along
    ctx.not_decided += ["text of values (the format stores values as text)", "file handling and stand-off members", "identifiers that contain the ';' separator (outside the claim)"]

    ti = syn.fn("try_into", self_ty="AnnotationCsv<'a>", trait="TryInto<AnnotationBuilder<'a>>") if syn.find_fns("try_into", trait="TryInto<AnnotationBuilder<'a>>") else None
    if ti is None:
        cands = [f for f in syn.find_fns("try_into") if f.file.endswith("csv.rs")]
        if len(cands) != 1:
            from core import AnchorMissing
            raise AnchorMissing("TryInto<AnnotationBuilder> for AnnotationCsv")
        ti = cands[0]
    ctx.functions_analysed.add(ti.qual)

    # ---------------- KIND
    r_kind = ctx.rule("C15.KIND", "every selector kind the writer emits for a non-complex selector is accepted by the reader's simple branch (and every kind by the complex branch)")
    sk = syn.enums.get("SelectorKind")
    cx = syn.fn("is_complex", self_ty="SelectorKind")
    complex_kinds = set()
    for a in [n for n in walk(cx.body) if n.get("k") == "arm"]:
        if unparse(a["body"]) == "true":
            for p in walk(a["pat"]):
                if p.get("k") == "pat" and p.get("p") == "path":
                    complex_kinds.add(p["path"][-1])
    allkinds = [v["name"] for v in sk["variants"]]
    simple = [k for k in allkinds if k not in complex_kinds and "Internal" not in k]
    matches = [m for m in find(ti.body, "match") if unparse(m["e"]).replace(" ", "") == "selectortypes[0]"]
    if len(matches) != 2:
        ctx.anchor_missing(r_kind, "the two `match selectortypes[0]` of the row reader (found %d)" % len(matches))
    else:
        simple_m = min(matches, key=lambda m: m["l"])
        accepted = set()
        for a in simple_m["arms"]:
            for p in walk(a["pat"]):
                if p.get("k") == "pat" and p.get("p") == "path" and len(p["path"]) >= 2 and p["path"][-2] == "SelectorKind":
                    accepted.add(p["path"][-1])
        for k in simple:
            r_kind.hit("simple:" + k, sample={"kind": k, "accepted": k in accepted})
            if k not in accepted:
                ctx.report(r_kind, "simple:" + k, "the writer emits SelectorType %s for a simple selector, but the reader's simple branch has no arm for it (it falls into the catch-all): rows the writer produces cannot be read back" % k, ti.file, simple_m["l"])
        # complex branch: sub-selector kinds
        sub = [m for m in find(ti.body, "match") if "selectortypes.get(i)" in unparse(m["e"]).replace(" ", "")]
        if len(sub) != 1:
            ctx.anchor_missing(r_kind, "match over selectortypes.get(i) in the complex branch")
        else:
            acc2 = set()
            for a in sub[0]["arms"]:
                for p in walk(a["pat"]):
                    if p.get("k") == "pat" and p.get("p") == "path" and len(p["path"]) >= 2 and p["path"][-2] == "SelectorKind":
                        acc2.add(p["path"][-1])
            for k in simple:
                r_kind.hit("sub:" + k)
                if k not in acc2:
                    ctx.report(r_kind, "sub:" + k, "the complex branch of the CSV reader has no arm for sub-selector kind %s" % k, ti.file, sub[0]["l"])
    ctx.floor(r_kind, len(simple), 6, "simple selector kinds")

    # ---------------- TGT (MIR dominance)
    r_tgt = ctx.rule("C15.TGT", "every Ok(builder) exit of the row reader is dominated by the with_target call")
    body = [b for b in prog.find_bodies(r"csv::AnnotationCsv<'a> as std::convert::TryInto<annotation::AnnotationBuilder<'a>>>::try_into$")]
    if len(body) != 1:
        ctx.anchor_missing(r_tgt, "MIR body of the row reader")
    else:
        b = body[0]
        wt = [bi for bi, t in b.calls() if (mirq.callee_of(t)[0] or "").endswith("AnnotationBuilder::<'a>::with_target") or (mirq.callee_of(t)[0] or "").endswith("::with_target")]
        oks = []
        for bi, blk in enumerate(b.blocks):
            for s in blk["s"]:
                rv = s.get("rv")
                if rv and rv.get("r") == "agg" and rv.get("adt") == "std::result::Result" and rv.get("variant") == "Ok" and s["p"]["l"] == 0 and not s["p"]["p"]:
                    oks.append(bi)
        r_tgt.hit("ok-exits", sample={"with_target_blocks": wt, "ok_blocks": oks})
        if not wt:
            ctx.report(r_tgt, "no-with_target", "the CSV row reader never sets the target", b.file, b.line)
        for o in oks:
            if not any(b.dominates(w, o) for w in wt):
                ctx.report(r_tgt, "undominated-ok", "the CSV row reader can return Ok(builder) on a path that never called with_target (the target decoding is nested under a condition, e.g. on the data column): rows without data lose their target", b.file, b.line)
        ctx.floor(r_tgt, len(oks), 1, "Ok exits")

    # ---------------- COL
    r_col = ctx.rule("C15.COL", "each of the eight column writers expands both internal ranged selector kinds into one ';' slot per contained selector")
    ncol = 0
    for f in syn.fns:
        if not (f.file.endswith("csv.rs") and f.name.startswith("set_") and f.self_ty and f.self_ty.startswith("AnnotationCsv")):
            continue
        ncol += 1
        ctx.functions_analysed.add(f.qual)
        r_col.hit(f.name)
        handled = {"RangedTextSelector": False, "RangedAnnotationSelector": False}
        # a pattern (match arm or if-let) naming the ranged kind whose body loops over subselector.iter(store,false) and pushes ';' for i > 0

        def check(pat_s, bodynode):
            src = unparse(bodynode).replace(" ", "")
            good = ".iter(store,false)" in src and "push(';')" in src
            for k in handled:
                if k in pat_s and good:
                    handled[k] = True
        for n in walk(f.body):
            if n.get("k") == "arm":
                check(n["pat"]["s"], n["body"])
            if n.get("k") == "if" and n["cond"].get("k") == "letexpr":
                check(n["cond"]["pat"]["s"], n["then"])
        for k, v in handled.items():
            if not v:
                ctx.report(r_col, "%s:%s" % (f.name, k), "%s does not expand %s into one slot per contained selector: after a range-compressed run of sub-selectors this column has fewer ';' slots than SelectorType and later sub-selectors are read from the wrong slot" % (f.name, k), f.file, f.line)
    ctx.floor(r_col, ncol, 8, "column writers")

    # ---------------- CUR
    r_cur = ctx.rule("C15.CUR", "Cursor: parsing what Display prints gives back the same cursor for both alignments, including EndAligned(0) = \"-0\"")
    disp = syn.fn("fmt", self_ty="Cursor", trait="std::fmt::Display")
    pars = syn.fn("try_from", self_ty="Cursor", trait="TryFrom<&str>")
    from_is = syn.fn("try_from", self_ty="Cursor", trait="TryFrom<isize>")
    from_us = syn.fn("from", self_ty="Cursor", trait="From<usize>")
    for f in (disp, pars, from_is, from_us):
        ctx.functions_analysed.add(f.qual)

    def fmt_macro(ev, node, env):
        args = node.get("args") or []
        if len(args) < 2:
            raise Unknown("write! arity")
        fs = ev.eval(args[1], env)
        vals = [ev.eval(a, env) for a in args[2:]]
        out = ""
        i = 0
        parts = re.split(r"(\{\}|\{:\?\})", fs)
        for p in parts:
            if p in ("{}", "{:?}"):
                if i >= len(vals):
                    raise Unknown("format arity")
                out += str(int(vals[i]))
                i += 1
            else:
                out += p
        env["__out__"].append(out)
        return OK(())

    def display(c):
        ev = Evaluator(hooks={"macro:write": fmt_macro})
        out = []
        ev.run_body(disp.body, {"self": c, "f": "F", "__out__": out})
        return "".join(out)

    def parse(s):
        def radix(kind):
            def h(ev, recv, args, node, env):
                txt = args[0]
                if not re.match(r"^[+-]?\d+$", txt):
                    return ERR(None)
                v = int(txt)
                if kind == "usize":
                    if v < 0 or txt.startswith("-"):
                        return ERR(None)
                    return OK(v)
                return OK(SInt(v))
            return h

        def h_tryfrom(ev, recv, args, node, env):
            return ev.run_body(from_is.body, {"cursor": args[0]})

        def h_from(ev, recv, args, node, env):
            return ev.run_body(from_us.body, {"cursor": args[0]})
        hooks = {"call:isize::from_str_radix": radix("isize"), "call:usize::from_str_radix": radix("usize"),
                 "call:Cursor::try_from": h_tryfrom, "call:Cursor::from": h_from,
                 "starts_with": lambda ev, recv, args, node, env: recv.startswith(args[0]) if isinstance(recv, str) else NotImplemented,
                 "map_err": lambda ev, recv, args, node, env: recv,
                 "parse": lambda ev, recv, args, node, env: (OK(SInt(int(recv))) if re.match(r"^[+-]?\d+$", recv) else ERR(None)) if isinstance(recv, str) else NotImplemented,
                 "to_owned": lambda ev, recv, args, node, env: recv}
        ev = Evaluator(hooks=hooks)
        ev.opvariants = {}
        return ev.run_body(pars.body, {"cursor": s})

    cases = [EnumVal("BeginAligned", (0,)), EnumVal("BeginAligned", (7,)), EnumVal("EndAligned", (SInt(0),)), EnumVal("EndAligned", (SInt(-1),)), EnumVal("EndAligned", (SInt(-12),))]
    for c in cases:
        r_cur.obligations += 1
        key = repr(c)
        try:
            s = display(EnumVal(c.name, c.args))
            back = parse(s)
        except (Unknown, Panic) as e:
            r_cur.unknown += 1
            ctx.report(r_cur, "uninterpretable", "Display / TryFrom<&str> for Cursor is outside the evaluator's vocabulary (%s): obligation not discharged" % e, disp.file, disp.line)
            break
        r_cur.hit(key, sample={"cursor": key, "printed": s, "parsed_back": repr(back)})
        good = isinstance(back, tuple) and back[0] == "ok" and isinstance(back[1], EnumVal) and back[1].name == c.name and int(back[1].args[0]) == int(c.args[0])
        if not good:
            ctx.report(r_cur, key, "Cursor %s is printed as \"%s\" (the CSV BeginOffset/EndOffset columns) and parsed back as %r: the alignment or value is lost" % (key, s, back), pars.file, pars.line)
        else:
            r_cur.discharged += 1

    # ---------------- SETS / SIB on the annotation table writer
    r_sets = ctx.rule("C15.SETS", "the annotation writer appends exactly one data id and one set id per data item (the reader pairs them by position)")
    r_sib = ctx.rule("C15.SIB", "the row literals for 0, 1 and several data items build the shared columns identically")
    writers = [f for f in syn.fns if f.file.endswith("csv.rs") and any(s["path"][-1] == "AnnotationCsv" for s in find(f.body, "structlit")) and f.name != "try_into"] if True else []
    if len(writers) != 1:
        ctx.anchor_missing(r_sets, "the function that builds AnnotationCsv rows (found %d)" % len(writers))
        return
    w = writers[0]
    ctx.functions_analysed.add(w.qual)
    lits = [s for s in find(w.body, "structlit") if s["path"][-1] == "AnnotationCsv"]
    ctx.floor(r_sib, len(lits), 3, "AnnotationCsv row literals")
    shared = ("selectortype", "targetdataset", "targetresource", "targetannotation", "targetkey", "targetdata", "begin", "end", "id")
    for fld in shared:
        exprs = {}
        for i, lit in enumerate(lits):
            for f in lit["fields"]:
                if f["name"] == fld:
                    exprs[i] = unparse(f["e"])
        r_sib.hit(fld)
        if len(set(exprs.values())) > 1:
            ctx.report(r_sib, fld, "column %s is built differently in the row literals for 0 / 1 / several data items (%s): the same annotation is written differently depending on how much data it has" % (fld, sorted(set(e[:70] for e in exprs.values()))), w.file, lits[0]["l"])
    loops = [lp for lp in find(w.body, "for") if unparse(lp["iter"]).replace(" ", "") == "annotation.data()"]
    if len(loops) != 1:
        ctx.anchor_missing(r_sets, "`for data in annotation.data()` in the annotation writer")
    else:
        lp = loops[0]
        top = lp["body"]["stmts"]
        appends = {"data_ids": 0, "set_ids": 0}
        for s in top:
            src = unparse(s).replace(" ", "")
            # a top-level `if let Some(id) = X.id() { V += id } else { V += temp }` appends unconditionally
            for v in appends:
                if s["k"] == "exprstmt" and s["e"].get("k") == "if" and s["e"].get("else") and src.count("%s+=" % v) >= 2 and s["e"]["cond"].get("k") == "letexpr" and ".id()" in unparse(s["e"]["cond"]["e"]):
                    appends[v] += 1
                elif s["k"] == "exprstmt" and s["e"].get("k") == "binary" and s["e"]["op"] == "+=" and unparse(s["e"]["left"]) == v:
                    appends[v] += 1
        for v, n in appends.items():
            r_sets.hit(v, sample={"column": v, "unconditional_appends_per_item": n})
            if n != 1:
                ctx.report(r_sets, v, "the writer appends to %s %d times unconditionally per data item (must be exactly once): data ids and set ids no longer pair up by position, and the reader attributes data to the wrong set" % (v, n), w.file, lp["l"])


# ---------------------------------------------------------------------- RANGED
def ranged_rule(ctx, syn):
    """the CSV row of a complex selector does not depend on whether its sub-selectors are stored range-compressed:
    each of the eight column writers, evaluated from its syntax tree, gives the same text for a list with an
    internal ranged selector and for the same list written out"""
    from synq import unparse
    from formula import Evaluator, Unknown, Panic, StructVal, EnumVal, some, is_some, ok
    r = ctx.rule("C15.RANGED", "every column writer renders an internal ranged sub-selector exactly as the sub-selectors it stands for")
    writers = [f for f in syn.fns if f.file == "src/csv.rs" and f.name.startswith("set_") and (f.self_ty or "").startswith("AnnotationCsv") and f.body is not None]
    wmap = dict((f.name, f) for f in writers)
    hooks = {}
    hooks["is_complex"] = lambda ev, recv, args, node, env: isinstance(recv, StructVal) and recv.tyname == "Complex"
    hooks["subselectors"] = lambda ev, recv, args, node, env: some(recv["subs"]) if isinstance(recv, StructVal) and recv.tyname == "Complex" else None

    def kind(ev, recv, args, node, env):
        if isinstance(recv, StructVal) and recv.tyname == "Complex":
            return StructVal("Kind", {"s": recv["kind"]})
        if isinstance(recv, EnumVal):
            return StructVal("Kind", {"s": recv.name})
        if isinstance(recv, StructVal):
            return StructVal("Kind", {"s": recv.tyname})
        return NotImplemented
    hooks["kind"] = kind
    hooks["as_str"] = lambda ev, recv, args, node, env: recv["s"] if isinstance(recv, StructVal) and recv.tyname == "Kind" else (recv if isinstance(recv, str) else NotImplemented)
    hooks["as_ref"] = lambda ev, recv, args, node, env: recv

    def expand(sel):
        if isinstance(sel, StructVal) and sel.tyname == "RangedTextSelector":
            return [EnumVal("TextSelector", [sel["resource"], h, EnumVal("BeginBegin")]) for h in range(sel["begin"], sel["end"] + 1)]
        if isinstance(sel, StructVal) and sel.tyname == "RangedAnnotationSelector":
            return [EnumVal("AnnotationSelector", [h, some(("res0", 100 + h, EnumVal("BeginBegin"))) if sel["with_text"] else None]) for h in range(sel["begin"], sel["end"] + 1)]
        return [sel]

    def h_iter(ev, recv, args, node, env):
        if isinstance(recv, (StructVal, EnumVal)) and not (isinstance(recv, StructVal) and recv.tyname in ("Complex", "Kind")):
            return expand(recv)
        if isinstance(recv, list):
            return recv
        return NotImplemented
    hooks["iter"] = h_iter
    hooks["enumerate"] = lambda ev, recv, args, node, env: [(i, x) for i, x in enumerate(recv)] if isinstance(recv, list) else NotImplemented

    def offset(ev, recv, args, node, env):
        if isinstance(recv, EnumVal) and recv.name == "TextSelector":
            return some(StructVal("Offset", {"begin": "b%s" % recv.args[1], "end": "e%s" % recv.args[1]}))
        if isinstance(recv, EnumVal) and recv.name == "AnnotationSelector":
            return some(StructVal("Offset", {"begin": "0", "end": "-0"})) if recv.args[1] is not None else None
        if isinstance(recv, (EnumVal, StructVal)):
            return None
        return NotImplemented
    hooks["offset"] = offset

    def get(ev, recv, args, node, env):
        if recv == "STORE":
            return ok(StructVal("Item", {"id": "item%s" % (args[0],)}))
        if isinstance(recv, StructVal) and recv.tyname == "Item":
            return ok(StructVal("Item", {"id": "%s/%s" % (recv["id"], args[0])}))
        return NotImplemented
    hooks["get"] = get
    hooks["expect"] = lambda ev, recv, args, node, env: recv[1] if isinstance(recv, tuple) and recv and recv[0] in ("ok", "some") else NotImplemented
    hooks["id"] = lambda ev, recv, args, node, env: some(recv["id"]) if isinstance(recv, StructVal) and recv.tyname == "Item" else NotImplemented
    hooks["temp_id"] = lambda ev, recv, args, node, env: ok("!" + recv["id"]) if isinstance(recv, StructVal) and recv.tyname == "Item" else NotImplemented
    hooks["call:Cow::Borrowed"] = lambda ev, recv, args, node, env: args[0]
    hooks["call:Cow::Owned"] = lambda ev, recv, args, node, env: args[0]
    hooks["call:String::new"] = lambda ev, recv, args, node, env: ""

    def fmt_(ev, node, env):
        a = node.get("args") or []
        out = a[0]["v"]
        for x in a[1:]:
            out = out.replace("{}", str(ev.eval(x, env)), 1)
        return out
    hooks["macro:format"] = fmt_

    def push(ev, recv, args, node, env):
        if isinstance(recv, str) and node["recv"].get("k") == "path" and len(node["recv"]["path"]) == 1:
            env["__assign__"](node["recv"]["path"][0], recv + args[0])
            return ()
        return NotImplemented
    hooks["push"] = push
    hooks["push_str"] = push

    def mkcall(name):
        def h(ev, recv, args, node, env):
            return run(name, args[0])
        return h

    def run(name, sel):
        f = wmap[name]
        params = [p["pat"].get("name") for p in f.sig["inputs"]]
        return Evaluator(hooks=hooks).run_body(f.body, dict(zip(params, [sel, "STORE"])))
    for name in wmap:
        hooks["call:Self::" + name] = mkcall(name)
    T = lambda res, h: EnumVal("TextSelector", [res, h, EnumVal("BeginBegin")])
    A = lambda h, wt: EnumVal("AnnotationSelector", [h, some(("res0", 100 + h, EnumVal("BeginBegin"))) if wt else None])
    cases = [
        ("ranged-text", [StructVal("RangedTextSelector", {"resource": "res0", "begin": 3, "end": 5})]),
        ("ranged-annotations", [StructVal("RangedAnnotationSelector", {"begin": 3, "end": 4, "with_text": False})]),
        ("ranged-annotations-with-text", [StructVal("RangedAnnotationSelector", {"begin": 3, "end": 4, "with_text": True})]),
        ("mixed", [T("res0", 1), StructVal("RangedTextSelector", {"resource": "res0", "begin": 3, "end": 4}), A(7, True), StructVal("RangedAnnotationSelector", {"begin": 8, "end": 9, "with_text": True}), EnumVal("ResourceSelector", ["res1"])]),
    ]
    n = 0
    for wname, f in sorted(wmap.items()):
        ctx.functions_analysed.add(f.qual)
        for cname, subs in cases:
            flat = [x for s_ in subs for x in expand(s_)]
            n += 1
            try:
                a = run(wname, StructVal("Complex", {"kind": "MultiSelector", "subs": subs}))
                b = run(wname, StructVal("Complex", {"kind": "MultiSelector", "subs": flat}))
            except (Unknown, Panic) as e:
                ctx.report(r, "%s:unevaluated" % wname, "column writer %s could not be evaluated (%s) on %s: that range compression does not change the row is not established" % (wname, e, cname), f.file, f.line)
                break
            r.hit("%s:%s" % (wname, cname), sample={"writer": wname, "case": cname, "compressed": a, "written_out": b} if cname == "mixed" else None)
            if a != b:
                ctx.report(r, "%s:%s" % (wname, cname), "column writer %s renders the sub-selectors %s as %r, but the same selectors written out (%s) as %r: a stored annotation whose sub-selectors were range-compressed is written differently and reloads with different targets" % (wname, [repr(x) for x in subs], a, cname, b), f.file, f.line)
    ctx.floor(r, len(wmap), 8, "column writers")


# ---------------------------------------------------------------------- ROWKIND
def rowkind_rule(ctx, syn):
    """dataset table: the writer emits key rows (no id, empty value) and data rows (always an id, any value,
    including the empty string); the reader must classify every row the writer can emit as the writer meant it"""
    from synq import find, unparse, strip, walk
    from formula import Evaluator, Unknown, Panic, StructVal, some
    r = ctx.rule("C15.ROWKIND", "the dataset reader tells key rows from data rows exactly as the writer emits them (a data row always has an id; its value may be empty)")
    wr = [f for f in syn.fns if f.name == "to_csv_writer" and f.file == "src/csv.rs" and (f.self_ty or "") == "AnnotationDataSet"]
    rd = [f for f in syn.fns if f.name == "from_csv_reader" and f.file == "src/csv.rs" and (f.self_ty or "") == "AnnotationDataSet"]
    if len(wr) != 1 or len(rd) != 1:
        ctx.anchor_missing(r, "AnnotationDataSet::to_csv_writer / from_csv_reader")
        return
    wr, rd = wr[0], rd[0]
    ctx.functions_analysed.update([wr.qual, rd.qual])
    # writer shapes
    shapes = []
    for lit in find(wr.body, "structlit"):
        if lit["path"][-1] != "AnnotationDataCsv":
            continue
        idf = [f_["e"] for f_ in lit["fields"] if f_["name"] == "id"]
        valf = [f_["e"] for f_ in lit["fields"] if f_["name"] == "value"]
        if not idf or not valf:
            continue
        idsrc = unparse(strip(idf[0]))
        has_id = None if idsrc == "None" else ("always" if "None" not in re.sub(r"ifletSome", "", idsrc.replace(" ", "")).replace("Some(", "") else "maybe")
        empty_value = unparse(strip(valf[0])) in ("String::new()", '""', '"".to_string()')
        shapes.append(("key" if idsrc == "None" and empty_value else "data", has_id, empty_value))
    if len(shapes) != 2 or sorted(x[0] for x in shapes) != ["data", "key"]:
        ctx.report(r, "writer-shapes", "the dataset writer no longer emits exactly one key-row literal (no id, empty value) and one data-row literal: %s" % shapes, wr.file, wr.line)
        return
    # reader condition
    cond = None
    for nd in find(rd.body, "if"):
        if nd.get("else") is not None and "DataKey::new" in unparse(nd["then"]) and "build_insert_data" in unparse(nd["else"]):
            cond = nd["cond"]
    if cond is None:
        ctx.anchor_missing(r, "key-row / data-row branch in from_csv_reader")
        return
    rows = [("key", None, "k", ""), ("data", "D1", "k", "v"), ("data", "D1", "k", ""), ("data", "!D0", "k", "")]
    hooks = {"unwrap": lambda ev, recv, args, node, env: recv[1] if isinstance(recv, tuple) and recv and recv[0] == "some" else NotImplemented}
    for kind, id_, key, value in rows:
        rec = StructVal("AnnotationDataCsv", {"id": some(id_) if id_ is not None else None, "key": key, "value": value})
        try:
            got = Evaluator(hooks=hooks).eval(cond, {"record": rec})
        except (Unknown, Panic) as e:
            ctx.report(r, "unevaluated", "the row-kind test of the dataset reader could not be evaluated (%s)" % e, rd.file, cond.get("l"))
            return
        k2 = "%s(id=%s,value=%r)" % (kind, "yes" if id_ else "no", value)
        r.hit(k2, sample={"row": k2, "reader_says_key_row": got})
        if got != (kind == "key"):
            ctx.report(r, k2, "the writer emits a %s row (id %s, key %r, value %r) and the reader takes it for a %s: %s" % (
                kind, id_, key, value, "key declaration" if got else "data item",
                "a data item whose value is the empty string is lost on reload (and annotations that use it fail to load)" if kind == "data" else "a declared key becomes a data item"), rd.file, cond.get("l"))


# ---------------------------------------------------------------------- DIALECT
READER_ONLY = {"trim": "strips leading/trailing whitespace of every field: values (and validation texts) come back shortened",
               "comment": "drops every row that starts with the comment character", "flexible": "accepts rows with missing columns"}
NEUTRAL = {"new", "from_reader", "from_writer", "from_path", "buffer_capacity", "has_headers", "default"}


def dialect_rule(ctx, prog, rid="C15.DIALECT"):
    """what the CSV writer emits is read back field by field unchanged only if reader and writer use the same dialect;
    both are the csv crate's defaults today"""
    r = ctx.rule(rid, "the CSV readers and writers are configured with the same dialect: no option of csv::ReaderBuilder / csv::WriterBuilder that changes how a field is written or read is set on one side only")
    opts = {"Reader": {}, "Writer": {}}
    n = 0
    for bid, b in sorted(prog.bodies.items()):
        if b.d.get("derived"):
            continue
        for bi, t in b.calls():
            d = mirq.callee_of(t)[0] or ""
            m = re.match(r"^csv::(?:\w+::)*(Reader|Writer)(Builder)?(?:::<[^>]*>)?::(\w+)$", d)
            if not m:
                continue
            side, builder, meth = m.group(1), m.group(2), m.group(3)
            if meth in ("from_reader", "from_writer", "from_path"):
                n += 1
                r.hit("%s|%s#%d" % (bid, meth, n), sample={"in": bid, "constructs": "csv::%s%s::%s" % (side, builder or "", meth)})
            if builder and meth not in NEUTRAL:
                arg = b.key_of_operand(t["args"][1]) if len(t.get("args", [])) > 1 else ""
                opts[side].setdefault(meth, []).append((bid, arg, b.file, t.get("line")))
    ctx.floor(r, n, 2, "CSV reader/writer constructions")
    for meth, sites in sorted(opts["Reader"].items()):
        for bid, arg, file, line in sites:
            if meth in READER_ONLY:
                if meth == "trim" and re.search(r"Trim::None|None", arg or ""):
                    continue
                ctx.report(r, "reader-only:" + meth, "%s configures its CSV reader with .%s(..): %s, while the writer emits them as they are: the store read back differs from the one written" % (bid, meth, READER_ONLY[meth]), file, line)
            else:
                w = opts["Writer"].get(meth)
                if not w or any(a != arg for _, a, _, _ in w):
                    ctx.report(r, "one-sided:" + meth, "%s sets the dialect option .%s(..) on the CSV reader only (or with another value than the writer)" % (bid, meth), file, line)
    for meth, sites in sorted(opts["Writer"].items()):
        for bid, arg, file, line in sites:
            rr = opts["Reader"].get(meth)
            if meth in ("quote_style",):
                continue  # how much is quoted does not change what is read
            if not rr or any(a != arg for _, a, _, _ in rr):
                ctx.report(r, "one-sided:" + meth, "%s sets the dialect option .%s(..) on the CSV writer only (or with another value than the reader)" % (bid, meth), file, line)


# ---------------------------------------------------------------------- IDCOL
DROPPING = {"filter": "may turn Some(id) into None", "and_then": "may turn Some(id) into None", "take_if": "may turn Some(id) into None", "xor": "may turn Some(id) into None",
            "filter_map": "may drop the id", "zip": "None when the other side is None"}


def idcol_rule(ctx, syn):
    """the Id column of every CSV row is the item's own identifier, unconditionally"""
    r = ctx.rule("C15.IDCOL", "the Id column of a CSV row is the item's identifier whenever it has one: the writer never passes it through an adaptor that can drop it (the reader would invent or derive another identifier)")
    n = 0
    for fn in syn.fns:
        if fn.file != "src/csv.rs" or not fn.body:
            continue
        for lit in walk(fn.body):
            if lit.get("k") != "structlit" or not lit["path"][-1].endswith("Csv"):
                continue
            for f in lit["fields"]:
                if f["name"] != "id":
                    continue
                n += 1
                key = "%s|%s#%d" % (fn.qual, lit["path"][-1], n)
                r.hit(key, sample={"row": lit["path"][-1], "id": unparse(f["e"])[:70]})
                for m in walk(f["e"]):
                    if m.get("k") == "mcall" and m["method"] in DROPPING:
                        ctx.report(r, "%s|%s|%s" % (fn.qual, lit["path"][-1], m["method"]), "the writer of %s rows passes the identifier through .%s(..), which %s: an item that has a public identifier is written without it and comes back under a different one (references to it no longer resolve)" % (lit["path"][-1], m["method"], DROPPING[m["method"]]), fn.file, m.get("l"))
    ctx.floor(r, n, 8, "Id columns written")


# ---------------------------------------------------------------------- TEXTLEN
def textlen_rule(ctx, prog):
    """end-aligned offsets (written verbatim) are resolved against the text length of the reloaded resource: it must be
    a codepoint count wherever a resource is constructed"""
    import units
    r = ctx.rule("C15.TEXTLEN", "wherever a TextResource is built (also from a plain text file, the path every CSV store is read back through), textlen and every stored position is a codepoint count, never a byte count")
    v, st = units.analyse(prog, lambda b: b.file in ("src/resources.rs", "src/csv.rs"))
    r.instances += st["locals_with_unit"]
    import json as _json, os as _os
    from core import VERIF
    with open(_os.path.join(VERIF, "rules", "units_ok.json")) as fh:
        okk = _json.load(fh)
    for x in v:
        if x["key"] in okk:
            continue
        ctx.report(r, x["key"], "unit mismatch in %s: %s" % (x["body"], x["detail"]), x["file"], x["line"])
    ctx.floor(r, st["bodies"], 100, "bodies of resources.rs / csv.rs analysed")


# ---------------------------------------------------------------------- WORKDIR
def workdir_rule(ctx, syn, rid="C15.WORKDIR"):
    """The Filename column of the manifest is filename_without_workdir(filename); the reader resolves it with
    get_filepath: an absolute name as it is, a relative one against the directory of the manifest.  Writer and reader
    agree iff the stripped name resolves to the file the full name names.  filename_without_workdir is evaluated from
    its syntax tree on a grid of working directories (none, empty - a store saved under a plain file name -, absolute
    with and without trailing separator) and file names (inside, outside, a sibling directory that shares the prefix)."""
    from formula import Evaluator, StructVal, Unknown, Panic, some, is_some, fmt, match_pat
    r = ctx.rule(rid, "filename_without_workdir(f) resolves (get_filepath: absolute as it is, relative against the working directory) to the file f names, for every working directory / file name on the grid")
    fns = [f for f in syn.fns if f.qual == "file::filename_without_workdir" and f.body is not None]
    if len(fns) != 1:
        ctx.anchor_missing(r, "file::filename_without_workdir")
        return
    fn = fns[0]
    ctx.functions_analysed.add(fn.qual)

    def chars_of(a):
        if isinstance(a, list) and all(isinstance(c, str) for c in a):
            return tuple(a)
        if isinstance(a, tuple) and all(isinstance(c, str) for c in a):
            return a
        if isinstance(a, str):
            return None
        return NotImplemented

    def h_starts(ends):
        def h(ev, recv, args, node, env):
            if isinstance(recv, str) and len(args) == 1:
                cs = chars_of(args[0])
                if cs is NotImplemented:
                    return NotImplemented
                if cs is None:
                    return recv.endswith(args[0]) if ends else recv.startswith(args[0])
                return bool(recv) and (recv[-1] if ends else recv[0]) in cs
            return NotImplemented
        return h

    def h_trim(ev, recv, args, node, env):
        if isinstance(recv, str) and len(args) == 1:
            cs = chars_of(args[0])
            if cs is NotImplemented:
                return NotImplemented
            m = node["method"]
            if cs is None:
                cs = (args[0],)
                if len(args[0]) != 1:
                    return NotImplemented
            out = recv
            if m in ("trim_start_matches", "trim_matches"):
                out = out.lstrip("".join(cs))
            if m in ("trim_end_matches", "trim_matches"):
                out = out.rstrip("".join(cs))
            return out
        return NotImplemented

    def h_strip_prefix(ev, recv, args, node, env):
        if isinstance(recv, str) and len(args) == 1:
            cs = chars_of(args[0])
            if cs is None:
                return some(recv[len(args[0]):]) if recv.startswith(args[0]) else None
            if cs is not NotImplemented:
                return some(recv[1:]) if recv and recv[0] in cs else None
        return NotImplemented

    def h_workdir(ev, recv, args, node, env):
        if isinstance(recv, StructVal) and recv.tyname == "Config":
            return recv["workdir"]
        return NotImplemented

    def h_map(ev, recv, args, node, env):
        if (recv is None or is_some(recv)) and args and isinstance(args[0], tuple) and args[0] and args[0][0] == "closure":
            if recv is None:
                return None
            clo = args[0][1]
            b_ = {}
            if len(clo["inputs"]) != 1 or not match_pat(clo["inputs"][0], recv[1], b_):
                raise Unknown("closure parameter pattern")
            env2 = dict(env)
            env2.update(b_)
            return some(ev.eval(clo["body"], env2))
        return NotImplemented

    def h_to_str(ev, recv, args, node, env):
        return some(recv) if isinstance(recv, str) and not args else NotImplemented

    def h_expect(ev, recv, args, node, env):
        if recv is None:
            raise Panic("expect-on-none", node.get("l"))
        return recv[1] if is_some(recv) else NotImplemented

    def h_unwrap_or(ev, recv, args, node, env):
        if recv is None:
            return args[0]
        return recv[1] if is_some(recv) else NotImplemented

    hooks = {"starts_with": h_starts(False), "ends_with": h_starts(True), "trim_start_matches": h_trim, "trim_end_matches": h_trim, "trim_matches": h_trim,
             "strip_prefix": h_strip_prefix, "workdir": h_workdir, "map": h_map, "to_str": h_to_str, "to_string_lossy": lambda ev, recv, args, node, env: recv if isinstance(recv, str) else NotImplemented,
             "expect": h_expect, "unwrap_or": h_unwrap_or, "as_path": lambda ev, recv, args, node, env: recv if isinstance(recv, str) else NotImplemented}

    def resolve(name, wd):
        full = name if name.startswith("/") or not wd else wd + "/" + name   # Path::join: an empty base leaves the name as it is
        absolute = full.startswith("/")
        return absolute, [c for c in full.split("/") if c not in ("", ".")]

    def show(res):
        return ("/" if res[0] else "<current directory>/") + "/".join(res[1])

    workdirs = [None, "", "/w", "/w/", "/data/proj"]
    names = ["f.txt", "sub/f.txt", "/w/f.txt", "/w/sub/f.txt", "/wf.txt", "/w2/f.txt", "/a/b.txt", "/data/proj/x.txt", "/data/proj2/x.txt", "/data/x.txt"]
    n = 0
    reported = set()
    for wd in workdirs:
        for name in names:
            cfg = StructVal("Config", {"workdir": None if wd is None else some(wd)})
            ev = Evaluator(hooks=hooks)
            try:
                got = ev.run_body(fn.body, {"filename": name, "config": cfg})
            except (Unknown, Panic) as ex:
                if "unevaluated" not in reported:
                    reported.add("unevaluated")
                    ctx.report(r, "unevaluated", "filename_without_workdir could not be evaluated on (%r, workdir %r): %s - the agreement of manifest writer and reader on file names is not established" % (name, wd, ex), fn.file, fn.line)
                continue
            n += 1
            r.obligations += 1
            ok_ = isinstance(got, str) and resolve(got, wd) == resolve(name, wd)
            if ok_:
                r.discharged += 1
                continue
            kind = "empty-workdir" if wd == "" else "outside" if not (wd and name.startswith(wd.rstrip("/") + "/")) else "inside"
            if kind == "outside" and wd and name.startswith(wd.rstrip("/")):
                kind = "prefix-sibling"
            if kind not in reported:
                reported.add(kind)
                ctx.report(r, kind, "filename_without_workdir(%r) with working directory %r gives %r, which the reader resolves to %s - not the file that was written (%s): a store written with such a stand-off file (CSV manifest row, JSON @include) does not load again" % (name, wd, got, show(resolve(got, wd)) if isinstance(got, str) else "?", show(resolve(name, wd))), fn.file, fn.line, {"filename": name, "workdir": wd, "got": got})
    r.hit("filename_without_workdir", sample={"grid": "%d working directories x %d file names" % (len(workdirs), len(names)), "evaluated": n})
    ctx.floor(r, n, 40, "evaluations of filename_without_workdir")


# ---------------------------------------------------------------------- ROWORDER
def csvorder_rule(ctx, syn, rid="C15.ROWORDER"):
    """items without a public id are written - and referred to from the annotations table - by temporary ids that are
    their handles (`!D4`), and the reader hands out handles by row position.  So the dataset table has to list keys and
    data in store order: each serialising loop of AnnotationDataSet::to_csv_writer iterates self.keys() / self.data()
    directly, with no grouping, sorting, filtering or other re-ordering adaptor in between."""
    r = ctx.rule(rid, "AnnotationDataSet::to_csv_writer writes its rows in store order: the loops that serialise rows run over self.keys() and self.data() themselves")
    fns = [f for f in syn.fns if f.name == "to_csv_writer" and f.file == "src/csv.rs" and (f.self_ty or "") == "AnnotationDataSet" and f.body is not None]
    if len(fns) != 1:
        ctx.anchor_missing(r, "ToCsv for AnnotationDataSet::to_csv_writer")
        return
    fn = fns[0]
    ctx.functions_analysed.add(fn.qual)
    loops = [lp for lp in walk(fn.body) if lp.get("k") == "for" and any(c.get("k") == "mcall" and c["method"] == "serialize" for c in walk(lp["body"]))]
    n = 0
    for lp in loops:
        n += 1
        src = unparse(lp["iter"]).replace(" ", "")
        if re.fullmatch(r"\w+", src):
            # a local: judge what it was bound to
            for st_ in walk(fn.body):
                if st_.get("k") == "let" and st_["pat"].get("name") == src and st_.get("init") is not None:
                    src = unparse(st_["init"]).replace(" ", "")
        r.hit("loop#%d" % n, sample={"iterates": src[:60]})
        if src not in ("self.keys()", "self.data()"):
            ctx.report(r, "loop:%s" % re.sub(r"[^A-Za-z_.()]", "", src)[:40], "AnnotationDataSet::to_csv_writer serialises rows from `%s` instead of the store itself: rows no longer come in handle order, so the temporary ids (`!D<n>`) the annotations table uses for items without a public id denote other rows after loading" % src[:70], fn.file, lp.get("l"))
    ctx.floor(r, n, 2, "row-writing loops of the dataset table")


# ---------------------------------------------------------------------- VALUETEXT
def csvvalue_rule(ctx, syn, rid="C15.VALUETEXT"):
    """the dataset table has no type column: the Value column is the text of the value, and the reader has to take it as
    that text (`record.value.into()`, a String value) - any interpretation (numbers, booleans) changes texts such as
    `007` or `+31`."""
    r = ctx.rule(rid, "the CSV reader of a dataset takes the Value column as it is (record.value converted with into()/String), without parsing it into another type")
    fns = [f for f in syn.fns if f.name == "from_csv_reader" and f.file == "src/csv.rs" and (f.self_ty or "") == "AnnotationDataSet" and f.body is not None]
    if len(fns) != 1:
        ctx.anchor_missing(r, "FromCsv for AnnotationDataSet::from_csv_reader")
        return
    fn = fns[0]
    ctx.functions_analysed.add(fn.qual)
    inits = [f_ for lit in walk(fn.body) if lit.get("k") == "structlit" for f_ in lit["fields"] if f_["name"] == "value"]
    n = 0
    for f_ in inits:
        src = unparse(f_["e"]).replace(" ", "")
        if "record.value" not in src:
            continue
        n += 1
        okv = src in ("record.value.into()", "record.value", "DataValue::String(record.value)", "DataValue::String(record.value.into())", "record.value.to_string().into()", "DataValue::from(record.value)")
        r.hit("value#%d" % n, sample={"value_init": src[:60]})
        if not okv:
            ctx.report(r, "interpreted", "the CSV reader builds a data value with `%s`: the text of the Value column is interpreted instead of kept, so values like `007`, `+31` or `-0` come back as other text" % src[:60], fn.file, f_.get("l"))
    ctx.floor(r, n, 1, "value initialisations from the Value column")
