"""C02 removal cascades exactly and leaves no dangling references: structural clauses.

CASC   cascade coverage matrix derived from the index field types
PRED   Annotation::remove_data keeps exactly the pairs that differ from (set, data)
STRICT non-strict remove_data drops the annotation only when no data is left
ROUTE  DELETE queries consume every collection of handles they gather
PANIC  removal entry points reach no undischarged panic source"""
import re
import mirq
from synq import Syn, walk, find, unparse, strip, norm_ty
from formula import Evaluator, Unknown, Panic
from props.c09 import total_rule, load_safe
from props.c01 import self_field

# handle type -> (description, how to find the removal routine)
ROUTINES = {
    "TextResourceHandle": ("resource", ("preremove", "AnnotationStore", "private::StoreCallbacks<TextResource>")),
    "AnnotationHandle": ("annotation", ("preremove", "AnnotationStore", "private::StoreCallbacks<Annotation>")),
    "AnnotationDataSetHandle": ("dataset", ("preremove", "AnnotationStore", "private::StoreCallbacks<AnnotationDataSet>")),
    "DataKeyHandle": ("key", ("remove_key", "AnnotationStore", None)),
    "AnnotationDataHandle": ("data", ("remove_data", "AnnotationStore", None)),
}
# (kind, index) pairs where a different, complete source of the same dependents is consulted instead
SUBSTITUTE = {
    ("dataset", "dataset_data_annotation_map"): "full scan of every annotation's data() (no reverse index from set to annotations)",
    ("key", "dataset_data_annotation_map"): "goes through remove_data for every data item of the key (key_data_map)",
}
REMOVAL_ROOTS = r"^annotationstore::AnnotationStore::(remove_annotation|remove_resource|remove_dataset|remove_data|remove_key)$|^store::StoreFor::remove$"


def run(ctx):
    syn = Syn(ctx.facts.syn())
    prog = mirq.Program(ctx.facts.mir())
    ctx.not_decided += ["exactness of the cascade for every store shape (only coverage of the dependency indices is decided)", "that every surviving reference resolves (the expect(\"handle must be valid\") sites are sound only under this property)"]

    # the cascades find dependents through the reverse indices only: a forward data reference written without its index entry is invisible to them
    from props.c01 import lowlevel_rule
    lowlevel_rule(ctx, prog, rid="C02.INDEXED")
    from props.c01 import triple_rule
    triple_rule(ctx, syn, rid="C02.TRIPLE")   # the metadata cascades read and clear rows of these maps
    from props.c01 import row_rule
    row_rule(ctx, syn, rid="C02.ROW")   # un-indexing a removed item removes exactly its own relation from each row
    rank_rule(ctx, syn)
    revisit_rule(ctx, syn)
    live_rule(ctx, prog)
    r_ev, n_ev = every_rule(ctx, prog)
    ctx.floor(r_ev, n_ev, 4, "cascade loops that remove dependents")
    ownrow_rule(ctx, prog)

    # ---------------- CASC
    r_casc = ctx.rule("C02.CASC", "removing an item consults every reverse index that can name an annotation depending on it")
    st = syn.structs.get("AnnotationStore")
    indices = {}
    for f in st["fields"]:
        t = f["ty"]["s"].replace(" ", "")
        m = re.match(r"^(RelationMap|TripleRelationMap|RelationBTreeMap)<(.*)>$", t)
        if m:
            args = m.group(2).split(",")
            if args[-1] == "AnnotationHandle":
                indices[f["name"]] = args[:-1]
    # only indices that inserted() actually maintains (reserved, unused maps are not dependencies)
    ins = syn.fn("inserted", self_ty="AnnotationStore", trait="private::StoreCallbacks<Annotation>")
    live = set()
    for n in walk(ins.body):
        if n.get("k") == "mcall" and n["method"] in ("insert", "extend"):
            f = self_field(n["recv"])
            if f:
                live.add(f)
    indices = {k: v for k, v in indices.items() if k in live}
    ctx.floor(r_casc, len(indices), 7, "reverse indices with annotations as dependents")
    for htype, (kind, (fname, sty, tr)) in ROUTINES.items():
        try:
            fn = syn.fn(fname, self_ty=sty, trait=tr) if tr else syn.fn(fname, self_ty=sty)
        except Exception as e:
            ctx.anchor_missing(r_casc, str(e))
            continue
        ctx.functions_analysed.add(fn.qual)
        mentioned = set()
        for n in walk(fn.body):
            f = self_field(n) if n.get("k") == "field" else None
            if f:
                mentioned.add(f)
        for idx, keys in sorted(indices.items()):
            if htype not in keys:
                continue
            if kind == "annotation" and idx != "annotation_annotation_map":
                continue  # for annotations only the first key position is 'what is targeted'
            k = "%s:%s" % (kind, idx)
            r_casc.hit(k, sample={"removing": kind, "index": idx, "consulted": idx in mentioned})
            if idx in mentioned:
                continue
            if (kind, idx) in SUBSTITUTE:
                continue
            ctx.report(r_casc, k, "removing a %s (%s) never consults %s, which records annotations that depend on it: those annotations survive with a dangling reference" % (kind, fn.qual, idx), fn.file, fn.line)

    # ---------------- AFTER (path rule on the MIR of the two routines that perform the removal themselves)
    r_after = ctx.rule("C02.AFTER", "in remove_key / remove_data no path from the removal of the item itself (StoreFor::remove) to a successful return bypasses the reverse indices that name its dependents: each is consulted before the removal on every path, or after it on every non-error path")
    import json as _json
    n_after = 0
    for htype, (kind, (fname, sty, tr)) in ROUTINES.items():
        if tr:
            continue
        try:
            b = prog.one(r"^annotationstore::AnnotationStore::%s$" % fname)
        except Exception as e:
            ctx.anchor_missing(r_after, str(e))
            continue
        ctx.functions_analysed.add(b.id)
        removals = [bi for bi, t in b.calls() if (mirq.callee_of(t)[0] or "") == "store::StoreFor::remove" and not b.blocks[bi].get("cleanup")]
        errs = set(bi for bi, t in b.calls() if (mirq.callee_of(t)[0] or "").endswith("FromResidual::from_residual"))
        rets = [bi for bi, blk in enumerate(b.blocks) if blk["t"]["t"] == "return"]
        if not removals:
            ctx.anchor_missing(r_after, "call of StoreFor::remove in %s" % fname)
            continue
        for idx, keys in sorted(indices.items()):
            if htype not in keys or (kind, idx) in SUBSTITUTE:
                continue
            # a consultation is a look-up (`get` on the map or on its rows), not any mention of the field (remove_second / remove_all clear rows)
            reads = set(bi for bi, blk in enumerate(b.blocks) if not blk.get("cleanup") and ('"n": "%s"' % idx) in _json.dumps(blk)
                        and blk["t"]["t"] == "call" and re.search(r"::get$", mirq.callee_of(blk["t"])[0] or ""))
            for ri, rb in enumerate(removals):
                n_after += 1
                k = "%s:%s#%d" % (kind, idx, ri + 1)
                before = any(b.dominates(x, rb) for x in reads if x != rb)
                escape = None
                tgt = b.blocks[rb]["t"].get("target")
                if not before and tgt is not None:
                    avoid = reads | errs
                    for rt in rets:
                        if tgt == rt or (tgt not in avoid and b.can_reach(tgt, rt, avoid=avoid)):
                            escape = rt
                            break
                r_after.hit(k, sample={"routine": fname, "index": idx, "removal_block": rb, "consulted_before": before, "bypass": escape is not None})
                if escape is not None:
                    ctx.report(r_after, "%s:%s" % (kind, idx), "%s removes the %s (StoreFor::remove, line %s) and can return successfully without consulting %s on that path: annotations that depend on the removed %s survive with a dangling reference" % (fname, kind, b.blocks[rb]["t"].get("line"), idx, kind), b.file, b.blocks[rb]["t"].get("line"))
    ctx.floor(r_after, n_after, 2, "removal sites x dependency indices")

    # ---------------- REMOVES: once the item is resolved, a successful return means it was removed
    r_rem = ctx.rule("C02.REMOVES", "remove_key / remove_data: from the point where the item's own handle has been resolved (the Some edge of its to_handle) every path to a successful return passes through the removal of the item itself (StoreFor::remove)")
    n_rem = 0
    for htype, (kind, (fname, sty, tr)) in ROUTINES.items():
        if tr:
            continue
        try:
            b = prog.one(r"^annotationstore::AnnotationStore::%s$" % fname)
        except Exception as e:
            ctx.anchor_missing(r_rem, str(e))
            continue
        ths = [bi for bi, t in b.calls() if (mirq.callee_of(t)[0] or "") == "store::Request::to_handle" and not b.blocks[bi].get("cleanup")]
        removals = [bi for bi, t in b.calls() if (mirq.callee_of(t)[0] or "") == "store::StoreFor::remove" and not b.blocks[bi].get("cleanup")]
        errs = set(bi for bi, t in b.calls() if (mirq.callee_of(t)[0] or "").endswith("FromResidual::from_residual"))
        rets = [bi for bi, blk in enumerate(b.blocks) if blk["t"]["t"] == "return"]
        if not ths or not removals:
            ctx.anchor_missing(r_rem, "to_handle / StoreFor::remove in %s" % fname)
            continue
        last_th = max(ths, key=lambda x: b.blocks[x]["t"].get("line") or 0)
        sw = b.blocks[last_th]["t"].get("target")
        swt = b.blocks[sw]["t"] if sw is not None else None
        some_bb = None
        if swt and swt["t"] == "switch":
            for v_, tg_ in swt["targets"]:
                if v_ == 1:
                    some_bb = tg_
        if some_bb is None:
            ctx.anchor_missing(r_rem, "match on the result of the item's to_handle in %s" % fname)
            continue
        # the item's own removal: the StoreFor::remove calls dominated by the Some edge; all of them together must be unavoidable
        own = set(x for x in removals if b.dominates(some_bb, x))
        n_rem += 1
        avoid = own | errs
        leak = None
        for rt in rets:
            if some_bb not in avoid and (some_bb == rt or b.can_reach(some_bb, rt, avoid=avoid)):
                leak = rt
                break
        r_rem.hit(fname, sample={"routine": fname, "resolved_at_block": some_bb, "removal_blocks": sorted(own), "bypass": leak is not None})
        if leak is not None or not own:
            ctx.report(r_rem, fname, "%s can return successfully after the %s has been resolved without having removed it (a path from line %s to the return bypasses StoreFor::remove): the item survives a removal that reported success, and what was cleaned up around it (its key, its index rows) now dangles" % (fname, kind, b.blocks[last_th]["t"].get("line")), b.file, b.blocks[last_th]["t"].get("line"))
    ctx.floor(r_rem, n_rem, 2, "removal routines")

    presence_rule(ctx, prog)

    # ---------------- DEDUP
    r_dedup = ctx.rule("C02.DEDUP", "a cascade that gathers annotation handles from several index rows removes each annotation once (a set), or tolerates repeats (presence test before each removal)")
    n_dd = 0
    for htype, (kind, (fname, sty, tr)) in ROUTINES.items():
        if not tr:
            continue
        fn = syn.fn(fname, self_ty=sty, trait=tr)
        decl = {}
        for n in walk(fn.body):
            if n.get("k") == "let":
                nm = [p["name"] for p in walk(n["pat"]) if p.get("k") == "pat" and p.get("p") == "ident"]
                if nm:
                    ty_ = n["pat"].get("ty", {}).get("s", "") if n["pat"].get("p") == "typed" else ""
                    decl[nm[0]] = (ty_, unparse(n["init"]) if n.get("init") else "", n["l"])
        multi = set()
        for n in walk(fn.body):
            if n.get("k") == "mcall" and n["method"] == "extend" and unparse(n["recv"]) in decl and "flatten()" in unparse(n["args"][0]):
                multi.add(unparse(n["recv"]))
        for v, (ty_, init, line) in decl.items():
            if "flatten()" in init or "flat_map(" in init:
                multi.add(v)
        for lp in find(fn.body, "for"):
            src = unparse(strip(lp["iter"]))
            if src not in multi:
                continue
            if not any(unparse(c["func"]).endswith("::remove") for c in find(lp["body"], "call")) and not any(c["method"] == "remove_annotation_if_present" for c in find(lp["body"], "mcall")):
                continue
            n_dd += 1
            ty_, init, line = decl[src]
            r_dedup.hit("%s:%s" % (kind, src), sample={"routine": fn.qual, "collection": src, "type": ty_ or init})
            guarded_ = any(c["method"] == "remove_annotation_if_present" for c in find(lp["body"], "mcall")) or re.search(r"\bhas\(", unparse(lp["body"]))
            if not re.search(r"(BTreeSet|HashSet)", ty_ + " " + init) and not guarded_:
                ctx.report(r_dedup, "%s:%s" % (kind, src), "%s gathers `%s` from several index rows (flatten) into %s and removes each element: an annotation listed in two rows is removed twice and the second removal fails, aborting the cascade half-way" % (fn.qual, src, ty_ or init or "a list"), fn.file, line)
    ctx.floor(r_dedup, n_dd, 2, "multi-row cascades")

    pred_rule(ctx, syn)
    scope_rule(ctx, prog)
    from props.c01 import multiarms_rule
    multiarms_rule(ctx, syn, rid="C02.MULTIARMS")   # the cascades find dependents through these entries

    # ---------------- STRICT
    r_strict = ctx.rule("C02.STRICT", "in non-strict mode remove_data drops the data reference and removes the annotation only when no data is left")
    rd = syn.fn("remove_data", self_ty="AnnotationStore")
    ctx.functions_analysed.add(rd.qual)
    found = False
    for n in find(rd.body, "if"):
        if unparse(strip(n["cond"])) == "strict" and n.get("else"):
            found = True
            els = n["else"]
            r_strict.hit("else-branch")
            calls = [m["method"] for m in walk(els) if m.get("k") == "mcall"]
            if "remove_data" not in calls:
                ctx.report(r_strict, "no-drop", "the non-strict branch of remove_data does not call Annotation::remove_data", rd.file, n["l"])

            def removals(node, guards):
                k = node.get("k")
                if k == "if":
                    c = unparse(node["cond"], strip_ref=True)
                    removals(node["then"], guards + [c])
                    if node.get("else"):
                        removals(node["else"], guards)
                    return
                if k == "call" and unparse(node["func"]).endswith("::remove"):
                    r_strict.hit("removal")
                    if not any(re.search(r"\(\w*len\w*==0\)|\.len\(\)==0|is_empty\(\)", g) for g in guards):
                        ctx.report(r_strict, "unguarded-removal", "the non-strict branch of remove_data removes the annotation without testing that its remaining data is empty (guards: %s)" % guards, rd.file, node["l"])
                for key, v in node.items():
                    if isinstance(v, dict):
                        removals(v, guards)
                    elif isinstance(v, list):
                        for e in v:
                            if isinstance(e, dict):
                                removals(e, guards)
            removals(els, [])
    if not found:
        ctx.anchor_missing(r_strict, "`if strict {..} else {..}` in AnnotationStore::remove_data")

    # ---------------- ROUTE
    r_route = ctx.rule("C02.ROUTE", "a DELETE query removes every kind of item it collects (no write-only collection), through the store's removal entry points")
    qm = syn.fn("query_mut", self_ty="AnnotationStore")
    ctx.functions_analysed.add(qm.qual)
    decls = {}
    for n in walk(qm.body):
        if n.get("k") == "let" and n.get("init") and unparse(n["init"]) == "Vec::new()":
            nm = [p["name"] for p in walk(n["pat"]) if p.get("k") == "pat" and p.get("p") == "ident"]
            if nm and nm[0].startswith("remove_"):
                decls[nm[0]] = n["l"]
    pushed = set()
    for n in walk(qm.body):
        if n.get("k") == "mcall" and n["method"] == "push" and unparse(n["recv"]) in decls:
            pushed.add(unparse(n["recv"]))
    consumed = {}
    for lp in find(qm.body, "for"):
        it = unparse(strip(lp["iter"]))
        if it in decls:
            rem = [m["method"] for m in walk(lp["body"]) if m.get("k") == "mcall" and m["method"] in ("remove", "remove_key", "remove_data", "remove_annotation", "remove_resource", "remove_dataset", "remove_annotation_if_present")]
            consumed[it] = rem
    for nm in sorted(decls):
        r_route.hit(nm, sample={"collection": nm, "filled": nm in pushed, "consumed_by": consumed.get(nm)})
        if nm in pushed and not consumed.get(nm):
            ctx.report(r_route, "write-only:" + nm, "query_mut DELETE fills `%s` from the query results but never removes those items: the DELETE query silently does nothing for that result type" % nm, qm.file, decls[nm])
    ctx.floor(r_route, len(decls), 5, "DELETE collections")

    # ---------------- PANIC
    r_panic = ctx.rule("C02.PANIC", "removal succeeds whenever the item exists: no undischarged panic source reachable from the removal entry points")
    roots = [b.id for b in prog.find_bodies(REMOVAL_ROOTS)]
    if len(roots) < 6:
        ctx.anchor_missing(r_panic, "removal entry points (found %d)" % len(roots))
    total_rule(ctx, r_panic, prog, roots, load_safe("C02"), 40, 10)


# ---------------------------------------------------------------------- RANK
DROPPING = {"flatten", "filter", "filter_map", "flat_map", "skip", "skip_while", "step_by", "rev", "take_while", "dedup", "chain", "zip"}


def rank_rule(ctx, syn):
    """a handle is the index of a slot in its store.  An index counted by enumerate() *after* the iteration
    dropped, skipped or reordered slots (flatten() over Option slots skips tombstones) is a rank, not a
    handle: every handle built from such a counter names the wrong item as soon as the store has a gap"""
    from synq import walk, find, unparse, strip, pat_names
    r = ctx.rule("C02.RANK", "no handle is built from an enumerate() counter that was taken after the iteration dropped or reordered slots")
    n_enum = 0
    for f in syn.fns:
        if f.body is None or f.file == "src/tests.rs":
            continue
        # every enumerate() call: the chain before it, and the names its counter is bound to
        for c in find(f.body, "mcall"):
            if c["method"] != "enumerate":
                continue
            n_enum += 1
            before = []
            cur = strip(c["recv"])
            while cur.get("k") == "mcall":
                before.append(cur["method"])
                cur = strip(cur["recv"])
            dropped = [m for m in before if m in DROPPING]
            r.hit("%s|enumerate#%d" % (f.qual, n_enum), sample={"function": f.qual, "chain_before_enumerate": list(reversed(before))[:6]} if dropped else None)
            if not dropped:
                continue
            # counters: first component of tuple patterns of closures downstream / of the for loop over it
            counters = set()
            for nd in walk(f.body):
                if nd.get("k") == "for" and contains_node(nd["iter"], c):
                    counters.update(first_of_tuple(nd["pat"]))
                if nd.get("k") == "mcall" and contains_node(nd["recv"], c):
                    for a in nd["args"]:
                        a0 = strip(a)
                        if a0.get("k") == "closure" and a0["inputs"]:
                            counters.update(first_of_tuple(a0["inputs"][0]))
            if not counters:
                continue
            for call in find(f.body, "call"):
                fn = unparse(call["func"])
                if re.search(r"(Handle|HandleType)::new$", fn) and call["args"]:
                    used = [n_["path"][0] for n_ in walk(call["args"][0]) if n_.get("k") == "path" and len(n_["path"]) == 1]
                    hit = [u for u in used if u in counters]
                    if hit:
                        ctx.report(r, "%s|%s(%s)" % (f.qual, fn, dropped[0]), "%s builds %s(%s) from an enumerate() counter taken after .%s(): with a tombstone (or any dropped slot) before it the counter is the rank among the remaining items, not the handle, so a different item is addressed" % (f.qual, fn, hit[0], dropped[0]), f.file, call.get("l"))
    ctx.floor(r, n_enum, 30, "enumerate() sites")


def contains_node(tree, node):
    from synq import walk
    return any(n is node for n in walk(tree))


def first_of_tuple(pat):
    from synq import pat_names
    p = pat
    while p.get("p") in ("ref", "typed"):
        p = p["pat"]
    if p.get("p") == "tuple" and p.get("elems"):
        return pat_names(p["elems"][0])
    return []


# ---------------------------------------------------------------------- LIVE
def live_rule(ctx, prog):
    """a loop that looks an index row up (`self.<index>.get(..)`) on every iteration while its body calls
    something that may remove from that same index walks a collection that shrinks under it: every second
    item is skipped.  Sound loops take a snapshot (clone / collect) before they start."""
    from effects import param_field_effects
    r = ctx.rule("C02.LIVE", "no loop re-reads a reverse-index row that a call in the same loop may shrink")
    eff = param_field_effects(prog)
    # transitive: body -> set of (adt, field) it may write through its &mut parameters
    edges = prog.edges()
    trans = dict((b, set(f for f in fl)) for b, fl in eff.items())
    changed = True
    rounds = 0
    while changed and rounds < 30:
        changed = False
        rounds += 1
        for a, bs in edges.items():
            cur = trans.setdefault(a, set())
            before = len(cur)
            for x in bs:
                cur |= trans.get(x, set())
            if len(cur) != before:
                changed = True
    INDEX_RX = re.compile(r"RelationMap|RelationBTreeMap")
    n_loops = 0
    for bid, b in sorted(prog.bodies.items()):
        if b.d.get("derived") or not (b.file or "").startswith("src/") or (b.file or "").endswith("tests.rs"):
            continue
        if "AnnotationStore" not in bid and "annotationstore" not in bid:
            continue
        dom = b.dominators()
        heads = {}
        for x in b.reachable_blocks():
            for s_ in b.succs(x):
                if s_ in dom.get(x, ()):
                    heads.setdefault(s_, []).append(x)
        li = 0
        for h in sorted(heads):
            loop = {h}
            st = list(heads[h])
            while st:
                y = st.pop()
                if y in loop:
                    continue
                loop.add(y)
                st.extend(p_ for p_ in b.preds(y))
            li += 1
            reads = {}
            writes = {}
            for y in loop:
                t = b.blocks[y]["t"]
                if t["t"] != "call":
                    continue
                decl, res, info = mirq.callee_of(t)
                nm = res or decl or ""
                # a row look-up on an index field of self
                if re.search(r"(RelationMap|RelationBTreeMap)::<.*>::get$|(RelationMap|RelationBTreeMap)<.*>::get$", nm) or re.search(r"store::(Triple)?Relation(BTree)?Map.*::get$", nm):
                    fld = None
                    if t.get("args"):
                        for key in b.provenance(t["args"][0]):
                            m = re.search(r"\.(\w+)$", key)
                            if m:
                                fld = m.group(1)
                    recv = field_of_receiver(b, t)
                    if recv:
                        reads.setdefault(recv, t.get("line"))
                for tgt in prog.call_targets(b, t):
                    for (adt, f_) in trans.get(tgt, ()):
                        if adt == "annotationstore::AnnotationStore":
                            writes.setdefault(f_, (mirq.short_fn(decl or tgt), t.get("line")))
            if reads:
                n_loops += 1
                key0 = "%s|loop#%d" % (bid, li)
                r.hit(key0, sample={"loop": key0, "index_rows_read": sorted(reads), "may_write": sorted(set(writes) & set(reads))})
            for f_ in sorted(set(reads) & set(writes)):
                ctx.report(r, "%s|%s" % (bid, f_), "%s looks up a row of `%s` inside a loop (line %s) whose body calls %s (line %s), which may remove entries from that same index: the row shrinks while it is being walked by position, so items are skipped and survive with dangling references" % (
                    bid, f_, reads[f_], writes[f_][0], writes[f_][1]), b.file, reads[f_], {"field": f_})
    r.notes.append("loops that look up an index row: %d" % n_loops)


def field_of_receiver(b, t):
    """name of the AnnotationStore field whose method is called (receiver = &(*self).field)"""
    if not t.get("args"):
        return None
    p = mirq.op_place(t["args"][0])
    seen = set()
    depth = 0
    while p is not None and depth < 8:
        for e in p["p"]:
            if isinstance(e, dict) and "f" in e and e.get("a") == "annotationstore::AnnotationStore":
                return e.get("n")
        l = p["l"]
        if l in seen:
            break
        seen.add(l)
        ds = [d for d in b.defs().get(l, []) if d[2] != "partial"]
        if not ds:
            break
        bi, si, kind, payload = ds[0]
        if kind != "assign":
            break
        rv = payload
        q = rv.get("p") if rv.get("r") in ("ref", "rawptr") else None
        if q is None:
            for o in mirq._operands_of_rvalue(rv):
                q = mirq.op_place(o)
                if q:
                    break
        p = q
        depth += 1
    return None


# ---------------------------------------------------------------------- REVISIT
def revisit_rule(ctx, syn):
    """cascade loops walk a snapshot of dependent annotations; a dependent that a nested cascade already
    removed must be skipped (liveness test), not removed again with `?` - that aborts the removal half-way"""
    from synq import find, unparse, strip, pat_names, walk
    r = ctx.rule("C02.REVISIT", "every cascade loop that removes the annotations of a snapshot tests that each is still present (a nested cascade may have removed it)")
    n = 0
    for f in syn.fns:
        if f.file != "src/annotationstore.rs" or f.body is None:
            continue
        for lp in find(f.body, "for"):
            vars_ = pat_names(lp["pat"])
            for c in find(lp["body"], "call"):
                fn = re.sub(r"\s+", "", c["func"].get("s", "")) or unparse(c["func"])
                if not re.search(r"StoreFor<Annotation>::remove$", fn) or len(c["args"]) != 2:
                    continue
                arg = unparse(strip(c["args"][1]))
                if arg not in vars_:
                    continue
                n += 1
                # guarded by `if ... has(self, x)` somewhere between the loop and the call?
                guarded = False
                for nd in find(lp["body"], "if"):
                    if any(x is c for x in walk(nd["then"])) and re.search(r"\bhas\((self,)?%s\)|\.has\(%s\)" % (arg, arg), unparse(nd["cond"])):
                        guarded = True
                # an annotation the loop body has just fetched and edited: whether that fetch established presence in the same
                # iteration is decided on the MIR by C02.PRESENT (this syntactic rule once trusted it blindly and hid a defect)
                edited = re.search(r"get_mut\(%s\)" % arg, unparse(lp["body"])) is not None and "postlen" in unparse(lp["body"])
                key = "%s|loop-over:%s" % (f.qual, re.sub(r"\W+", "_", unparse(lp["iter"]))[:40])
                r.hit(key, sample={"function": f.qual, "iterates": unparse(lp["iter"])[:50], "guarded": guarded or edited})
                if not (guarded or edited):
                    ctx.report(r, key, "%s removes every annotation of the snapshot `%s` with `remove(self, %s)?` without testing that it is still present: when a nested cascade already removed one of them (an annotation depending on the item via two paths) the removal fails with NotFoundError half-way" % (f.qual, unparse(lp["iter"])[:50], arg), f.file, c.get("l"))
        for c in find(f.body, "mcall"):
            if c["method"] == "remove_annotation_if_present":
                n += 1
                r.hit("%s|guarded-helper#%d" % (f.qual, n))
    helper = [f for f in syn.fns if f.name == "remove_annotation_if_present" and f.body is not None]
    if helper:
        src = unparse(helper[0].body)
        ctx.functions_analysed.add(helper[0].qual)
        r.hit("helper")
        if not re.search(r"if .*has\(self,handle\)", src.replace(" ", "")) and "has(" not in src:
            ctx.report(r, "helper-unguarded", "remove_annotation_if_present no longer tests presence before removing", helper[0].file, helper[0].line)
    ctx.floor(r, n, 6, "cascade removals of snapshot members")


# ---------------------------------------------------------------------- PRESENT
def presence_rule(ctx, prog):
    """In a loop that removes annotations, the removal of one annotation cascades to the annotations that depend on it.
    A handle taken from a list made before the loop may therefore be dead when its turn comes: an access that requires
    presence (StoreFor::<Annotation>::remove / get / get_mut propagated with `?`) aborts the whole operation half-way."""
    r = ctx.rule("C02.PRESENT", "inside a loop in which annotations are removed, no annotation handle from a list made earlier is accessed or removed with `?` unless the same iteration has established that it is still present (has() / a successful get) with no removal in between")
    ANN = "annotation::Annotation"

    def is_ann(t, names):
        d, res, info = mirq.callee_of(t)
        return bool(d and re.search(r"^store::StoreFor::(%s)$" % "|".join(names), d) and len(info.get("ga") or []) > 1 and info["ga"][1] == ANN)
    n = 0
    for bid, b in sorted(prog.bodies.items()):
        if b.d.get("derived"):
            continue
        calls = list(b.calls())
        removers = [bi for bi, t in calls if not b.blocks[bi].get("cleanup") and (re.search(r"^store::StoreFor::remove$", mirq.callee_of(t)[0] or "") or re.search(r"AnnotationStore::(remove_annotation_if_present|remove_annotation|remove_resource|remove_dataset|remove_data|remove_key)$", mirq.callee_of(t)[0] or ""))]
        if not removers:
            continue
        for bi, t in calls:
            if b.blocks[bi].get("cleanup") or not is_ann(t, ("remove", "get", "get_mut")) or not b.can_reach(bi, bi):
                continue
            # is the result propagated with `?` (next call is Try::branch on the destination)?
            tgt = t.get("target")
            nxt = b.blocks[tgt]["t"] if tgt is not None else None
            if not (nxt and nxt["t"] == "call" and (mirq.callee_of(nxt)[0] or "").endswith("Try::branch")):
                continue
            before = [x for x in removers if x == bi or b.can_reach(x, bi)]
            if not before:
                continue
            n += 1
            key_h = b.key_of_operand(t["args"][1]).lstrip("&*") if len(t.get("args", [])) > 1 else "?"
            # established present in this iteration: a dominating has()/get()/get_mut() on the same handle with no remover in between
            ok = False
            for gi, g in calls:
                if gi == bi or not b.dominates(gi, bi) or not is_ann(g, ("has", "get", "get_mut")):
                    continue
                if len(g.get("args", [])) < 2 or b.key_of_operand(g["args"][1]).lstrip("&*") != key_h:
                    continue
                between = [x for x in removers if x not in (gi, bi) and b.can_reach(gi, x, avoid={bi}) and b.can_reach(x, bi, avoid={gi})]
                if not between:
                    ok = True
            name = (mirq.callee_of(t)[0] or "").split("::")[-1]
            k = "%s|%s(%s)" % (bid, name, key_h)
            r.hit(k, sample={"in": bid, "access": name, "handle": key_h, "established_present": ok})
            if not ok:
                ctx.report(r, k, "%s calls StoreFor::<Annotation>::%s(%s)? inside a loop in which annotations are removed: when an earlier removal has cascaded to this annotation (it depends on one removed before it) the call fails and the operation stops half-way, leaving the store partly changed" % (bid, name, key_h), b.file, t.get("line"))
    ctx.floor(r, n, 1, "presence-requiring accesses inside removal loops")


def pred_rule(ctx, syn, rid="C02.PRED"):
    """Annotation::remove_data: the retain predicate evaluated on the four (set equal?, data equal?) cases"""
    r_pred = ctx.rule(rid, "Annotation::remove_data keeps an entry iff it differs from the removed (set, data) pair")
    ard = syn.fn("remove_data", self_ty="Annotation")
    ctx.functions_analysed.add(ard.qual)
    params = [i["pat"].get("name") for i in ard.sig["inputs"]]
    rets = [n for n in walk(ard.body) if n.get("k") == "mcall" and n["method"] == "retain"]
    if len(rets) != 1 or len(params) != 2 or not rets[0]["args"] or rets[0]["args"][0].get("k") != "closure":
        ctx.anchor_missing(r_pred, "self.data.retain(|(s, d)| ..) in Annotation::remove_data")
    else:
        cl = rets[0]["args"][0]
        from formula import match_pat
        probe = {}
        try:
            shape_ok = bool(cl["inputs"]) and match_pat(cl["inputs"][0], (0, 0), probe)
        except Unknown:
            shape_ok = False
        if not shape_ok:
            ctx.anchor_missing(r_pred, "closure parameter of retain: a pattern over the (set, data) pair")
        else:
            for s in (0, 1):
                for d in (0, 1):
                    env = {params[0]: 0, params[1]: 0}
                    match_pat(cl["inputs"][0], (s, d), env)   # a wildcard binds nothing: the predicate then ignores that half
                    r_pred.hit("s%s=set,d%s=data" % ("=" if s == 0 else "!", "=" if d == 0 else "!"))
                    try:
                        keep = Evaluator().eval(cl["body"], env)
                    except (Unknown, Panic) as e:
                        ctx.report(r_pred, "uninterpretable", "the retain predicate is outside the comparison vocabulary (%s)" % e, ard.file, cl["l"])
                        break
                    want = not (s == 0 and d == 0)
                    if keep != want:
                        ctx.report(r_pred, "truth-table", "retain predicate `%s` %s an entry with set %s and data %s the removed pair; it must keep exactly the entries that differ from (set, data)" % (
                            unparse(cl["body"]), "keeps" if keep else "drops", "==" if s == 0 else "!=", "==" if d == 0 else "!="), ard.file, cl["l"], {"s_equal": s == 0, "d_equal": d == 0, "keeps": keep})



# ---------------------------------------------------------------------- SCOPE
def scope_rule(ctx, prog, rid="C02.SCOPE"):
    """removing one key or one data item clears that item's row of the metadata indices (TripleRelationMap: set -> item ->
    annotations) and nothing else: the clean-up is remove_second(set, item).  remove_all(set) is the clean-up of a whole
    dataset - in remove_key / remove_data it wipes the rows of the sibling keys and data, whose annotations then
    disappear from the reverse look-ups although they are alive."""
    r = ctx.rule(rid, "remove_key and remove_data clear index rows with TripleRelationMap::remove_second(set, item) only; no set-wide remove_all on a triple map is reachable in them")
    n = 0
    for name in ("remove_key", "remove_data"):
        bs = prog.find_bodies(r"^annotationstore::AnnotationStore::%s$" % name)
        if len(bs) != 1:
            ctx.anchor_missing(r, "AnnotationStore::" + name)
            continue
        b = bs[0]
        ctx.functions_analysed.add(b.id)
        sec = [t for _, t in b.calls() if re.search(r"store::TripleRelationMap::<.*>::remove_second$", mirq.callee_of(t)[0] or "")]
        alls = [t for _, t in b.calls() if re.search(r"store::TripleRelationMap::<.*>::(remove_all|clear)$", mirq.callee_of(t)[0] or "")]
        n += len(sec)
        r.hit(name, sample={"fn": name, "row_cleanups": len(sec), "set_wide_cleanups": len(alls)})
        for t in alls:
            ctx.report(r, "%s|set-wide" % name, "AnnotationStore::%s clears a metadata index with %s(set): the rows of every other key / data item of that dataset go with it, so live annotations about them vanish from annotations_as_metadata() and a later removal does not cascade to them" % (name, (mirq.callee_of(t)[0] or "").split("::")[-1]), b.file, t.get("line"))
        if not sec:
            ctx.report(r, "%s|no-row-cleanup" % name, "AnnotationStore::%s no longer clears the item's own row of the metadata index (remove_second)" % name, b.file, b.line)
    ctx.floor(r, n, 2, "row clean-ups")


# ---------------------------------------------------------------------- EVERY
def every_rule(ctx, prog, rid="C02.EVERY", only=None):
    """a cascade walks a row of a reverse index (or the data of a key) and removes every dependent it finds there.
    In the MIR of each removal routine, a loop whose body calls a removal routine must call it on every path from the
    head of the body back to the loop head: a filter in front of the call (`only if something refers to it`) leaves
    dependents behind that the cascade was supposed to take along."""
    r = ctx.rule(rid, "in the removal routines, a loop over dependents that removes them removes every one: no path through the loop body returns to the loop head without the removal call")
    bodies = [b for bid, b in sorted(prog.bodies.items()) if re.search(r"^annotationstore::AnnotationStore::remove_(key|data|annotation|resource|dataset)$|::preremove$", bid) and not b.d.get("derived")]
    if only:
        bodies = [b for b in bodies if re.search(only, b.id)]
    loops = 0
    for b in bodies:
        ctx.functions_analysed.add(b.id)
        for L, t in b.calls():
            if b.blocks[L].get("cleanup") or not (mirq.callee_of(t)[0] or "").endswith("Iterator::next"):
                continue
            # the blocks of the loop: reachable from the head and able to come back to it
            inloop = set(x for x in b.reachable_blocks() if x != L and b.can_reach(L, x) and b.can_reach(x, L))
            rm = sorted(bi for bi, t2 in b.calls() if bi in inloop and re.search(r"(^|::)remove(_\w+)?$", (mirq.callee_of(t2)[0] or "").split("<")[0]) and not re.search(r"^(std|core|alloc)::", mirq.callee_of(t2)[0] or ""))
            if not rm:
                continue
            loops += 1
            names = sorted(set(mirq.short_fn(mirq.callee_of(b.blocks[x]["t"])[0]) for x in rm))
            r.hit("%s|%s" % (mirq.short_fn(b.id), ",".join(names)), sample={"routine": b.id, "removes_with": names, "loop_head_line": t.get("line")})
            # a dependent that an earlier iteration's cascade has already taken along is skipped: the arm of a failed
            # StoreFor::get / get_mut of the dependent from which no removal call is reachable any more
            gone = set()
            for G, t3 in b.calls():
                if G in inloop and (mirq.callee_of(t3)[0] or "") in ("store::StoreFor::get_mut", "store::StoreFor::get") and "target" in t3:
                    W = t3["target"]
                    for _ in range(4):
                        if b.blocks[W]["t"]["t"] == "switch" or len(b.succs(W)) != 1:
                            break
                        W = b.succs(W)[0]
                    if b.blocks[W]["t"]["t"] == "switch":
                        for s_ in b.succs(W):
                            if s_ not in rm and not any(b.can_reach(s_, x, avoid={L}) for x in rm):
                                gone.add(s_)
            if b.can_reach(L, L, avoid=set(rm) | gone):
                ctx.report(r, "%s|%s|skippable" % (mirq.short_fn(b.id), ",".join(names)), "%s walks its dependents and removes them with %s, but an iteration can come back to the loop head without that call: dependents that fail the test in front of it stay behind after the removal (e.g. data of a removed key that no annotation uses: still found by a scan, under a key that no longer exists)" % (b.id, "/".join(names)), b.file, t.get("line"))
    return r, loops


# ---------------------------------------------------------------------- OWNROW
def ownrow_rule(ctx, prog, rid="C02.OWNROW"):
    """the pre-removal callback of one item (`<X as StoreCallbacks<T>>::preremove(handle: H)`) may drop a whole row of a
    relation map (`remove_all(x: A)`) only when the row is the removed item's own, i.e. the map is keyed by the kind of
    handle being removed (A == H) and the argument derives from the callback's handle parameter.  Dropping the row of
    another kind of item (the key's row when one data item goes) un-indexes that item's surviving dependents: they are
    alive but no longer found, and a later cascade that walks the row leaves them behind under a dangling reference.
    Type-directed: A is read from the resolved generic arguments of the call, H from the type of the parameter."""
    r = ctx.rule(rid, "a preremove callback drops whole rows (remove_all) only of maps keyed by the handle kind being removed, with an argument that derives from its own handle parameter; relations of other items are removed pairwise")
    n = 0
    bodies = [b for bid, b in sorted(prog.bodies.items()) if re.search(r"^<.* as store::private::StoreCallbacks<.*>>::preremove$", bid) and not b.d.get("derived")]
    if len(bodies) < 5:
        ctx.anchor_missing(r, "preremove callbacks of AnnotationStore / AnnotationDataSet (found %d, expected at least 5)" % len(bodies))
    for b in bodies:
        ctx.functions_analysed.add(b.id)
        h = mirq.ty_norm(b.local_ty(2)) if b.argc >= 2 else None
        for bi, t in b.calls():
            if b.blocks[bi].get("cleanup"):
                continue
            decl, res, info = mirq.callee_of(t)
            m = re.match(r"^store::(RelationMap|RelationBTreeMap|TripleRelationMap)::<.*>::remove_all$", decl or "")
            if not m:
                continue
            n += 1
            ga = [mirq.ty_norm(x) for x in (info or {}).get("ga") or []]
            a = ga[0] if ga else None
            args = t.get("args") or []
            prov = b.provenance(args[1]) if len(args) > 1 else set()
            own = a is not None and a == h and "arg2" in prov
            kind = re.search(r"StoreCallbacks<(.*)>>::preremove$", b.id).group(1).split("::")[-1]
            k = "preremove<%s>|%s<%s>" % (kind, m.group(1), ",".join(x.split("::")[-1] for x in ga))
            r.hit(k, sample={"callback": b.id, "removed_handle": h, "row_key_type": a, "argument_derives_from_handle_param": "arg2" in prov, "own_row": own})
            if not own:
                ctx.report(r, k + "|foreign-row", "%s (removing one %s) drops a whole row of a %s keyed by %s%s: that is the row of another item, whose other dependents are alive - they vanish from the look-ups that read the map and a later cascade over the row leaves them behind with a dangling reference; the relation of the removed item alone is remove(key, handle)" % (b.id, (h or "?").split("::")[-1], m.group(1), (a or "?").split("::")[-1], "" if a != h else " with an argument that is not the callback's own handle"), b.file, t.get("line"))
    ctx.floor(r, n, 5, "whole-row clean-ups in preremove callbacks")
    return r, n
