"""C14 failed mutations leave the store unchanged: effect-ordering analysis (A5).

For each mutating entry point, every pair (call that may write persistent state, later
fallible exit) on a common CFG path is a way to return an error after a write.  Today's
pairs are genuine and listed as known findings; a new pair (a new fallible step after a
commit point, or a write moved earlier) is a violation."""
import re
import mirq
from effects import field_effects, param_field_effects
from props.c01 import INDEX_FIELDS

ENTRY_RX = (r"^annotation::<impl annotationstore::AnnotationStore>::(annotate|annotate_from_iter|insert_data)$"
            r"|^annotationstore::AnnotationStore::(annotate_from_file|add_resource|add_dataset)$"
            r"|^resources::<impl annotationstore::AnnotationStore>::(add_resource|with_resource)$"
            r"|^annotationdataset::<impl annotationstore::AnnotationStore>::(add_dataset|with_dataset)$"
            r"|^annotationdataset::AnnotationDataSet::(insert_data|build_insert_data)$"
            r"|^store::StoreFor::insert$"
            r"|^api::query::<impl annotationstore::AnnotationStore>::query_mut$")
STATE_ADTS = ("annotationstore::AnnotationStore", "resources::TextResource", "annotationdataset::AnnotationDataSet", "store::IdMap", "store::RelationMap",
              "store::TripleRelationMap", "store::RelationBTreeMap", "textselection::PositionIndex", "textselection::PositionIndexItem")
# fields whose writes are not observable state of the model
IGNORE_FIELDS = {"config", "changed", "filename", "annotations_filename"}


def mutators(prog):
    eff = param_field_effects(prog)
    direct = set()
    for bid, fl in eff.items():
        if any(adt in STATE_ADTS and fld not in IGNORE_FIELDS for adt, fld in fl):
            direct.add(bid)
    # mutable access through the StoreFor accessors + a mutating container call
    for bid, b in prog.bodies.items():
        for bi, t in b.calls():
            decl, res, info = mirq.callee_of(t)
            if decl and re.search(r"::(push|insert|extend|resize_with|remove|clear|retain|pop|truncate|swap_remove|entry)$", decl) and not info.get("local") and t.get("args"):
                prov = b.provenance(t["args"][0])
                if any(x.split("::")[-1] in ("store_mut", "idmap_mut") for x in prov):
                    direct.add(bid)
    # accessor bodies themselves only hand out references
    direct = set(x for x in direct if not re.search(r"::(store_mut|idmap_mut|config_mut)$", x))
    # transitive: callers of mutators
    edges = prog.edges()
    rev = {}
    for a, bs in edges.items():
        for x in bs:
            rev.setdefault(x, set()).add(a)
    allm = set(direct)
    work = list(direct)
    while work:
        x = work.pop()
        for p in rev.get(x, ()):
            if p not in allm:
                allm.add(p)
                work.append(p)
    return direct, allm


def fail_sites(b):
    """blocks of body b that leave with an error: (block, origin description)"""
    out = []
    for bi, blk in enumerate(b.blocks):
        if blk.get("cleanup"):
            continue
        t = blk["t"]
        if t["t"] == "call":
            decl, res, info = mirq.callee_of(t)
            if decl and decl.endswith("FromResidual::from_residual"):
                origin = residual_origin(b, t)
                out.append((bi, origin, t.get("line")))
            elif decl and t.get("dest", {}).get("l") == 0 and not t["dest"]["p"] and b.local_ty(0).startswith("std::result::Result") and info.get("local"):
                out.append((bi, mirq.short_fn(decl), t.get("line")))
        for s in blk["s"]:
            rv = s.get("rv")
            if rv and rv.get("r") == "agg" and rv.get("adt") == "std::result::Result" and rv.get("variant") == "Err" and s["p"]["l"] == 0 and not s["p"]["p"]:
                k = b.key_of_operand(rv["ops"][0]) if rv.get("ops") else "?"
                m = re.search(r"agg:(\w+)", k)
                out.append((bi, "Err:" + (m.group(1) if m else "?"), s.get("line")))
    return out


def residual_origin(b, t):
    """name of the call whose Result/Option was propagated by `?`"""
    prov_names = []
    p = mirq.op_place(t["args"][0]) if t.get("args") else None
    seen = set()
    depth = 0
    while p is not None and depth < 14:
        l = p["l"]
        if l in seen:
            break
        seen.add(l)
        ds = [d for d in b.defs().get(l, []) if d[2] != "partial"]
        if not ds:
            break
        bi, si, kind, payload = ds[0]
        if kind == "call":
            decl, res, info = mirq.callee_of(payload)
            name = mirq.short_fn(decl or "?")
            if re.search(r"(Try::branch|map_err|ok_or|ok_or_else|or_else|or_fail|into|from)$", name) and payload.get("args"):
                p = mirq.op_place(payload["args"][0])
                depth += 1
                continue
            return name
        if kind == "assign":
            rv = payload
            q = None
            for o in mirq._operands_of_rvalue(rv):
                q = mirq.op_place(o)
                if q:
                    break
            if q is None and rv.get("p"):
                q = rv["p"]
            p = q
            depth += 1
            continue
        break
    return "?"


def run(ctx):
    prog = mirq.Program(ctx.facts.mir())
    ctx.not_decided += ["observational equality after a failure beyond 'no persistent write happened before the error'", "failures inside dependencies after a write"]
    ctx.assumptions += ["a call may write persistent state iff its (over-approximated) call targets reach a function with a field effect on the store / resource / dataset / index types or a StoreFor mutable accessor"]
    r = ctx.rule("C14.EFF", "no fallible exit is reachable after the first persistent write of a mutating entry point")
    direct, allm = mutators(prog)
    entries = prog.find_bodies(ENTRY_RX)
    ctx.floor(r, len(entries), 9, "mutating entry points")
    r.notes.append("functions with a direct persistent write: %d; functions that may reach one: %d" % (len(direct), len(allm)))
    pair_cache = {}
    direct_cache = {}

    def pairs_of(e):
        if e.id in pair_cache:
            return pair_cache[e.id]
        muts = []
        mutparams = set("arg%d" % i for i in range(1, e.argc + 1) if e.local_ty(i).startswith("&mut ") or "&mut " in e.local_ty(i) or (not e.local_ty(i).startswith("&") and holds_mut_ref(prog, e.local_ty(i))))
        if "{closure" in e.id:
            mutparams.add("arg1")
        for bi, t in e.calls():
            tg = prog.call_targets(e, t)
            hit = sorted(x for x in tg if x in allm)
            if hit:
                onstate = False
                for a, aty in zip(t.get("args", []), t.get("at", [])):
                    carrier = aty.startswith("&mut ") or (not aty.startswith("&") and ("&mut " in aty or "{closure" in aty or holds_mut_ref(prog, aty)))
                    if carrier and (e.provenance(a) & mutparams):
                        onstate = True
                if not onstate:
                    continue
                decl, res, info = mirq.callee_of(t)
                muts.append((bi, mirq.short_fn(decl or hit[0]), t.get("line")))
        for bi, t in e.calls():
            decl, res, info = mirq.callee_of(t)
            if decl and re.search(r"::(push|insert|extend|resize_with|remove|clear|retain|pop|truncate|swap_remove)$", decl) and not info.get("local") and t.get("args"):
                prov = e.provenance(t["args"][0])
                if any(x.split("::")[-1] in ("store_mut", "idmap_mut") for x in prov):
                    muts.append((bi, "direct:" + mirq.short_fn(decl), t.get("line")))
        fails = fail_sites(e)
        out = {}
        direct = {}
        for mbi, mname, mline in muts:
            for fbi, forigin, fline in fails:
                if mbi == fbi and not e.can_reach(mbi, mbi):
                    continue
                if mbi != fbi and not e.can_reach(mbi, fbi):
                    continue
                if forigin == mname and first_fail_of_call(e, mbi, fbi) and not e.can_reach(mbi, mbi):
                    continue
                out.setdefault((mname, forigin), (mline, fline))
                # does the failure follow the write without going round a loop (same iteration / straight line)?
                if mbi != fbi and reach_forward(e, mbi, fbi) and not (forigin == mname and first_fail_of_call(e, mbi, fbi)):
                    direct[(mname, forigin)] = True
        pair_cache[e.id] = out
        direct_cache[e.id] = direct
        return out

    stop_rule(ctx, prog, allm)
    from props.c03 import preinsert_rule
    preinsert_rule(ctx, prog, rid="C14.PREINSERT")   # a refused insertion must leave no id behind
    parsefirst_rule(ctx)
    bracket_rule(ctx, prog)
    seen_pairs = set()
    for e in sorted(entries, key=lambda b: b.id):
        ctx.functions_analysed.add(e.id)
        own = pairs_of(e)
        for (mname, forigin), (mline, fline) in sorted(own.items()):
            key = "%s|write:%s|then-fail:%s" % (e.id, mname, forigin)
            r.hit(key, sample={"entry": e.id, "write": mname, "later_failure": forigin})
            ctx.report(r, key, "%s can return an error (%s, line %s) after %s (line %s) may already have written persistent state: the store is left changed by a failed call" % (
                e.id, forigin, fline, mname, mline), e.file, fline, {"entry": e.id, "write": mname, "fail": forigin})
        if not own:
            r.hit(e.id + "|no-own-pair")
        # bodies reachable from the entry that are themselves non-atomic
        reach, parent = prog.reachable([e.id])
        for bid in sorted(reach):
            if bid == e.id or bid not in allm:
                continue
            b = prog.bodies[bid]
            if b.d.get("derived"):
                continue
            ps = pairs_of(b)
            if not ps:
                continue
            ctx.functions_analysed.add(bid)
            key = "%s|reaches-non-atomic:%s" % (e.id, bid)
            r.hit(key)
            # each (write, later failure) pair of a reached body is a finding of its own: a new pair inside a body that is
            # non-atomic already (a check moved behind a write) must not hide behind the body's existing entry
            for (mname, forigin), (mline, fline) in sorted(ps.items()):
                pk = "pair:%s|write:%s|then-fail:%s%s" % (bid, mname, forigin, "" if direct_cache.get(bid, {}).get((mname, forigin)) else "|next-iteration-only")
                if pk not in seen_pairs:
                    seen_pairs.add(pk)
                    r.hit(pk)
                    ctx.report(r, pk, "%s can fail (%s, line %s) after %s (line %s) may already have written persistent state" % (bid, forigin, fline, mname, mline), b.file, fline, {"body": bid, "write": mname, "fail": forigin})
            ex = sorted(ps.items())[0]
            ctx.report(r, key, "%s reaches %s, which can fail (%s) after a persistent write (%s): an error from it leaves the store changed (path: %s)" % (
                e.id, bid, ex[0][1], ex[0][0], " -> ".join(mirq.short_fn(x) for x in prog.path_to(parent, bid)[-4:])), b.file, ex[1][1], {"entry": e.id, "write": ex[0][0], "fail": ex[0][1], "via": bid})


def stop_rule(ctx, prog, allm):
    """a mutating step written inside a closure leaves the `?` discipline of the enclosing function: whether the batch
    stops at the first failure then depends on the iterator adaptor the closure is handed to"""
    from synq import Syn, walk, unparse, strip
    r = ctx.rule("C14.STOP", "a batch of mutations stops at the first failure: no step that may write persistent state runs inside a closure handed to an iterator adaptor, unless that adaptor short-circuits (try_for_each / try_fold / collect into a Result)")
    syn = Syn(ctx.facts.syn())
    n = 0
    for bid, b in sorted(prog.bodies.items()):
        if "{closure" not in bid or b.d.get("derived"):
            continue
        n += 1
        for bi, t in b.calls():
            tg = prog.call_targets(b, t)
            hit = sorted(x for x in tg if x in allm)
            if not hit:
                continue
            decl, res, info = mirq.callee_of(t)
            if not (t.get("at") and any(a.startswith("&mut ") for a in t["at"])):
                continue
            parent = prog.parent_fn(bid)
            line = t.get("line")
            # find the closure in the syntax tree and the adaptor chain it is handed to
            verdict = "unknown adaptor"
            for f in syn.fns:
                if f.file != b.file or not f.body:
                    continue
                for m in walk(f.body):
                    if m.get("k") != "mcall":
                        continue
                    for a in m["args"]:
                        a = strip(a)
                        if a.get("k") == "closure" and a.get("l", 0) <= line <= a.get("el", a.get("l", 0)):
                            if m["method"] in ("try_for_each", "try_fold"):
                                verdict = "ok"
                            else:
                                verdict = m["method"]
                                # is the chain consumed by collect::<Result<..>>?
                                for outer in walk(f.body):
                                    if outer.get("k") == "mcall" and outer["method"] == "collect" and "Result" in (outer.get("turbofish") or "") and any(x is m for x in walk(outer["recv"])):
                                        verdict = "ok"
            r.hit("%s->%s" % (bid, mirq.short_fn(decl or hit[0])), sample={"closure": bid, "calls": decl, "adaptor": verdict})
            if verdict != "ok":
                ctx.report(r, "%s|%s" % (parent or bid, mirq.short_fn(decl or hit[0])), "%s calls %s, which may write persistent state, from inside a closure handed to .%s(..): the `?` of the enclosing function does not stop the batch at the first failure, so steps after a failed one still run and the store is changed further by a call that returns an error" % (parent or bid, mirq.short_fn(decl or hit[0]), verdict), b.file, line)
    ctx.floor(r, n, 150, "closure bodies examined")


def reach_forward(b, a, c):
    """is block c reachable from block a without traversing a loop back edge (an edge u->v where v dominates u)?"""
    seen = set()
    st = [x for x in b.succs(a) if not b.dominates(x, a)]
    while st:
        x = st.pop()
        if x in seen:
            continue
        if x == c:
            return True
        seen.add(x)
        st.extend(y for y in b.succs(x) if not b.dominates(y, x))
    return False


def holds_mut_ref(prog, ty):
    """is `ty` a local struct with a field that is a mutable reference (a carrier of the caller's state)?"""
    a = prog.adts.get(mirq.ty_head(ty))
    if not a:
        return False
    for v in a["variants"]:
        for f in v["fields"]:
            if re.search(r"&('[a-z_]+ )?mut ", f["ty"]):
                return True
    return False


def first_fail_of_call(e, mbi, fbi):
    """is fbi the error exit of the call at mbi itself (no other mutating call in between)?"""
    # the `?` of a call follows it directly: mbi -> branch call -> switch -> from_residual
    seen = set()
    st = list(e.succs(mbi))
    depth = 0
    while st and depth < 6:
        nxt = []
        for x in st:
            if x == fbi:
                return True
            if x in seen:
                continue
            seen.add(x)
            t = e.blocks[x]["t"]
            if t["t"] == "call":
                decl, res, info = mirq.callee_of(t)
                if decl and not re.search(r"(Try::branch|map_err|from_residual|ok_or|into|from|or_fail)$", decl) and info.get("local"):
                    continue
            nxt.extend(e.succs(x))
        st = nxt
        depth += 1
    return False


def same_call_reaches(e, a, b, name):
    return None


# ---------------------------------------------------------------------- PARSEFIRST
def parsefirst_rule(ctx, rid="C14.PARSEFIRST"):
    """annotate_from_file parses the whole file into helper values before it adds anything: what the parse refuses costs
    nothing.  annotate() refuses a builder without a target only when it gets to it - after the annotations before it
    are in the store.  So the helper's `target` stays mandatory (a missing target is a parse error of the file) and the
    conversion into a builder always supplies Some(target)."""
    from synq import Syn, walk, unparse, strip
    syn = Syn(ctx.facts.syn())
    r = ctx.rule(rid, "the JSON helper of a batch of annotations has a mandatory target, and its conversion into an AnnotationBuilder sets target: Some(..): a missing target is refused when the file is parsed, before anything is added")
    st = syn.structs.get("AnnotationJson")
    conv = [f for f in syn.fns if f.name in ("from", "try_from") and "AnnotationJson" in (f.trait or "") and "AnnotationBuilder" in (f.self_ty or "") and f.body is not None]
    if st is None or len(conv) != 1:
        ctx.anchor_missing(r, "struct AnnotationJson / From<AnnotationJson> for AnnotationBuilder")
        return
    ctx.functions_analysed.add(conv[0].qual)
    tf = [f for f in st["fields"] if f["name"] == "target"]
    r.hit("AnnotationJson.target", sample={"type": tf[0]["ty"]["s"] if tf else None})
    if not tf:
        ctx.anchor_missing(r, "AnnotationJson.target")
    else:
        ty = re.sub(r"\s+", "", tf[0]["ty"]["s"])
        dflt = any(a.get("path") == "serde" and "default" in (a.get("tokens") or "") for a in tf[0].get("attrs", []) or [])
        if ty.startswith("Option<") or dflt:
            ctx.report(r, "optional-target", "AnnotationJson.target is optional (%s%s): an annotation without target in a batch file is no longer a parse error of the file but an error of annotate() in the middle of the batch, after the earlier annotations were added" % (tf[0]["ty"]["s"], ", #[serde(default)]" if dflt else ""), "src/annotation.rs", tf[0].get("l"))
    inits = [f_ for lit in walk(conv[0].body) if lit.get("k") == "structlit" for f_ in lit["fields"] if f_["name"] == "target"]
    r.hit("conversion", sample={"target_init": unparse(inits[0]["e"])[:40] if inits else None})
    if inits:
        e_ = strip(inits[0]["e"])
        if not (e_.get("k") == "call" and unparse(e_["func"]).replace(" ", "") == "Some"):
            ctx.report(r, "target-not-some", "the conversion of AnnotationJson into an AnnotationBuilder initialises target with `%s` instead of Some(..): a builder without a target can come out of a parsed file" % unparse(inits[0]["e"])[:40], conv[0].file, inits[0].get("l"))


# ---------------------------------------------------------------------- BRACKET
def bracket_rule(ctx, prog, rid="C14.BRACKET"):
    """a merge puts the store into a temporary state - merge mode on, for a file also the working directory of the
    included file and no filename of its own - and takes it back afterwards.  `afterwards` has to include the failing
    exits: a `?` between the two halves leaves a store that has forgotten its filename and treats the next load as a
    merge.  MIR path rule, in every function that switches merge mode on: (a) every path from set_merge_mode(true) to a
    return passes set_merge_mode(false); (b) a field of self that is assigned and, on some path, assigned again later
    (saved / restored) is assigned again on every path to a return."""
    r = ctx.rule(rid, "in the functions that switch merge mode on, every path to a return - the failing ones included - switches it off again and restores every field of the store that was set temporarily")
    n = 0
    for bid, b in sorted(prog.bodies.items()):
        if b.d.get("derived"):
            continue
        ons, offs = [], set()
        for bi, t in b.calls():
            if (mirq.callee_of(t)[0] or "").endswith("AnnotationStore::set_merge_mode") and len(t.get("args", [])) >= 2:
                k = str(b.key_of_operand(t["args"][1]))
                if k in ("const:true", "const:1"):
                    ons.append(bi)
                elif k in ("const:false", "const:0"):
                    offs.add(bi)
        if not ons:
            continue
        n += 1
        ctx.functions_analysed.add(bid)
        rets = [bi for bi, blk in enumerate(b.blocks) if blk["t"]["t"] == "return"]
        leak = False
        for on in ons:
            nxt = b.blocks[on]["t"].get("target")
            if isinstance(nxt, int) and nxt not in offs and any(nxt == rt or b.can_reach(nxt, rt, avoid=offs) for rt in rets):
                leak = True
        # fields of self assigned more than once along a path
        assigns = {}
        for bi, blk in enumerate(b.blocks):
            for s_ in blk["s"]:
                p_ = s_.get("p") or {}
                if p_.get("l") == 1 and p_.get("p") and "rv" in s_:
                    names = tuple(x.get("n") for x in p_["p"] if isinstance(x, dict) and x.get("n"))
                    if names:
                        assigns.setdefault(names, set()).add(bi)
        unrestored = []
        for names, blocks in sorted(assigns.items()):
            for a in sorted(blocks):
                later = set(x for x in blocks if x != a and b.can_reach(a, x))
                if later and any(b.can_reach(a, rt, avoid=later) for rt in rets):
                    unrestored.append(".".join(names))
                    break
        r.hit(bid, sample={"fn": mirq.short_fn(bid), "merge_mode_left_on": leak, "fields_not_restored_on_some_path": unrestored})
        if leak:
            ctx.report(r, "%s|merge-mode" % mirq.short_fn(bid), "%s can return with merge mode still switched on (a failing `?` between set_merge_mode(true) and set_merge_mode(false)): after a failed merge the store keeps accepting duplicate dataset ids as a merge would" % bid, b.file, b.blocks[ons[0]]["t"].get("line"))
        for f_ in unrestored:
            ctx.report(r, "%s|field:%s" % (mirq.short_fn(bid), f_), "%s sets self.%s temporarily and restores it on the successful path only: a failing exit in between leaves the store with the temporary value (no filename of its own, the working directory of the file that failed to load)" % (bid, f_), b.file, b.line)
    ctx.floor(r, n, 2, "functions that switch merge mode on")
