"""C03 public identifiers resolve to exactly the live item that carries them.

IDW    who may write id maps (subset of the C01 ownership table)
RM     StoreFor::remove drops the item's *own* id from the id map before the tombstone
LIVE   liveness tests on store slots are tombstone-aware (Some(Some(_)))
TMP    temporary ids: parser totality and kind (prefix) check
DUP    the duplicate-id test precedes the id-map insertion
REIDX  compaction remaps id maps with the gaps of their stores; gap convention agreement;
       coverage of the indices that mention a remapped handle type"""
import re
import mirq
import panics
from synq import Syn, walk, find, unparse, strip, pat_names
from formula import Evaluator, Unknown, Panic
from props.c01 import own_rule, INDEX_FIELDS
from props.c09 import total_rule, load_safe


def run(ctx):
    prog = mirq.Program(ctx.facts.mir())
    syn = Syn(ctx.facts.syn())
    ctx.not_decided += ["uniqueness of generated ids (nanoid collision probability)", "that every handle stored inside annotations (selectors, data references) is remapped by reindex() - see the known findings: reindex() is incomplete",
                        "liveness of the item a temporary id resolves to"]

    # ---------------- IDW: reuse the ownership table for id maps only
    r_idw = ctx.rule("C03.IDW", "id maps are written only by StoreFor::insert/remove, generate_id, reindex, strip_*, shrink_to_fit")
    import props.c01 as c01
    saved = dict(c01.INDEX_FIELDS)
    try:
        c01.INDEX_FIELDS.clear()
        c01.INDEX_FIELDS.update({"store::IdMap": ["data"],
                                 "annotationstore::AnnotationStore": ["annotation_idmap", "resource_idmap", "dataset_idmap", "substore_idmap"],
                                 "annotationdataset::AnnotationDataSet": ["key_idmap", "data_idmap"]})
        n = own_rule(ctx, prog, r_idw)
    finally:
        c01.INDEX_FIELDS.clear()
        c01.INDEX_FIELDS.update(saved)
    ctx.floor(r_idw, n, 12, "id-map writers")

    # ---------------- RM
    r_rm = ctx.rule("C03.RM", "StoreFor::remove removes the item's own id from the id map on every path to the tombstone write")
    rm = prog.one(r"^store::StoreFor::remove$")
    ctx.functions_analysed.add(rm.id)
    tomb = []
    for bi, blk in enumerate(rm.blocks):
        if blk.get("cleanup"):
            continue
        for s in blk["s"]:
            rv = s.get("rv")
            if not rv or "*" not in s["p"]["p"]:
                continue
            if rv.get("r") == "agg" and rv.get("variant") == "None":
                tomb.append(bi)
            elif rv.get("r") == "use" and mirq.op_place(rv["o"]) is not None:
                sd = rm.single_def(mirq.op_place(rv["o"])["l"])
                if sd and sd[2] == "assign" and sd[3].get("r") == "agg" and sd[3].get("variant") == "None" and sd[3].get("adt") == "std::option::Option":
                    tomb.append(bi)
    hm = []
    for bi, t in rm.calls():
        decl, res, info = mirq.callee_of(t)
        if decl and re.search(r"HashMap::<.*>::remove$", decl):
            hm.append((bi, t))
    r_rm.hit("tombstone", sample={"tombstone_blocks": tomb, "idmap_remove_blocks": [b for b, _ in hm]})
    tomb = sorted(set(tomb))
    if len(tomb) < 1:
        ctx.anchor_missing(r_rm, "the tombstone write `*item = None` in StoreFor::remove (found %d)" % len(tomb))
    elif not hm:
        ctx.report(r_rm, "no-idmap-remove", "StoreFor::remove never removes anything from the id map: the id of a removed item keeps resolving", rm.file, rm.line)
    else:
        for bi, t in hm:
            key = rm.key_of_operand(t["args"][1]) if len(t.get("args", [])) > 1 else ""
            prov = rm.provenance(t["args"][1]) if len(t.get("args", [])) > 1 else set()
            r_rm.hit("idmap-remove-key", sample={"key": key, "derives_from": sorted(x for x in prov if "Storable" in x or "Request" in x or x.startswith("arg"))})
            if not any(x.endswith("Storable::id") for x in prov) or any("requested_id" in x for x in prov):
                ctx.report(r_rm, "foreign-key", "StoreFor::remove deletes the id-map entry for `%s`, which does not (only) derive from the id stored on the removed item (Storable::id): removal through another name (temporary id, handle) leaves the real id behind" % key, rm.file, t.get("line"))
            # every path from entry to the tombstone passes either this call or the None edge of the id test
            idcalls = [b2 for b2, t2 in rm.calls() if (mirq.callee_of(t2)[0] or "").endswith("Storable::id")]
            if not idcalls or not all(any(rm.dominates(b2, tb) for b2 in idcalls) for tb in tomb):
                ctx.report(r_rm, "id-not-consulted", "the tombstone write in StoreFor::remove is not dominated by a query of the item's id", rm.file, rm.line)
            # is there a path from the Some(id) edge to the tombstone that avoids the removal?
            # (the removal is conditional on idmap_mut() being Some, which is fine: no id map, nothing to remove)

    # ---------------- LIVE
    r_live = ctx.rule("C03.LIVE", "liveness of a store slot is tested as Some(Some(_)), never with a bare is_some()/is_none() on the slot lookup")
    nl = 0
    for bid, b in prog.bodies.items():
        if b.d.get("derived"):
            continue
        for bi, t in b.calls():
            decl, res, info = mirq.callee_of(t)
            if not decl or not re.search(r"Option::<.*>::(is_some|is_none)$", decl):
                continue
            at = (t.get("at") or [""])[0]
            # Option<&Option<T>> : a slot of a Store<T>
            if not re.match(r"^&std::option::Option<&(mut )?std::option::Option<", at):
                continue
            nl += 1
            k = b.key_of_operand(t["args"][0])
            r_live.hit("%s|%s" % (bid, decl.split("::")[-1]), sample={"in": bid, "test": k})
            ctx.report(r_live, "%s|%s" % (bid, decl.split("::")[-1]), "%s tests a store slot with %s on Option<&Option<T>>: a tombstone (Some(None)) counts as present, so removed items are still reported as existing" % (bid, decl.split("::")[-1]), b.file, t.get("line"))
    # positive control: get/get_mut use the two-level pattern
    g = prog.one(r"^store::StoreFor::get$")
    two_level = any(blk["t"]["t"] == "switch" for blk in g.blocks)
    r_live.hit("control:get")
    if not two_level:
        ctx.anchor_missing(r_live, "two-level liveness pattern in StoreFor::get")

    # ---------------- TMP
    r_tmp = ctx.rule("C03.TMP", "temporary ids: the parser is total and resolve_id accepts them only with the prefix of its own item kind")
    roots = [b.id for b in prog.find_bodies(r"^store::resolve_temp_id$|^store::StoreFor::resolve_id$")]
    if len(roots) != 2:
        ctx.anchor_missing(r_tmp, "resolve_temp_id / StoreFor::resolve_id")
    total_rule(ctx, r_tmp, prog, roots, load_safe("C03"), 2, 0)
    rid = prog.one(r"^store::StoreFor::resolve_id$")
    tcalls = [bi for bi, t in rid.calls() if (mirq.callee_of(t)[0] or "").endswith("resolve_temp_id")]
    pcalls = [bi for bi, t in rid.calls() if (mirq.callee_of(t)[0] or "").endswith("temp_id_prefix")]
    r_tmp.hit("prefix-check")
    if tcalls and not any(rid.dominates(p, tcalls[0]) for p in pcalls):
        ctx.report(r_tmp, "resolve_id:no-kind-check", "StoreFor::resolve_id accepts a temporary id without comparing its prefix with TypeInfo::temp_id_prefix() of the item kind: \"!A0\" resolves as a resource, a key, ...", rid.file, rid.line)

    # ---------------- DUP
    r_dup = ctx.rule("C03.DUP", "in StoreFor::insert the id-map insertion happens only after has(id) returned false; generate_id retries on collision")
    ins = prog.one(r"^store::StoreFor::insert$")
    ctx.functions_analysed.add(ins.id)
    has_calls = [(bi, t) for bi, t in ins.calls() if (mirq.callee_of(t)[0] or "").endswith("StoreFor::has")]
    # the id-map insertion lives in a closure passed to Option::map on idmap_mut()
    writers = []
    for bid, b in prog.bodies.items():
        if not bid.startswith("store::StoreFor::insert"):
            continue
        for bi, t in b.calls():
            decl, res, info = mirq.callee_of(t)
            if decl and re.search(r"HashMap::<.*>::insert$", decl):
                writers.append((bid, bi))
    r_dup.hit("idmap-insert", sample={"writers": writers, "has_calls": len(has_calls)})
    if not writers:
        ctx.anchor_missing(r_dup, "id-map insertion in StoreFor::insert")
    elif not has_calls:
        ctx.report(r_dup, "no-duplicate-test", "StoreFor::insert registers the id without first testing has(id): a duplicate id overwrites the mapping of the existing item", ins.file, ins.line)
    else:
        # the switch on has(id): insertion (closure creation or direct call) must be on its false edge
        facts_ = [f for f in panics.cmp_facts(ins)]
        ok = False
        sites = []
        for bid, bi in writers:
            if bid == ins.id:
                sites.append(bi)
            else:
                for bi2, blk in enumerate(ins.blocks):
                    for s in blk["s"]:
                        rv = s.get("rv")
                        if rv and rv.get("r") == "agg" and rv.get("closure") == bid:
                            sites.append(bi2)
        for hb, ht in has_calls:
            dest = ht["dest"]["l"]
            for si, blk in enumerate(ins.blocks):
                tt = blk["t"]
                if tt["t"] == "switch" and mirq.op_place(tt["o"]) and mirq.op_place(tt["o"])["l"] == dest:
                    tv = dict((v, tg) for v, tg in tt["targets"])
                    false_t = tv.get(0, None)
                    if false_t is None:
                        continue
                    if sites and all(ins.dominates(false_t, s_) and len(ins.preds(false_t)) == 1 for s_ in sites):
                        ok = True
        if not ok:
            ctx.report(r_dup, "not-dominated", "the id-map insertion in StoreFor::insert is not confined to the branch where has(id) is false", ins.file, ins.line)
    gid = syn.fn("generate_id", in_trait="Storable")
    r_dup.hit("generate_id")
    if not any(True for _ in find(gid.body, "loop")) and not any(True for _ in find(gid.body, "while")):
        ctx.report(r_dup, "generate_id:no-retry", "Storable::generate_id no longer retries when the generated id already exists", gid.file, gid.line)

    compact_rule(ctx, syn)
    trunc_rule(ctx, syn)
    slotloop_rule(ctx, syn)
    tmpsync_rule(ctx, prog)
    lateid_rule(ctx, syn)
    preinsert_rule(ctx, prog)
    noshrink_rule(ctx, prog)
    mergeid_rule(ctx, prog)
    request_rule(ctx, prog)
    idfirst_rule(ctx, prog)

    # ---------------- REIDX
    r_re = ctx.rule("C03.REIDX", "reindex(): every id map is remapped with the gap table of its own store, under the same emptiness guard; gaps()/Handle::reindex agree on the gap convention; indices mentioning a remapped handle type are remapped")
    rx = syn.fn("reindex", self_ty="AnnotationStore")
    ctx.functions_analysed.add(rx.qual)
    gapvars = {}
    for n in walk(rx.body):
        if n.get("k") == "let" and n.get("init") and unparse(n["init"]).endswith(".gaps()"):
            nm = [p["name"] for p in walk(n["pat"]) if p.get("k") == "pat" and p.get("p") == "ident"]
            src = unparse(n["init"])[:-len(".gaps()")]
            if nm:
                gapvars[nm[0]] = src  # remap_x -> self.X
    pairs = {"self.annotations": "annotation_idmap", "self.resources": "resource_idmap", "self.annotationsets": "dataset_idmap"}
    idmap_calls = {}
    for n in walk(rx.body):
        if n.get("k") == "mcall" and n["method"] == "reindex" and unparse(n["recv"]).endswith("_idmap"):
            idmap_calls[unparse(n["recv"]).split(".")[-1]] = (unparse(strip(n["args"][0])) if n["args"] else None, n["l"])
    for gv, src in gapvars.items():
        want = pairs.get(src)
        if not want:
            continue
        r_re.hit(want)
        got = idmap_calls.get(want)
        if not got:
            ctx.report(r_re, "idmap-not-remapped:" + want, "reindex() compacts %s but does not remap %s: ids resolve to the old positions" % (src, want), rx.file, rx.line)
        elif got[0] != gv:
            ctx.report(r_re, "idmap-wrong-gaps:" + want, "reindex() remaps %s with `%s` instead of the gaps of %s (`%s`)" % (want, got[0], src, gv), rx.file, got[1])
    ctx.floor(r_re, len(gapvars), 3, "compacted stores")
    # no way out of reindex() between the compaction of the stores and the remapping of what refers to them:
    # an early return is acceptable only under "every gap table is empty"
    def enclosing_conds(root, target):
        stack = [(root, [])]
        while stack:
            n_, conds = stack.pop()
            if n_ is target:
                return conds
            if not isinstance(n_, dict) or n_.get("k") == "closure":
                continue
            if n_.get("k") == "if":
                stack.append((n_["then"], conds + [unparse(n_["cond"])]))
                if n_.get("else"):
                    stack.append((n_["else"], conds + ["!(" + unparse(n_["cond"]) + ")"]))
                continue
            from synq import children
            for c_ in children(n_):
                stack.append((c_, conds))
        return None
    r_re.hit("single-exit")
    for ret in [n_ for n_ in walk(rx.body, skip_closures=True) if n_.get("k") == "return"]:
        conds = enclosing_conds(rx.body, ret) or []
        joined = " && ".join(conds)
        if not all(("%s.is_empty()" % gv) in joined and ("!%s.is_empty()" % gv) not in joined for gv in gapvars) or "||" in joined:
            ctx.report(r_re, "early-return", "reindex() can return early (line %s, under `%s`) after the stores have been compacted: whatever is remapped below that point (id maps, reverse indices) keeps the old handles on that path" % (ret.get("l"), joined or "no condition"), rx.file, ret.get("l"))
    # gap convention: gaps() records the handle of the first live item AFTER a gap; Handle::reindex must
    # therefore apply the shift to a handle equal to the gap handle
    hre = syn.fn("reindex", in_trait="Handle")
    conds = [n for n in find(hre.body, "if")]
    r_re.hit("gap-convention")
    if len(conds) != 1:
        ctx.anchor_missing(r_re, "single comparison in Handle::reindex")
    else:
        c = conds[0]["cond"]
        names = set(n["path"][0] for n in walk(c) if n.get("k") == "path" and len(n["path"]) == 1)
        # evaluate the comparison with gap handle == own handle
        ev = Evaluator(hooks={"as_usize": lambda ev, recv, args, node, env: recv})
        try:
            env = {}
            for nm in names:
                env[nm] = 5
            v = ev.eval(c, env)
            # convention of gaps(): does it push the handle of the live item that follows the gap?
            gp = syn.fn("gaps", in_trait="ReindexStore") if syn.find_fns("gaps", in_trait="ReindexStore") else None
            after_gap = True
            if gp is not None:
                src = unparse(gp.body)
                after_gap = "gaps.push((handle,gapsize))" in src.replace(" ", "")
            if after_gap and v is not True:
                ctx.report(r_re, "gap-convention", "gaps() records the handle of the first live item after a gap, but Handle::reindex does not apply the shift when the handle equals the gap handle (`%s`): that item keeps its old number while the store moves it, so its id resolves to its neighbour after reindex()" % unparse(c), hre.file, conds[0]["l"])
        except (Unknown, Panic) as e:
            ctx.report(r_re, "gap-convention:uninterpretable", "cannot evaluate the comparison in Handle::reindex (%s)" % e, hre.file, conds[0]["l"])
    # coverage: fields of AnnotationStore whose type mentions a remapped handle type
    st = syn.structs.get("AnnotationStore")
    assigned = set()
    for n in walk(rx.body):
        if n.get("k") == "assign":
            l = unparse(n["left"])
            if l.startswith("self."):
                assigned.add(l[5:])
        if n.get("k") == "mcall" and n["method"] == "reindex":
            r = unparse(n["recv"])
            if r.startswith("self."):
                assigned.add(r[5:])
    remapped = ("AnnotationHandle", "TextResourceHandle", "AnnotationDataSetHandle")
    from effects import field_effects
    eff = field_effects(prog)
    for f in st["fields"]:
        writers = [w for w in eff.get(("annotationstore::AnnotationStore", f["name"]), {}) if not re.search(r"::(reindex|shrink_to_fit|new|default)$", w)]
        if not writers:
            continue  # reserved map that nothing fills
        t = f["ty"]["s"].replace(" ", "")
        if not re.match(r"^(RelationMap|TripleRelationMap|RelationBTreeMap|IdMap)<", t):
            continue
        if not any(h in t for h in remapped):
            continue
        r_re.hit("cover:" + f["name"])
        if f["name"] not in assigned:
            ctx.report(r_re, "not-remapped:" + f["name"], "reindex() renumbers annotations/resources/datasets but leaves %s (%s) untouched: it still holds the old handles" % (f["name"], t), rx.file, rx.line)


# ---------------------------------------------------------------------- COMPACT
def compact_rule(ctx, syn):
    """reindex(): gaps(), the store compaction, Handle::reindex, IdMap::reindex and RelationMap::reindex,
    evaluated from their syntax trees on every liveness pattern of a 6-slot store, agree on where each
    live item ends up"""
    import itertools
    from synq import find, unparse, strip
    from formula import Evaluator, Unknown, Panic, StructVal, SInt, some, is_some, ok
    from props.c10 import closure_call
    r = ctx.rule("C03.COMPACT", "after compaction every public id resolves to the item that carries it: gaps(), the store's reindex, Handle::reindex and IdMap::reindex agree on the new handle of every live item (all 64 liveness patterns of a 6-slot store)")

    def fn(name, file, pred):
        c = [f for f in syn.fns if f.name == name and f.file == file and f.body is not None and pred(f)]
        return c[0] if len(c) == 1 else None
    f_gaps = fn("gaps", "src/store.rs", lambda f: (f.trait or "").startswith("ReindexStore"))
    f_sre = fn("reindex", "src/store.rs", lambda f: (f.trait or "").startswith("ReindexStore"))
    f_hre = fn("reindex", "src/types.rs", lambda f: f.in_trait == "Handle")
    f_idre = fn("reindex", "src/store.rs", lambda f: (f.self_ty or "").startswith("IdMap"))
    for nm, f in (("ReindexStore::gaps", f_gaps), ("ReindexStore::reindex", f_sre), ("Handle::reindex", f_hre), ("IdMap::reindex", f_idre)):
        if f is None:
            ctx.anchor_missing(r, nm)
            return
        ctx.functions_analysed.add(f.qual)
    hooks = {}
    hooks["handle"] = lambda ev, recv, args, node, env: some(recv["h"]) if isinstance(recv, StructVal) and recv.tyname == "Item" else NotImplemented
    hooks["expect"] = lambda ev, recv, args, node, env: recv[1] if is_some(recv) else NotImplemented
    hooks["as_usize"] = lambda ev, recv, args, node, env: (recv["v"] if isinstance(recv, StructVal) and recv.tyname == "Cell" else recv) if isinstance(recv, (int, StructVal)) else NotImplemented
    hooks["with_handle"] = lambda ev, recv, args, node, env: StructVal("Item", {"h": args[0], "id": recv["id"]}) if isinstance(recv, StructVal) and recv.tyname == "Item" else NotImplemented
    hooks["call:Self::new"] = lambda ev, recv, args, node, env: args[0]
    hooks["call:HandleType::new"] = lambda ev, recv, args, node, env: args[0]
    hooks["call:Vec::new"] = lambda ev, recv, args, node, env: []
    hooks["call:Vec::with_capacity"] = lambda ev, recv, args, node, env: []
    hooks["values_mut"] = lambda ev, recv, args, node, env: list(recv.values()) if isinstance(recv, dict) and not isinstance(recv, StructVal) else NotImplemented

    def h_map(ev, recv, args, node, env):
        if isinstance(recv, list) and args and isinstance(args[0], tuple) and args[0][0] == "closure":
            return [closure_call(ev, args[0], [x], env) for x in recv]
        return NotImplemented
    hooks["map"] = h_map

    def h_reindex(ev, recv, args, node, env):
        h = recv["v"] if isinstance(recv, StructVal) and recv.tyname == "Cell" else recv
        if isinstance(h, int) and not isinstance(h, bool):
            sub = Evaluator(hooks=hooks)
            return sub.run_body(f_hre.body, {"self": h, "gaps": args[0]})
        return NotImplemented
    hooks["reindex"] = h_reindex
    reported = set()
    n = 0
    N = 6
    for mask in range(1 << N):
        live = [i for i in range(N) if mask & (1 << i)]
        store = [StructVal("Item", {"h": i, "id": "id%d" % i}) if i in live else None for i in range(N)]
        want = dict((i, k) for k, i in enumerate(live))
        key_pat = "".join("x" if i in live else "." for i in range(N))
        try:
            ev = Evaluator(hooks=hooks)
            gaps = ev.run_body(f_gaps.body, {"self": [some(x) if x is not None else None for x in store]})
            gaps = [(a, SInt(b)) for a, b in gaps]
            ev = Evaluator(hooks=hooks)
            newstore = ev.run_body(f_sre.body, {"self": [some(x) if x is not None else None for x in store], "gaps": gaps})
            cells = dict(("id%d" % i, StructVal("Cell", {"v": i})) for i in live)
            ev = Evaluator(hooks=hooks)
            ev.run_body(f_idre.body, {"self": StructVal("IdMap", {"data": cells}), "gaps": gaps})
        except (Unknown, Panic) as e:
            if "unevaluated" not in reported:
                reported.add("unevaluated")
                ctx.report(r, "unevaluated", "the compaction functions could not be evaluated (%s, liveness pattern %s): that ids still resolve to their items after reindex() is not established" % (e, key_pat), f_idre.file, f_idre.line)
            continue
        n += 1
        r.obligations += 1
        okay = True
        if live:
            present = [s_ for s_ in newstore if is_some(s_)] if isinstance(newstore, list) else None
            if present is None or len(present) != len(live):
                okay = False
                what = "the compacted store holds %s items for %d live items" % (len(present) if present is not None else "?", len(live))
            else:
                for pos, slot in enumerate(newstore):
                    item = slot[1] if is_some(slot) else None
                    if item is None:
                        continue  # a trailing tombstone that no gap entry describes may stay
                    if item["h"] != pos:
                        okay = False
                        what = "the item at position %d of the compacted store carries handle %s" % (pos, item["h"] if item else None)
                        break
                    if int(cells[item["id"]]["v"]) != pos:
                        okay = False
                        what = "the id map sends %s to handle %s but the item carrying it is now at %d" % (item["id"], cells[item["id"]]["v"], pos)
                        break
        if okay:
            r.discharged += 1
        else:
            ngaps = len(gaps)
            k2 = "mismatch:%s" % ("one-gap" if ngaps == 1 else "several-gaps")
            if k2 not in reported:
                reported.add(k2)
                ctx.report(r, k2, "reindex() on a store with liveness pattern %s (x live, . removed; gap table %s): %s - a public id resolves to a different item after compaction" % (key_pat, [(a, int(b)) for a, b in gaps], what), f_idre.file, f_idre.line, {"pattern": key_pat})
        if mask in (0b101101, 0b111111, 0b010110):
            r.hit("pattern:" + key_pat, sample={"liveness": key_pat, "gaps": [(a, int(b)) for a, b in gaps], "idmap": dict((k, int(v["v"])) for k, v in cells.items())})
    r.hit("patterns", sample={"slots": N, "patterns": n})
    ctx.floor(r, n, 64, "liveness patterns")


# ---------------------------------------------------------------------- TRUNC
def trunc_rule(ctx, syn):
    """resolve_id on a temporary id: the number in the id reaches the handle unchanged or the id does not
    resolve - handle types are narrower than usize (u16 / u32), so `Handle::new(n)` alone truncates"""
    from formula import Evaluator, Unknown, Panic, StructVal, some, is_some
    r = ctx.rule("C03.TRUNC", "a temporary id whose number does not fit the handle type does not resolve (no silent truncation to another item's handle)")
    fl = [f for f in syn.fns if f.name == "resolve_id" and f.file == "src/store.rs" and f.body is not None]
    if len(fl) != 1:
        ctx.anchor_missing(r, "fn StoreFor::resolve_id")
        return
    f = fl[0]
    ctx.functions_analysed.add(f.qual)
    # the handle types themselves: Handle::new / as_usize of every impl, evaluated from their bodies
    impls = {}
    for g in syn.fns:
        if (g.trait or "") == "Handle" and g.name in ("new", "as_usize") and g.body is not None:
            impls.setdefault(g.self_ty, {})[g.name] = g
    hh = {"call:Self": lambda ev, recv, args, node, env: StructVal("Handle", {"0": args[0]})}

    def tryfrom(width):
        def h(ev, recv, args, node, env):
            from formula import ok as OK_, err as ERR_
            return OK_(args[0]) if isinstance(args[0], int) and 0 <= args[0] < (1 << width) else ERR_("range")
        return h
    for w_ in (8, 16, 32, 64):
        hh["call:u%d::try_from" % w_] = tryfrom(w_)

    def h_expect(ev, recv, args, node, env):
        if isinstance(recv, tuple) and recv and recv[0] == "ok":
            return recv[1]
        if isinstance(recv, tuple) and recv and recv[0] == "err":
            raise Panic("expect-on-err", node.get("l"))
        return NotImplemented
    hh["expect"] = h_expect
    hh["unwrap"] = h_expect
    widths = {}
    for ty, fs in sorted(impls.items()):
        if "new" not in fs or "as_usize" not in fs:
            continue
        ctx.functions_analysed.add(fs["new"].qual)
        try:
            w = None
            for n_ in (0, 7, 255, 256, 65535, 65536, 70000, (1 << 32) - 1, 1 << 32, (1 << 32) + 3):
                hnd = Evaluator(hooks=hh).run_body(fs["new"].body, {"intid": n_})
                back = Evaluator(hooks=hh).run_body(fs["as_usize"].body, {"self": hnd})
                if back != n_ and w is None:
                    w = n_.bit_length() - 1 if n_ & (n_ - 1) == 0 else None
                if back != n_ and back != n_ % (1 << (w or 64)):
                    raise Unknown("Handle::new(%d).as_usize() = %r" % (n_, back))
            widths[ty] = w
            r.hit("handle:" + ty, sample={"handle_type": ty, "wraps_at_bits": w})
        except Panic as e:
            ctx.report(r, "new-panics:" + ty, "<%s as Handle>::new panics (%s) for a number that does not fit the handle type: resolve_id builds the handle from the number in a temporary id before it rejects numbers that do not fit, so a look-up of \"!X<big number>\" aborts the program instead of answering 'not found'" % (ty, e), fs["new"].file, fs["new"].line)
        except Unknown as e:
            ctx.report(r, "new-unevaluated:" + ty, "<%s as Handle>::new / as_usize could not be evaluated (%s)" % (ty, e), fs["new"].file, fs["new"].line)
    ctx.floor(r, len(impls), 7, "Handle implementations")
    for width, name in ((16, "u16 handles (keys, ...)"), (32, "u32 handles (annotations, data, ...)")):
        hooks = {}
        hooks["idmap"] = lambda ev, recv, args, node, env: some(StructVal("IdMap", {"resolve_temp_ids": True, "data": {}}))
        hooks["call:T::temp_id_prefix"] = lambda ev, recv, args, node, env: "!K"
        hooks["call:resolve_temp_id"] = lambda ev, recv, args, node, env: (some(int(args[0][2:])) if args[0][2:].isdigit() else None)
        hooks["call:HandleType::new"] = lambda ev, recv, args, node, env, width=width: StructVal("Handle", {"v": args[0] % (1 << width)})
        hooks["as_usize"] = lambda ev, recv, args, node, env: recv["v"] if isinstance(recv, StructVal) and recv.tyname == "Handle" else NotImplemented
        hooks["get"] = lambda ev, recv, args, node, env: (some(recv[args[0]]) if args[0] in recv else None) if isinstance(recv, dict) and not isinstance(recv, StructVal) else NotImplemented
        hooks["call:Self::store_typeinfo"] = lambda ev, recv, args, node, env: "type"
        hooks["to_string"] = lambda ev, recv, args, node, env: recv if isinstance(recv, str) else NotImplemented
        for n_ in (0, 7, (1 << width) - 1, 1 << width, (1 << width) + 3):
            ident = "!K%d" % n_
            try:
                got = Evaluator(hooks=hooks).run_body(f.body, {"self": StructVal("Store", {}), "id": ident})
            except (Unknown, Panic) as e:
                ctx.report(r, "unevaluated", "resolve_id could not be evaluated (%s): that temporary ids are not truncated is not established" % e, f.file, f.line)
                return
            fits = n_ < (1 << width)
            r.hit("%d:%s" % (width, ident), sample={"handle_width": width, "id": ident, "resolves_to": repr(got)})
            isok = isinstance(got, tuple) and got and got[0] == "ok"
            if fits and not (isok and got[1]["v"] == n_):
                ctx.report(r, "fits:%d" % width, "resolve_id(%r) answers %r for %s although the number fits: temporary ids no longer resolve" % (ident, got, name), f.file, f.line)
            if not fits and isok:
                ctx.report(r, "truncates:%d" % width, "resolve_id(%r) resolves to handle %s for %s: the number does not fit the handle type and is truncated, so the id of no item resolves to another item" % (ident, got[1]["v"], name), f.file, f.line)


# ---------------------------------------------------------------------- SLOTLOOP
def _exits(node):
    """break / return statements of a block that leave the enclosing loop (nested loops and closures are skipped for break)"""
    out = []
    stack = [(node, False)]
    while stack:
        n, inner = stack.pop()
        if not isinstance(n, dict):
            continue
        k = n.get("k")
        if k == "closure" or k == "itemstmt":
            continue
        if k == "return" or (k == "break" and not inner):
            out.append(n)
        from synq import children
        for c in children(n):
            stack.append((c, inner or k in ("for", "while", "loop")))
    return out


def slotloop_rule(ctx, syn):
    """A store is a Vec<Option<T>> in which a removed item leaves a None behind.  A loop over the slots that stops at the
    first None (break/return on the empty side) treats every live item behind a gap as absent."""
    r = ctx.rule("C03.SLOTLOOP", "a loop over the slots of a store skips an empty slot and goes on: the None side of the slot test never leaves the loop")
    fields = set()
    for nm, st in syn.structs.items():
        for f in st.get("fields", []):
            t = re.sub(r"\s+", "", f["ty"]["s"]) if isinstance(f.get("ty"), dict) else ""
            if re.match(r"^(Store<|Vec<Option<)", t):
                fields.add(f["name"])
    n_loops = 0
    for fn in syn.fns:
        if not fn.body:
            continue
        for lp in walk(fn.body):
            if lp.get("k") != "for":
                continue
            it = unparse(lp["iter"], True)
            if not (re.search(r"\.(%s)\.(iter|iter_mut)\(\)(\.enumerate\(\))?$" % "|".join(sorted(fields)), it) or re.search(r"\.store(_mut)?\(\)\.(iter|iter_mut)\(\)(\.enumerate\(\))?$", it)):
                continue
            names = set(pat_names(lp["pat"]))

            def about_slot(e):
                # the slot itself: the loop variable, possibly through & * .as_ref() .as_mut() .as_deref()
                e = strip(e)
                while e.get("k") == "mcall" and e["method"] in ("as_ref", "as_mut", "as_deref", "as_deref_mut") and not e["args"]:
                    e = strip(e["recv"])
                return e.get("k") == "path" and len(e["path"]) == 1 and e["path"][0] in names
            tests = []  # (kind, none_side_node)
            for n in walk(lp["body"], skip_closures=True):
                k = n.get("k")
                if k == "let" and n.get("else") and n.get("init") and n["pat"]["s"].replace(" ", "").startswith("Some(") and about_slot(n["init"]):
                    tests.append(("let-else", n["else"]))
                elif k == "if":
                    c = strip(n["cond"])
                    if c.get("k") == "letexpr" and c["pat"]["s"].replace(" ", "").startswith("Some(") and about_slot(c["e"]):
                        tests.append(("if-let", n.get("else")))
                    elif c.get("k") == "mcall" and c["method"] == "is_none" and about_slot(c["recv"]):
                        tests.append(("is_none", n["then"]))
                    elif c.get("k") == "mcall" and c["method"] == "is_some" and about_slot(c["recv"]):
                        tests.append(("is_some", n.get("else")))
                elif k == "match" and about_slot(n["e"]):
                    for a in n["arms"]:
                        if a["pat"]["s"].replace(" ", "") in ("None", "_"):
                            tests.append(("match", a["body"]))
            if not tests:
                continue
            n_loops += 1
            key = "%s|%s" % (fn.qual, it)
            r.hit(key, sample={"fn": fn.qual, "loop_over": it, "slot_tests": [t[0] for t in tests]})
            for kind, side in tests:
                if side is None:
                    continue
                ex = _exits(side)
                if ex:
                    ctx.report(r, key, "%s loops over the slots %s and leaves the loop (%s) when a slot is empty: after any removal the live items stored behind the gap are not visited" % (fn.qual, it, unparse(ex[0])[:40]), fn.file, ex[0].get("l", lp["l"]))
    ctx.floor(r, n_loops, 10, "slot loops")


# ---------------------------------------------------------------------- TMPSYNC
def tmpsync_rule(ctx, prog):
    """whether "!A7" is a temporary id (a handle in disguise) or an ordinary public id is a flag of each id map that
    mirrors Config::strip_temp_ids; when a configuration is attached to the store the flags must follow on every path"""
    r = ctx.rule("C03.TMPSYNC", "AnnotationStore::propagate_full_config (run whenever a configuration is attached) brings the temporary-id flag of the store's id maps in line with the configuration on every path to its return")
    try:
        b = prog.one(r"^annotationstore::AnnotationStore::propagate_full_config$")
    except Exception as e:
        ctx.anchor_missing(r, str(e))
        return
    ctx.functions_analysed.add(b.id)
    calls = [bi for bi, t in b.calls() if re.search(r"IdMap::<.*>::set_resolve_temp_ids$|IdMap::set_resolve_temp_ids$", mirq.callee_of(t)[0] or "") and not b.blocks[bi].get("cleanup")]
    rets = [bi for bi, blk in enumerate(b.blocks) if blk["t"]["t"] == "return"]
    ctx.floor(r, len(calls), 3, "id maps synchronised by propagate_full_config")
    for i, x in enumerate(calls):
        r.hit("sync#%d" % (i + 1), sample={"call_block": x, "line": b.blocks[x]["t"].get("line")})
        if any(rt == 0 or b.can_reach(0, rt, avoid={x}) for rt in rets) and x != 0:
            ctx.report(r, "skippable#%d" % (i + 1), "propagate_full_config can return without the set_resolve_temp_ids call of line %s: on that path (e.g. a store without resources and datasets yet) the id map keeps treating \"!A<n>\" as a handle although the configuration says such ids are ordinary public ids (or the reverse), so ids resolve to another item or to none" % b.blocks[x]["t"].get("line"), b.file, b.blocks[x]["t"].get("line"))


# ---------------------------------------------------------------------- LATEID
def lateid_rule(ctx, syn):
    """StoreFor::insert registers the id an item carries at that moment.  An item that is inserted first and given its
    id afterwards (a sub-store whose @id is read after the sub-store was created) must be registered by hand."""
    from synq import children
    r = ctx.rule("C03.LATEID", "an identifier assigned to an item that is already in a store (fetched with get_mut) is registered in that store's id map in the same block")
    n = 0
    for fn in syn.fns:
        if not fn.body:
            continue
        for node in walk(fn.body):
            if node.get("k") != "if":
                continue
            c = strip(node["cond"])
            if c.get("k") != "letexpr" or "get_mut(" not in unparse(c["e"]).replace(" ", ""):
                continue
            names = set(pat_names(c["pat"]))
            for st_ in node["then"]["stmts"]:
                e = st_.get("e") if st_.get("k") == "exprstmt" else None
                if e and e.get("k") == "assign" and strip(e["left"]).get("k") == "field" and strip(e["left"])["member"] == "id" and strip(strip(e["left"])["base"]).get("k") == "path" and strip(strip(e["left"])["base"])["path"][0] in names:
                    n += 1
                    key = "%s|%s.id" % (fn.qual, strip(strip(e["left"])["base"])["path"][0])
                    block_src = " ".join(unparse(x) for x in node["then"]["stmts"])
                    reg = re.search(r"idmap\w*(\(\))?\.(register|insert)\(|idmap_mut\(\)", block_src) is not None
                    r.hit(key, sample={"fn": fn.qual, "assigns": unparse(e)[:50], "registers": reg})
                    if not reg:
                        ctx.report(r, key, "%s gives an item that is already stored its identifier (`%s`) without registering it in the id map: the identifier is shown by the item but does not resolve to it" % (fn.qual, unparse(e)[:60]), fn.file, e.get("l"))
        # the same with a plain `let x = ..get_mut(..)?;` in a block
        for blk in walk(fn.body):
            if not isinstance(blk.get("stmts"), list):
                continue
            names = set()
            for st_ in blk["stmts"]:
                if st_.get("k") == "let" and st_.get("init") is not None and "get_mut(" in unparse(st_["init"]).replace(" ", ""):
                    names.update(pat_names(st_["pat"]))
                e = st_.get("e") if st_.get("k") == "exprstmt" else None
                if e and e.get("k") == "assign" and strip(e["left"]).get("k") == "field" and strip(e["left"])["member"] == "id" and strip(strip(e["left"])["base"]).get("k") == "path" and strip(strip(e["left"])["base"])["path"][0] in names:
                    n += 1
                    key = "%s|%s.id" % (fn.qual, strip(strip(e["left"])["base"])["path"][0])
                    block_src = " ".join(unparse(x) for x in blk["stmts"])
                    reg = re.search(r"idmap\w*(\(\))?\.(register|insert)\(|idmap_mut\(\)", block_src) is not None
                    r.hit(key, sample={"fn": fn.qual, "assigns": unparse(e)[:50], "registers": reg})
                    if not reg:
                        ctx.report(r, key, "%s gives an item that is already stored its identifier (`%s`) without registering it in the id map: the identifier is shown by the item but does not resolve to it (and a second item can take the same identifier)" % (fn.qual, unparse(e)[:60]), fn.file, e.get("l"))
    ctx.floor(r, n, 1, "identifiers assigned after insertion")


# ---------------------------------------------------------------------- PREINSERT
def preinsert_rule(ctx, prog, rid="C03.PREINSERT"):
    """StoreFor::insert registers the item's id in the id map and only then calls the preinsert() hook ("if it returns an
    error the insert is cancelled").  Nothing takes the registration back, so a hook that can fail leaves the refused id
    behind, pointing at the next free handle: the next item inserted answers to it."""
    from props.c14 import fail_sites
    r = ctx.rule(rid, "no implementation of the preinsert() hook can return an error (StoreFor::insert has registered the id by then and does not take it back)")
    n = 0
    for bid, b in sorted(prog.bodies.items()):
        if not re.search(r"StoreCallbacks<.*>>::preinsert$|StoreCallbacks::preinsert$", bid) or b.d.get("derived"):
            continue
        n += 1
        ctx.functions_analysed.add(bid)
        fs = fail_sites(b)
        r.hit(bid, sample={"hook": bid, "error_exits": len(fs)})
        if fs:
            ctx.report(r, bid, "%s can return an error (%s, line %s): StoreFor::insert has already put the item's id into the id map, so the refused id stays behind and resolves to whatever item is inserted next" % (bid, fs[0][1], fs[0][2]), b.file, fs[0][2])
    ins = prog.one(r"^store::StoreFor::insert$")
    pre = [bi for bi, t in ins.calls() if (mirq.callee_of(t)[0] or "").endswith("StoreCallbacks::preinsert")]
    reg = [bi for bi, t in ins.calls() if re.search(r"HashMap.*::insert$", mirq.callee_of(t)[0] or "") or "{closure" in (mirq.callee_of(t)[0] or "")]
    r.notes.append("preinsert hooks: %d; StoreFor::insert calls the hook at block(s) %s" % (n, pre))
    ctx.floor(r, n, 3, "preinsert hooks")


# ---------------------------------------------------------------------- NOSHRINK
def noshrink_rule(ctx, prog, rid="C03.NOSHRINK"):
    """the readers pad a store with empty slots in front of an item that carries a temporary id (`!A7` goes to slot 7):
    Vec::resize_with(n).  resize_with also *shrinks*: with n below the current length - a file merged into a store that
    is not empty - it throws live items away without un-registering their ids, which then resolve to nothing or to the
    item that takes the slot.  Every such call must sit under the test n > current length."""
    import panics
    r = ctx.rule(rid, "every Vec::resize_with in a serde visitor of the stores is reached only under `new length > current length` of that store (padding never truncates)")
    n = 0
    for bid, b in sorted(prog.bodies.items()):
        if "Visitor" not in bid or b.d.get("derived"):
            continue
        for bi, t in b.calls():
            if not (mirq.callee_of(t)[0] or "").endswith("Vec::<T, A>::resize_with") or len(t.get("args", [])) < 2:
                continue
            n += 1
            newlen = panics.norm_key(str(b.key_of_operand(t["args"][1])))
            fs = panics.cmp_facts(b)
            grows = False
            for pol, f in panics.holds_at(b, bi, fs):
                if len(f) != 3:
                    continue
                op, x, y = f
                if not pol:
                    op = {"Lt": "Ge", "Le": "Gt", "Gt": "Le", "Ge": "Lt", "Eq": "Ne", "Ne": "Eq"}.get(op, op)
                x_, y_ = panics.norm_key(x), panics.norm_key(y)
                if (op in ("Gt", "Ge") and x_ == newlen and re.search(r"_len\(|::len\(|\.len\(", y)) or (op in ("Lt", "Le") and y_ == newlen and re.search(r"_len\(|::len\(|\.len\(", x)):
                    grows = True
            r.hit("%s#%d" % (mirq.short_fn(bid), n), sample={"visitor": bid[-80:], "new_length": newlen, "only_grows": grows})
            if not grows:
                ctx.report(r, "%s|may-truncate" % re.sub(r"^.*<(\w+::)*(\w+)<.*$", r"\2", bid), "%s calls resize_with(%s, ..) without a dominating test that %s exceeds the current length: merging a file with temporary ids into a store that already holds more items truncates the store - live items vanish while their public ids stay registered" % (bid[-90:], newlen, newlen), b.file, t.get("line"))
    ctx.floor(r, n, 2, "padding calls in the readers")


# ---------------------------------------------------------------------- MERGEID
def mergeid_rule(ctx, prog, rid="C03.MERGEID"):
    """Storable::merge replaces the content of an item that is already in the store (same public id) by the incoming one.
    The item stays in its slot, so it keeps *its own* handle: the value written to self.intid derives from the receiver
    only.  The incoming item was bound to the next free handle by StoreFor::insert before the duplicate was noticed -
    taking that over makes the id resolve to an item that claims a slot it does not sit in."""
    r = ctx.rule(rid, "in every Storable::merge the handle written back to the merged item derives from the receiver's own handle, never from the incoming item")
    n = 0
    for bid, b in sorted(prog.bodies.items()):
        if not re.search(r" as store::Storable>::merge$", bid) or b.d.get("derived"):
            continue
        n += 1
        ctx.functions_analysed.add(bid)
        bad = None
        writes = 0
        # where the receiver is overwritten as a whole (`*self = other`)
        whole = [(bi, si) for bi, blk in enumerate(b.blocks) for si, s_ in enumerate(blk["s"]) if (s_.get("p") or {}).get("l") == 1 and (s_["p"].get("p") == ["*"]) and s_.get("rv")]

        def source_of(op, depth=0):
            """follow copies back to where the value was read: ('self-intid', block, index) | ('other', description)"""
            pl = mirq.op_place(op)
            while pl is not None and depth < 12:
                depth += 1
                if pl["l"] == 1 and any(isinstance(x, dict) and x.get("n") == "intid" for x in pl["p"]):
                    return ("self-intid", None, None)
                if pl["p"]:
                    return ("other", "field of a temporary")
                sd = b.single_def(pl["l"])
                if sd is None:
                    return ("other", "arg%d" % pl["l"] if 0 < pl["l"] <= b.argc else "several definitions")
                bi_, si_, kind, payload = sd
                if kind == "call":
                    return ("other", "result of " + mirq.short_fn(mirq.callee_of(payload)[0] or "?"))
                rv_ = payload
                if rv_.get("r") in ("use", "cast") and rv_.get("o"):
                    q = mirq.op_place(rv_["o"])
                    if q is not None and q["l"] == 1 and any(isinstance(x, dict) and x.get("n") == "intid" for x in q["p"]):
                        return ("self-intid", bi_, si_)
                    pl = q
                    continue
                return ("other", rv_.get("r"))
            return ("other", "?")
        for bi, blk in enumerate(b.blocks):
            for si, s_ in enumerate(blk["s"]):
                p_ = s_.get("p") or {}
                if p_.get("l") == 1 and any(isinstance(x, dict) and x.get("n") == "intid" for x in p_.get("p", [])) and s_.get("rv"):
                    writes += 1
                    rv = s_["rv"]
                    op = rv.get("o")
                    src = source_of(op) if op else ("other", rv.get("r"))
                    if src[0] == "self-intid" and src[1] is not None:
                        # the receiver's handle must have been read before the receiver was overwritten
                        late = any((wb == src[1] and wi < src[2]) or (wb != src[1] and b.can_reach(wb, src[1])) for wb, wi in whole)
                        if late:
                            bad = (s_.get("line"), "the receiver's handle read after `*self = other`")
                    elif src[0] != "self-intid":
                        bad = (s_.get("line"), src[1])
        r.hit(bid, sample={"merge": mirq.short_fn(bid), "handle_writes": writes})
        if bad:
            ctx.report(r, "%s|handle-from-other" % re.sub(r"^<(\w+::)*(\w+) as.*$", r"\2", bid), "%s writes a handle to the merged item that is not the receiver's own handle saved before the overwrite (%s): the incoming item was bound to the next free slot by insert(), so after the merge the item in slot h says it is in slot `len` - its public id resolves to a handle that denotes nothing, and soon the next inserted item" % (bid, str(bad[1])[:80]), b.file, bad[0])
    ctx.floor(r, n, 2, "Storable::merge implementations")


# ---------------------------------------------------------------------- REQUEST
def request_rule(ctx, prog, rid="C03.REQUEST"):
    """`Request::to_handle(store)` is how every public id (a &str, a String, an item, a handle) is resolved; None is its
    ordinary answer for an id nothing carries.  A body that unwraps / expects that answer turns a lookup of an unknown
    id into a panic.  Decided over every MIR body of the crate through the producer of each unwrap's receiver."""
    import panics
    r = ctx.rule(rid, "no function unwraps or expects the answer of Request::to_handle: an id that resolves to nothing is an ordinary answer (None, false, an error), never a panic")
    sites = 0
    for bid, b in sorted(prog.bodies.items()):
        ths = [bi for bi, t in b.calls() if (mirq.callee_of(t)[0] or "") == "store::Request::to_handle" and not b.blocks[bi].get("cleanup")]
        if not ths:
            continue
        sites += len(ths)
        ctx.functions_analysed.add(bid)
        for s_ in panics.sources(b):
            if s_["kind"] == "unwrap" and s_["what"].endswith("<-Request::to_handle") and not panics.discharged(b, s_):   # (an unwrap under a dominating is_some() test cannot fire)
                ctx.report(r, "%s|%s" % (mirq.short_fn(bid), s_["what"]), "%s resolves a request with to_handle() and then `%s`s the answer: asking with an id that nothing carries (any string) panics instead of answering None / false / an error" % (bid, s_["what"].split("<-")[0]), b.file, s_.get("line"))
    r.hit("to_handle-call-sites", sample={"call_sites": sites})
    ctx.floor(r, sites, 12, "call sites of Request::to_handle (16 counted on the pinned tree)")


# ---------------------------------------------------------------------- IDFIRST
def idfirst_rule(ctx, prog, rid="C03.IDFIRST"):
    """a public id is whatever string an item carries, also one that has the shape of a temporary id ("!K1").  In
    StoreFor::resolve_id the lookup in the id map must come before the temporary reading of the string: the map lookup
    dominates the construction of a handle from the number (otherwise `key("!K1")` answers the item in slot 1, not the
    item whose id is "!K1")."""
    r = ctx.rule(rid, "StoreFor::resolve_id looks the string up in the id map before it reads it as a temporary id: the map lookup dominates Handle::new(number)")
    bs = prog.find_bodies(r"^store::StoreFor::resolve_id$")
    if len(bs) != 1:
        ctx.anchor_missing(r, "StoreFor::resolve_id")
        return
    b = bs[0]
    ctx.functions_analysed.add(b.id)
    gets = [bi for bi, t in b.calls() if re.search(r"HashMap::<.*>::get$", mirq.callee_of(t)[0] or "") and not b.blocks[bi].get("cleanup")]
    news = [(bi, t.get("line")) for bi, t in b.calls() if (mirq.callee_of(t)[0] or "").endswith("Handle::new") and not b.blocks[bi].get("cleanup")]
    r.hit(b.id, sample={"idmap_lookups": gets, "temporary_readings": [x[0] for x in news]})
    if not gets:
        ctx.anchor_missing(r, "the id map lookup (HashMap::get) in StoreFor::resolve_id")
        return
    for bi, line in news:
        if not any(b.dominates(g, bi) for g in gets):
            ctx.report(r, "temp-before-idmap", "StoreFor::resolve_id reads the string as a temporary id (Handle::new of its number) on a path that has not looked it up in the id map: an item whose public id has the shape of a temporary id (a key \"!K1\", a dataset created under the name \"!S3\") is not found under its id - the lookup answers whatever sits in that slot, or nothing", b.file, line)
            break
