"""C12 codepoint/byte conversion exact; tuning knobs never change answers.

UNIT  unit (Char/Byte) and coordinate-space discipline in the conversion code (A6)
ERR   the two conversion functions answer Ok only on an exact match of the cursor and
      fall through to Err; no undischarged panic source inside them
DIV   create_milestones is called only under interval > 0
KNOB  milestone_interval is read only where milestones are created (plus plumbing)
MILE  every consumer of the raw position index filters milestone-only entries
INVALIDATE check_mutation resets every text-derived field under no foreign guard"""
import json
import os
import re
import mirq
import panics
import units
from synq import Syn, walk, find, unparse, strip
from core import VERIF
from props.c09 import total_rule, load_safe

UNIT_FILES = ("src/resources.rs", "src/api/text.rs", "src/text.rs", "src/textselection.rs", "src/selector.rs", "src/api/resources.rs", "src/api/textselection.rs",
              "src/annotationstore.rs", "src/api/webanno.rs", "src/csv.rs", "src/api/transpose.rs", "src/textvalidation.rs", "src/api/annotation.rs")

# raw accessors of the position index that expose milestone entries (documented low-level API)
RAW_ACCESSORS = {
    "resources::TextResource::position": "returns the raw entry (Some for a milestone position)",
    "resources::TextResource::positionindex_iter": "raw iterator over all entries",
    "resources::TextResource::positionindex_len": "counts all entries",
}
# accessors with a mode parameter: every arm must filter
MODE_ACCESSORS = ("positions", "positions_in_range")
# consumers that hand the raw iterator on to a struct whose next() does the filtering
DELEGATES = {
    "api::resources::<impl store::ResultItem<'store, resources::TextResource>>::segmentation": "stores the iterator in SegmentationIter; SegmentationIter::next filters (it is itself a checked consumer)",
    "api::resources::<impl store::ResultItem<'store, resources::TextResource>>::segmentation_in_range": "stores the iterator in SegmentationIter; SegmentationIter::next filters (it is itself a checked consumer)",
}
KNOB_READERS_OK = {
    "resources::TextResource::from_string": "decides whether create_milestones runs (guarded > 0)",
    "config::Config::milestone_interval": "getter",
    "config::Config::with_milestone_interval": "setter",
    "resources::TextResource::initialize": "decides whether create_milestones runs (guarded > 0)",
    "resources::TextResource::check_mutation": "re-creates milestones after the text changed (guarded > 0)",
    "resources::TextResource::with_string": "re-creates milestones after the text changed (guarded > 0)",
    "<config::Config as std::default::Default>::default": "default value",
}


def load_units_ok():
    with open(os.path.join(VERIF, "rules", "units_ok.json")) as fh:
        return json.load(fh)


def unit_rule(ctx, rule, prog, files, floor_bodies):
    ok = load_units_ok()
    v, st = units.analyse(prog, lambda b: b.file in files)
    rule.notes.append("bodies analysed: %d; locals with an inferred unit: %d; conflicting (ignored) locals: %d" % (st["bodies"], st["locals_with_unit"], st["conflicts"]))
    rule.instances += st["locals_with_unit"]
    for x in v:
        rule.hit(x["key"], sample={"site": x["key"], "what": x["detail"]})
        if x["key"] in ok:
            continue
        ctx.report(rule, x["key"], "unit/coordinate mismatch in %s: %s" % (x["body"], x["detail"]), x["file"], x["line"])
    ctx.floor(rule, st["bodies"], floor_bodies, "bodies in the text modules")
    ctx.floor(rule, st["locals_with_unit"], 300, "values with an inferred unit")


def run(ctx):
    prog = mirq.Program(ctx.facts.mir())
    syn = Syn(ctx.facts.syn())
    ctx.not_decided += ["numeric exactness of the conversion loops themselves (char_indices counting) beyond unit discipline and the exact-match shape",
                        "that no *other* result changes with the knobs: only the two channels (milestone entries in the position index, shrink_to_fit) are closed structurally"]
    ctx.assumptions += ["rules/units_ok.json: six Byte values placed in an error payload whose message says so"]

    r_unit = ctx.rule("C12.UNIT", "no arithmetic/comparison between codepoint and byte positions, no value of one unit passed or stored as the other, no absolute position added to an absolute position")
    unit_rule(ctx, r_unit, prog, UNIT_FILES, 400)

    exact_rule(ctx, syn)
    subslice_rule(ctx, syn)
    slice_rule(ctx, prog)
    split_rule(ctx, syn)

    # ---------------- ERR
    r_err = ctx.rule("C12.ERR", "utf8byte / utf8byte_to_charpos return Ok only under an exact match on the cursor and otherwise fall through to Err; nothing in them can panic")
    for name in ("utf8byte", "utf8byte_to_charpos"):
        fn = syn.fn(name, self_ty="TextResource", trait="Text<'store,'store>")
        ctx.functions_analysed.add(fn.qual)
        param = fn.sig["inputs"][0]["pat"].get("name")

        def oks(node, guards, out):
            k = node.get("k")
            if k == "if":
                c = node["cond"]
                g = None
                if c.get("k") == "letexpr":
                    g = ("iflet", unparse(c["e"], strip_ref=True))
                else:
                    g = ("cond", unparse(c, strip_ref=True))
                oks(node["then"], guards + [g], out)
                if node.get("else"):
                    oks(node["else"], guards + [("else", g[1])], out)
                return
            if k == "call" and unparse(node["func"]) == "Ok":
                out.append((node, list(guards)))
            if k == "closure":
                return
            for key, v in node.items():
                if isinstance(v, dict):
                    oks(v, guards, out)
                elif isinstance(v, list):
                    for e in v:
                        if isinstance(e, dict):
                            oks(e, guards, out)
        out = []
        oks(fn.body, [], out)
        for node, guards in out:
            r_err.hit("%s:ok" % name, sample={"function": name, "guards": [g[1][:60] for g in guards]})
            exact = False
            for kind, g in guards:
                if kind == "cond" and re.search(r"==", g) and param in g and not re.search(r"[<>]=?[^=]|>=|<=", g.replace("==", "")):
                    exact = True
                if kind == "iflet" and re.search(r"\.get\(%s\)$" % param, g):
                    exact = True
            if not exact:
                ctx.report(r_err, "%s:inexact-ok" % name, "%s returns Ok under guards %s, none of which is an exact match on `%s`: a position beyond the text or inside a character is answered with a number instead of an error" % (
                    name, [g[1][:50] for g in guards], param), fn.file, node["l"])
        # falls through to Err
        tail = fn.body["stmts"][-1] if fn.body["stmts"] else None
        errs = [n for n in walk(fn.body) if n.get("k") == "call" and unparse(n["func"]) == "Err"]
        r_err.hit("%s:err" % name)
        if not errs:
            ctx.report(r_err, "%s:no-err" % name, "%s has no Err exit" % name, fn.file, fn.line)
        ctx.floor(r_err, len(out), 4, "Ok exits of %s" % name)
    roots = [b.id for b in prog.find_bodies(r"^<resources::TextResource as text::Text<'store, 'store>>::(utf8byte|utf8byte_to_charpos)$")]
    total_rule(ctx, r_err, prog, roots, load_safe("C12"), 2, 2)

    div_rule(ctx, prog)

    # ---------------- KNOB
    r_knob = ctx.rule("C12.KNOB", "Config.milestone_interval is read only by its accessors and by the code that decides whether to place milestones")
    nread = 0
    for bid, b in prog.bodies.items():
        if b.d.get("derived"):
            continue
        reads = False
        for blk in b.blocks:
            for s in blk["s"]:
                rv = s.get("rv")
                places = []
                if rv:
                    for o in mirq._operands_of_rvalue(rv):
                        p = mirq.op_place(o)
                        if p:
                            places.append(p)
                    if rv.get("p"):
                        places.append(rv["p"])
                for p in places:
                    if any(isinstance(e, dict) and e.get("n") == "milestone_interval" and e.get("a") == "config::Config" for e in p["p"]):
                        reads = True
        if reads:
            nread += 1
            r_knob.hit(bid)
            if bid not in KNOB_READERS_OK:
                ctx.report(r_knob, bid, "%s reads Config.milestone_interval: a performance-only setting must not influence anything but the placement of milestones" % bid, b.file, b.line)
    # callers of the getter
    getter_sites = prog.call_sites_of("config::Config::milestone_interval")
    for cb, bi, t in getter_sites:
        nread += 1
        r_knob.hit("getter<-" + cb.id)
        if cb.id not in KNOB_READERS_OK:
            ctx.report(r_knob, "getter<-" + cb.id, "%s calls Config::milestone_interval(): a performance-only setting must not influence anything but the placement of milestones" % cb.id, cb.file, t.get("line"))
    ctx.floor(r_knob, nread, 3, "readers of milestone_interval")

    # ---------------- MILE
    r_mile = ctx.rule("C12.MILE", "every consumer of a raw position-index accessor filters entries without selections (milestones), or uses only their byte position")
    ncons = 0
    filtering = set()
    deferred = []
    for bid, b in sorted(prog.bodies.items()):
        if b.d.get("derived") or bid in RAW_ACCESSORS:
            continue
        raw = []
        filt = False
        for bi, t in b.calls():
            decl, res, info = mirq.callee_of(t)
            if decl in RAW_ACCESSORS:
                raw.append((decl, t.get("line")))
            if decl and re.search(r"PositionIndexItem::(len_begin2end|len_end2begin|iter_begin2end|iter_end2begin)$", decl):
                filt = True
        if not raw:
            continue
        # direct field reads of begin2end / end2begin, also in the closures of this body
        for cb in [b] + [c for cid, c in prog.bodies.items() if cid.startswith(bid + "::{closure")]:
            for blk in cb.blocks:
                for s in blk["s"]:
                    if "begin2end" in json.dumps(s) or "end2begin" in json.dumps(s):
                        filt = True
                t = blk["t"]
                if t["t"] == "call":
                    d2 = mirq.callee_of(t)[0] or ""
                    if re.search(r"PositionIndexItem::(len_begin2end|len_end2begin|iter_begin2end|iter_end2begin|bytepos)$", d2):
                        filt = True
        ncons += 1
        r_mile.hit(bid, sample={"consumer": bid, "raw": [r[0] for r in raw], "filters": filt})
        if filt:
            filtering.add(bid)
        if not filt and bid in DELEGATES:
            deferred.append((bid, b, raw))
            continue
        if not filt:
            ctx.report(r_mile, bid, "%s consumes %s without looking at begin2end/end2begin: milestone entries (present or absent depending on milestone_interval and text length) are treated as selection boundaries" % (
                bid, sorted(set(mirq.short_fn(r[0]) for r in raw))), b.file, raw[0][1])
    seg_next = "<api::resources::SegmentationIter<'a> as std::iter::Iterator>::next"
    for bid, b, raw in deferred:
        if seg_next not in filtering:
            ctx.report(r_mile, bid, "%s hands positions to SegmentationIter, but SegmentationIter::next no longer looks the position up and tests begin2end/end2begin: segmentation cuts at milestone positions, which depend on milestone_interval" % bid, b.file, raw[0][1])
    for nm in MODE_ACCESSORS:
        fn = syn.fn(nm, self_ty="TextResource")
        ctx.functions_analysed.add(fn.qual)
        ms = [m_ for m_ in find(fn.body, "match") if unparse(m_["e"]) == "mode"]
        if len(ms) != 1:
            ctx.anchor_missing(r_mile, "`match mode` in TextResource::%s" % nm)
            continue
        for a in ms[0]["arms"]:
            arm = a["pat"]["s"].replace(" ", "")
            r_mile.hit("%s:%s" % (nm, arm))
            src = unparse(a["body"])
            if "begin2end" not in src and "end2begin" not in src:
                ctx.report(r_mile, "%s:%s" % (nm, arm), "TextResource::%s returns the raw keys of the position index in arm %s: milestone entries are reported as positions in use, so the answer depends on milestone_interval" % (nm, arm), fn.file, a["l"])
    # the raw accessors themselves are public low-level API: their exposure is a documented finding
    for acc, why in sorted(RAW_ACCESSORS.items()):
        if acc in prog.bodies and prog.bodies[acc].d.get("reachable"):
            r_mile.hit("raw:" + acc)
            ctx.report(r_mile, "raw-public:" + acc, "public accessor %s exposes milestone entries (%s): its answer depends on milestone_interval" % (acc, why), prog.bodies[acc].file, prog.bodies[acc].line)
    r_mile.notes.append("consumers of raw accessors: %d" % ncons)
    invalidate_rule(ctx, syn)
    delegate_rule(ctx, prog)


# ---------------------------------------------------------------------- INVALIDATE
def self_fields(node):
    out = set()
    for n in walk(node):
        if n.get("k") == "field" and strip(n["base"]).get("k") == "path" and strip(n["base"])["path"] == ["self"]:
            out.add(n["member"])
    return out


def invalidate_rule(ctx, syn):
    """Replacing the text of a resource throws away everything computed from the old text.  The derived fields are read
    off the code: what create_milestones and the TextSelection insertion callback write, and the text selection store."""
    r = ctx.rule("C12.INVALIDATE", "TextResource::check_mutation resets every field derived from the text (position index, byte map, text selections) whenever text is replaced: each reset is unconditional or guarded by that field's own emptiness only")
    cm = syn.fn("check_mutation", self_ty="TextResource")
    ctx.functions_analysed.add(cm.qual)
    derived = {}
    writers = [("create_milestones", syn.find_fns("create_milestones", self_ty="TextResource")),
               ("inserted", [f for f in syn.find_fns("inserted", self_ty="TextResource") if "TextSelection" in (f.trait or "")]),
               ("store_mut", [f for f in syn.find_fns("store_mut", self_ty="TextResource") if "TextSelection" in (f.trait or "")])]
    for nm, fs in writers:
        if len(fs) != 1:
            ctx.anchor_missing(r, "TextResource::%s" % nm)
            continue
        f = fs[0]
        ctx.functions_analysed.add(f.qual)
        if nm == "store_mut":
            for fld in self_fields(f.body):
                derived.setdefault(fld, nm)
            continue
        for n in walk(f.body):
            tgt = None
            if n.get("k") == "mcall" and n["method"] in ("insert", "push", "entry", "extend", "push_back"):
                tgt = n["recv"]
            elif n.get("k") == "assign":
                tgt = n["left"]
            if tgt is not None:
                for fld in self_fields(tgt):
                    derived.setdefault(fld, nm)
    derived.pop("text", None)
    derived.pop("textlen", None)
    derived.pop("changed", None)
    ctx.floor(r, len(derived), 3, "fields derived from the text")
    resets = {}

    def visit(node, conds):
        k = node.get("k") if isinstance(node, dict) else None
        if k == "if":
            visit(node["cond"], conds)
            visit(node["then"], conds + [node["cond"]])
            if node.get("else"):
                visit(node["else"], conds + [node["cond"]])
            return
        if k == "assign":
            for fld in self_fields(node["left"]):
                resets.setdefault(fld, []).append(conds)
        if k == "mcall" and node["method"] == "clear":
            for fld in self_fields(node["recv"]):
                resets.setdefault(fld, []).append(conds)
        if k == "closure":
            return
        from synq import children
        for c in children(node):
            visit(c, conds)
    visit(cm.body, [])
    for fld, why in sorted(derived.items()):
        r.hit(fld, sample={"field": fld, "derived_because_written_by": why, "resets": len(resets.get(fld, []))})
        if fld not in resets:
            ctx.report(r, "no-reset:" + fld, "TextResource::check_mutation does not reset self.%s (written by %s from the text): entries computed for the old text survive a text replacement and answer conversions for the new one" % (fld, why), cm.file, cm.line)
            continue
        for conds in resets[fld]:
            foreign = set()
            for c in conds:
                foreign |= self_fields(c) - {fld, "text"}
            if foreign:
                ctx.report(r, "foreign-guard:" + fld, "TextResource::check_mutation resets self.%s only under a condition on self.%s: when that is empty but self.%s is not (milestones exist without any text selection), stale entries for the old text survive" % (fld, "/".join(sorted(foreign)), fld), cm.file, cm.line)


# ---------------------------------------------------------------------- EXACT
def exact_rule(ctx, syn):
    """utf8byte / utf8byte_to_charpos of TextResource, evaluated from their syntax trees on small texts with
    multi-byte characters and *every* content of the position index (any subset of the positions, with or
    without the end), return exactly the byte offset / codepoint position, and an error beyond the text"""
    import itertools
    from formula import Evaluator, Unknown, Panic, StructVal, EnumVal, some, is_some, ok
    r = ctx.rule("C12.EXACT", "utf8byte(c) is the byte offset of codepoint c and utf8byte_to_charpos is its inverse, for every content of the position index (milestones or not, end entry or not)")
    f_b = syn.fn("utf8byte", self_ty="TextResource", trait="Text<'store,'store>")
    f_c = syn.fn("utf8byte_to_charpos", self_ty="TextResource", trait="Text<'store,'store>")
    ctx.functions_analysed.update([f_b.qual, f_c.qual])
    hooks = {}

    def h_get(ev, recv, args, node, env):
        if isinstance(recv, dict) and not isinstance(recv, StructVal):
            return some(recv[args[0]]) if args[0] in recv else None
        return NotImplemented
    hooks["get"] = h_get

    def h_range(ev, recv, args, node, env):
        if isinstance(recv, dict) and not isinstance(recv, StructVal) and len(args) == 1 and isinstance(args[0], tuple) and len(args[0]) == 2:
            lo, hi = args[0]
            def inside(k):
                okl = (k >= lo.args[0]) if lo.name == "Included" else (k > lo.args[0]) if lo.name == "Excluded" else True
                okh = (k <= hi.args[0]) if hi.name == "Included" else (k < hi.args[0]) if hi.name == "Excluded" else True
                return okl and okh
            return [(k, recv[k]) for k in sorted(recv) if inside(k)]
        return NotImplemented
    hooks["range"] = h_range
    hooks["call:Included"] = lambda ev, recv, args, node, env: EnumVal("Included", args)
    hooks["call:Excluded"] = lambda ev, recv, args, node, env: EnumVal("Excluded", args)
    hooks["next_back"] = lambda ev, recv, args, node, env: (some(recv[-1]) if recv else None) if isinstance(recv, list) else NotImplemented
    hooks["next"] = lambda ev, recv, args, node, env: (some(recv[0]) if recv else None) if isinstance(recv, list) else NotImplemented
    hooks["text"] = lambda ev, recv, args, node, env: recv["text"] if isinstance(recv, StructVal) and "text" in recv else NotImplemented

    def char_indices(ev, recv, args, node, env):
        if isinstance(recv, str):
            out = []
            b = 0
            for ch in recv:
                out.append((b, ch))
                b += len(ch.encode("utf8"))
            return out
        return NotImplemented
    hooks["char_indices"] = char_indices
    hooks["chars"] = lambda ev, recv, args, node, env: list(recv) if isinstance(recv, str) else NotImplemented
    hooks["enumerate"] = lambda ev, recv, args, node, env: [(i, x) for i, x in enumerate(recv)] if isinstance(recv, list) else NotImplemented
    hooks["len_utf8"] = lambda ev, recv, args, node, env: len(recv.encode("utf8")) if isinstance(recv, str) else NotImplemented
    texts = ["", "a", "aé", "é€b", "😀a€", "ab€c"]
    reported = set()
    n = 0
    for text in texts:
        chars = list(text)
        offs = [0]
        for ch in chars:
            offs.append(offs[-1] + len(ch.encode("utf8")))
        L = len(chars)
        for mask in range(1 << (L + 1)):
            entries = [p_ for p_ in range(L + 1) if mask & (1 << p_)]
            pidx = dict((p_, StructVal("PositionIndexItem", {"bytepos": offs[p_]})) for p_ in entries)
            b2c = dict((offs[p_], p_) for p_ in entries)
            slf = StructVal("TextResource", {"text": text, "textlen": L, "positionindex": (pidx,), "byte2charmap": b2c})
            for cur in range(L + 3):
                want = ok(offs[cur]) if cur <= L else "err"
                n += 1
                try:
                    got = Evaluator(hooks=hooks).run_body(f_b.body, {"self": slf, "abscursor": cur})
                except (Unknown, Panic) as e:
                    got = "unevaluated/panic: %s" % e
                if isinstance(got, tuple) and got and got[0] == "err":
                    got = "err"
                r.obligations += 1
                if got == want:
                    r.discharged += 1
                else:
                    key = "utf8byte:%s" % ("unevaluated" if isinstance(got, str) and got.startswith("uneval") else ("end" if cur == L else "inside" if cur < L else "beyond"))
                    if key not in reported:
                        reported.add(key)
                        ctx.report(r, key, "TextResource::utf8byte(%d) on the text %r with position-index entries at %s answers %s; the byte offset of that codepoint is %s" % (cur, text, entries, got, want), f_b.file, f_b.line, {"text": text, "index": entries, "cursor": cur})
            for bc in range(offs[-1] + 2):
                want = ok(offs.index(bc)) if bc in offs else "err"
                n += 1
                try:
                    got = Evaluator(hooks=hooks).run_body(f_c.body, {"self": slf, "bytecursor": bc})
                except (Unknown, Panic) as e:
                    got = "unevaluated/panic: %s" % e
                if isinstance(got, tuple) and got and got[0] == "err":
                    got = "err"
                r.obligations += 1
                if got == want:
                    r.discharged += 1
                else:
                    key = "utf8byte_to_charpos:%s" % ("unevaluated" if isinstance(got, str) and got.startswith("uneval") else ("end" if bc == offs[-1] else "boundary" if bc in offs else "inside-char" if bc < offs[-1] else "beyond"))
                    if key not in reported:
                        reported.add(key)
                        ctx.report(r, key, "TextResource::utf8byte_to_charpos(%d) on the text %r with index entries at %s answers %s; expected %s" % (bc, text, entries, got, want), f_c.file, f_c.line, {"text": text, "index": entries, "byte": bc})
    r.hit("grid", sample={"texts": texts, "index_contents": "every subset of the positions 0..=len", "evaluations": n})
    ctx.floor(r, n, 1078, "conversion evaluations")


# ---------------------------------------------------------------------- DELEGATE
def delegate_rule(ctx, prog):
    """The exactness and the error contract of the conversions are established for TextResource (ERR, EXACT).  The
    conversions of the wrappers (ResultItem<TextResource>, ResultItem<TextSelection>, ResultTextSelection) inherit them
    only by going through the resource's conversion on every path that returns a value."""
    r = ctx.rule("C12.DELEGATE", "utf8byte / utf8byte_to_charpos of every wrapper type answer through the TextResource conversion of the same name on every path (so out-of-range positions are errors there too, and no second counting loop exists)")
    n = 0
    for bid, b in sorted(prog.bodies.items()):
        m = re.search(r"^api::text::<impl text::Text<.*> for (.*)>::(utf8byte|utf8byte_to_charpos)$", bid)
        if not m or b.d.get("derived"):
            continue
        n += 1
        ctx.functions_analysed.add(bid)
        name = m.group(2)
        dele = set(bi for bi, t in b.calls() if (mirq.callee_of(t)[0] or "").endswith("::" + name) and "resources::TextResource" in ((mirq.callee_of(t)[1] or "") + " " + ((t.get("at") or [""])[0])))
        rets = [bi for bi, blk in enumerate(b.blocks) if blk["t"]["t"] == "return"]
        # error exits (the function's own `return Err(..)`, or a propagated error) need no delegation
        errs = set(bi for bi, blk in enumerate(b.blocks) if any((s_.get("rv") or {}).get("r") == "agg" and (s_["rv"].get("variant") == "Err") and s_["p"]["l"] == 0 and not s_["p"]["p"] for s_ in blk["s"]))
        errs |= set(bi for bi, t in b.calls() if (mirq.callee_of(t)[0] or "").endswith("FromResidual::from_residual"))
        avoid_ = dele | errs
        bypass = not dele or any(rt == 0 or b.can_reach(0, rt, avoid=avoid_) for rt in rets if 0 not in avoid_)
        r.hit(bid, sample={"wrapper": m.group(1), "fn": name, "delegates": bool(dele), "bypass": bool(bypass)})
        if bypass:
            ctx.report(r, "%s|%s" % (m.group(1), name), "%s of %s can return without going through TextResource::%s: its answers (in particular the error for a position outside the text) are no longer those of the checked conversion" % (name, m.group(1), name), b.file, b.line)
    ctx.floor(r, n, 6, "wrapper conversions")
    # a text *selection* converts positions relative to itself: a position beyond its own length must be refused before the
    # resource (which only knows the length of the whole text) is asked
    rb = ctx.rule("C12.BOUND", "utf8byte / utf8byte_to_charpos of the text-selection wrappers compare the position with the selection's own length on the way to the delegated conversion (a position beyond the selection but inside the resource is an error, not a number)")
    nb = 0
    for bid, b in sorted(prog.bodies.items()):
        m = re.search(r"^api::text::<impl text::Text<.*> for (.*TextSelection.*)>::(utf8byte|utf8byte_to_charpos)$", bid)
        if not m or b.d.get("derived"):
            continue
        nb += 1
        name = m.group(2)
        dele = [bi for bi, t in b.calls() if (mirq.callee_of(t)[0] or "").endswith("::" + name) and "resources::TextResource" in ((mirq.callee_of(t)[1] or "") + " " + ((t.get("at") or [""])[0]))]
        argname = b.local_name(2) or "_2"
        facts_ = panics.cmp_facts(b)
        ok = False
        for d_ in dele:
            for pol, f in panics.holds_at(b, d_, facts_):
                if len(f) == 3 and f[0] in ("Gt", "Ge", "Lt", "Le") and (panics.norm_key(f[1]) == argname or panics.norm_key(f[2]) == argname):
                    other = f[2] if panics.norm_key(f[1]) == argname else f[1]
                    if re.search(r"textlen|len\(", other):
                        ok = True
        rb.hit(bid, sample={"wrapper": m.group(1), "fn": name, "bound_check_before_delegation": ok})
        if not ok:
            ctx.report(rb, "%s|%s" % (m.group(1), name), "%s of %s hands the position to the resource's conversion without first comparing it with the selection's own length: a position beyond the selection (but inside the resource) yields a number instead of an error" % (name, m.group(1)), b.file, b.line)
    ctx.floor(rb, nb, 4, "selection-level conversions")


def div_rule(ctx, prog, rid="C12.DIV"):
    r_div = ctx.rule(rid, "create_milestones (charpos % interval) is reached only under milestone_interval > 0")
    cm = prog.one(r"^resources::TextResource::create_milestones$")
    sites = prog.call_sites_of(cm.id)
    for cb, bi, t in sites:
        k = "%s" % cb.id
        r_div.hit(k)
        arg = cb.key_of_operand(t["args"][1]) if len(t.get("args", [])) > 1 else "?"
        facts_ = panics.cmp_facts(cb)
        ok = False
        for pol, f in panics.holds_at(cb, bi, facts_):
            if len(f) == 3:
                op, x, y = f
                if not pol:
                    op = {"Lt": "Ge", "Le": "Gt", "Gt": "Le", "Ge": "Lt", "Eq": "Ne", "Ne": "Eq"}[op]
                if (op == "Gt" and y == "const:0" and panics.norm_key(x) == panics.norm_key(arg)) or (op == "Lt" and x == "const:0" and panics.norm_key(y) == panics.norm_key(arg)) or \
                   (op == "Ne" and y == "const:0" and panics.norm_key(x) == panics.norm_key(arg)):
                    ok = True
        if not ok:
            ctx.report(r_div, k, "%s calls create_milestones(%s) without a dominating `%s > 0` test: interval 0 divides by zero" % (cb.id, arg, arg), cb.file, t.get("line"))
    ctx.floor(r_div, len(sites), 3, "call sites of create_milestones")



# ---------------------------------------------------------------------- SUBSLICE
def subslice_rule(ctx, syn):
    """subslice_utf8_offset is how a selection finds its own begin byte in the resource (every relative conversion starts
    with it and `expect`s an answer).  Its three copies are evaluated on a grid of addresses: text at [base, base+len],
    candidate slices starting from base-1 to base+len+1.  A slice that starts anywhere in the closed range - the empty
    slice at the very end included: that is the empty selection at the end of a text - is at offset start-base; anything
    else is not a sub-slice."""
    from formula import Evaluator, StructVal, Unknown, Panic, some, is_some, fmt
    r = ctx.rule("C12.SUBSLICE", "every copy of subslice_utf8_offset answers Some(start - base) for a slice that starts inside the text or at its end (closed range), None otherwise")
    fns = [f for f in syn.fns if f.name == "subslice_utf8_offset" and f.body is not None]
    M = 1 << 64

    def h_text(ev, recv, args, node, env):
        if isinstance(recv, StructVal) and "text" in recv and not args:
            return recv["text"]
        return NotImplemented

    def h_as_ptr(ev, recv, args, node, env):
        if isinstance(recv, StructVal) and recv.tyname == "Str":
            return recv["ptr"]
        return NotImplemented

    def h_len(ev, recv, args, node, env):
        if isinstance(recv, StructVal) and recv.tyname == "Str":
            return recv["len"]
        return NotImplemented

    def h_same(ev, recv, args, node, env):
        if isinstance(recv, StructVal) and recv.tyname == "Str":
            return recv
        return NotImplemented

    def h_range(ev, recv, args, node, env):
        if isinstance(recv, StructVal) and recv.tyname == "Str":
            return StructVal("Range", {"start": recv["ptr"], "end": recv["ptr"] + recv["len"]})
        return NotImplemented

    def h_contains(ev, recv, args, node, env):
        if isinstance(recv, StructVal) and recv.tyname == "Range" and len(args) == 1 and isinstance(args[0], int):
            return recv["start"] <= args[0] < recv["end"]
        if isinstance(recv, tuple) and recv and recv[0] == "range" and len(args) == 1 and isinstance(args[0], int):
            hi = recv[2] + (1 if recv[3] else 0)
            return recv[1] <= args[0] < hi
        return NotImplemented

    def h_wrap(op):
        def h(ev, recv, args, node, env):
            if isinstance(recv, int) and len(args) == 1 and isinstance(args[0], int):
                return (recv + args[0]) % M if op == "+" else (recv - args[0]) % M
            return NotImplemented
        return h

    def h_checked_sub(ev, recv, args, node, env):
        if isinstance(recv, int) and len(args) == 1 and isinstance(args[0], int):
            return some(recv - args[0]) if recv >= args[0] else None
        return NotImplemented

    hooks = {"text": h_text, "as_ptr": h_as_ptr, "len": h_len, "as_bytes": h_same, "as_str": h_same, "as_ptr_range": h_range, "contains": h_contains,
             "wrapping_add": h_wrap("+"), "wrapping_sub": h_wrap("-"), "checked_sub": h_checked_sub, "addr": lambda ev, recv, args, node, env: recv if isinstance(recv, int) else NotImplemented}
    n = 0
    for f in fns:
        who = "%s (%s)" % (f.qual, f.file)
        ctx.functions_analysed.add(f.qual)
        bad = None
        for base, ln in ((1000, 0), (1000, 1), (1000, 5)):
            for start in range(base - 1, base + ln + 2):
                me = StructVal("Self", {"text": StructVal("Str", {"ptr": base, "len": ln})})
                sub = StructVal("Str", {"ptr": start, "len": 0})
                ev = Evaluator(hooks=hooks)
                try:
                    got = ev.run_body(f.body, {"self": me, "subslice": sub})
                except (Unknown, Panic) as ex:
                    bad = ("unevaluated", "could not be evaluated (%s)" % ex)
                    break
                n += 1
                want = some(start - base) if base <= start <= base + ln else None
                if got != want:
                    bad = ("boundary", "answers %s for a slice starting at byte %d of a text of %d bytes (address %d, text at %d); expected %s" % (fmt(got), start - base, ln, start, base, fmt(want)))
                    break
            if bad:
                break
        r.hit(who, sample={"copy": who, "agrees": bad is None})
        if bad:
            ctx.report(r, "%s|%s|%s" % (f.file, (f.self_ty or f.trait or "?")[:40], bad[0]), "subslice_utf8_offset in %s %s: the empty selection at the end of a text (and every selection of an empty text) has its begin byte there, and every relative conversion on it `expect`s this answer" % (who, bad[1]), f.file, f.line)
    ctx.floor(r, len(fns), 3, "copies of subslice_utf8_offset")


# ---------------------------------------------------------------------- SLICE
def slice_rule(ctx, prog, rid="C12.SLICE"):
    """every relative conversion finds the begin byte of a selection by the *address* of its text inside the resource's
    buffer (subslice_utf8_offset(self.text())).  So text() of a selection has to be a slice of that buffer on every path -
    also for an empty selection: a literal "" is equal as a string but lives elsewhere, and the conversions `expect` the
    address to lie in the buffer."""
    r = ctx.rule(rid, "text() of the text-selection wrappers returns a slice obtained from the resource's text on every path (never a string constant)")
    n = 0
    for bid, b in sorted(prog.bodies.items()):
        m = re.search(r"^api::text::<impl text::Text<.*> for (.*TextSelection.*)>::text$", bid)
        if not m or b.d.get("derived"):
            continue
        n += 1
        ctx.functions_analysed.add(bid)
        consts = []
        for bi, blk in enumerate(b.blocks):
            for s_ in blk["s"]:
                if s_["p"]["l"] == 0 and not s_["p"]["p"]:
                    rv = s_.get("rv") or {}
                    ops = [rv.get("o")] if rv.get("o") else []
                    if rv.get("r") == "ref" and rv.get("p"):
                        ops.append({"m": {"l": rv["p"]["l"], "p": []}})   # `_0 = &*tmp`: look at what tmp holds
                    for o in ops:
                        k = str(b.key_of_operand(o))
                        if k.startswith("const:"):
                            consts.append((k, s_.get("line")))
        r.hit(bid, sample={"wrapper": m.group(1), "constant_returns": [c_[0] for c_ in consts]})
        for k, line in consts:
            ctx.report(r, "%s|constant" % m.group(1), "text() of %s can return the constant %s instead of a slice of the resource's text: subslice_utf8_offset(self.text()) then finds no offset for it and utf8byte / utf8byte_to_charpos / text_by_offset / find_text_regex on that selection panic (`expect`)" % (m.group(1), k[6:]), b.file, line)
    ctx.floor(r, n, 2, "text() implementations of selection wrappers")



# ---------------------------------------------------------------------- SPLIT
def split_rule(ctx, syn, rid="C12.SPLIT"):
    """split_text() on a sub-selection: the constructor computes SplitTextIter.byteoffset, SplitTextIter::next subtracts
    it from the byte position of each piece in the resource and converts the result with the resource's
    utf8byte_to_charpos.  Both are interpreted together on selections that start at byte S of the resource, pieces m
    bytes into the selection and n bytes long: the bytes handed to the conversion must be S+m and S+m+n."""
    from formula import Evaluator, Unknown, Panic, StructVal, some, is_some, ok
    r = ctx.rule(rid, "split_text on a selection that starts at byte S hands the resource's byte->codepoint conversion the absolute bytes S+m .. S+m+n of each piece (constructor and SplitTextIter::next interpreted together)")
    ctors = [f for f in syn.fns if f.name == "split_text" and f.file == "src/api/text.rs" and f.body is not None]
    nxt = [f for f in syn.fns if f.name == "next" and (f.self_ty or "").startswith("SplitTextIter") and f.body is not None]
    if len(nxt) != 1 or len(ctors) < 2:
        ctx.anchor_missing(r, "FindText::split_text (two implementations for selections) / SplitTextIter::next")
        return
    nxt = nxt[0]
    ctx.functions_analysed.update([f.qual for f in ctors] + [nxt.qual])

    def unwrap(ev, recv, args, node, env):
        if recv is None:
            raise Panic("expect-on-none", node.get("l"))
        if is_some(recv):
            return recv[1]
        if isinstance(recv, tuple) and recv and recv[0] == "ok":
            return recv[1]
        if isinstance(recv, tuple) and recv and recv[0] == "err":
            raise Panic("expect-on-err", node.get("l"))
        return NotImplemented
    n = 0
    for ctor in ctors:
        bad = None
        try:
            for S in ((0,) if "TextResource" in (ctor.self_ty or "") else (0, 2, 5)):   # a resource starts at its own byte 0
                for m in (0, 3):
                    for ln in (0, 2):
                        res = StructVal("Res", {})
                        sel = StructVal("Sel", {"S": S})
                        seen = []

                        def subslice(ev, recv, args, node, env, S=S):
                            a = args[0]
                            if not (isinstance(a, StructVal) and a.tyname == "str"):
                                return NotImplemented
                            if isinstance(recv, StructVal) and recv.tyname == "Sel":
                                return some(a["base"] - S) if a["base"] >= S else None
                            if isinstance(recv, StructVal) and recv.tyname == "Res":
                                return some(a["base"])
                            return NotImplemented
                        hooks = {
                            "text": lambda ev, recv, args, node, env, S=S: StructVal("str", {"base": S, "len": 8}) if isinstance(recv, StructVal) and recv.tyname == "Sel" else NotImplemented,
                            "resource": lambda ev, recv, args, node, env: res, "store": lambda ev, recv, args, node, env: res, "rootstore": lambda ev, recv, args, node, env: res,
                            "subslice_utf8_offset": subslice, "expect": unwrap, "unwrap": unwrap,
                            "split": lambda ev, recv, args, node, env, S=S, m=m, ln=ln: StructVal("Split", {"piece": StructVal("str", {"base": S + m, "len": ln})}),
                            "next": lambda ev, recv, args, node, env: some(recv["piece"]) if isinstance(recv, StructVal) and recv.tyname == "Split" else NotImplemented,
                            "utf8byte_to_charpos": lambda ev, recv, args, node, env: (seen.append(args[0]) or ok(args[0])),
                            "call:Offset::simple": lambda ev, recv, args, node, env: ("off", args[0], args[1]),
                            "textselection": lambda ev, recv, args, node, env: ok(args[0]),
                        }
                        params = [p_["pat"].get("name") for p_ in ctor.sig["inputs"]]
                        env = dict(zip(params, ["," for _ in params]))
                        env["self"] = sel
                        it = Evaluator(hooks=hooks).run_body(ctor.body, env)
                        if not (isinstance(it, StructVal) and "byteoffset" in it):
                            raise Unknown("split_text does not build a SplitTextIter with a byteoffset")
                        Evaluator(hooks=hooks).run_body(nxt.body, {"self": it})
                        n += 1
                        want = [S + m, S + m + ln]
                        if [int(x) for x in seen] != want and bad is None:
                            bad = "for a selection that starts at byte %d and a piece %d bytes into it, %d bytes long, split_text converts the bytes %s with the resource's utf8byte_to_charpos; the piece lies at %s (byteoffset was computed as %s)" % (S, m, ln, [int(x) for x in seen], want, it["byteoffset"])
        except Panic as ex:
            bad = "split_text on a selection that starts at byte %d panics (%s) in the byte arithmetic" % (S, ex.kind)
        except Unknown as ex:
            ctx.report(r, "%s|unevaluated" % (ctor.self_ty or "?"), "split_text / SplitTextIter::next could not be interpreted (%s): the byte base of the pieces is not decided" % ex, ctor.file, ctor.line)
            continue
        r.hit("%s" % (ctor.self_ty or ctor.qual), sample={"constructor": ctor.qual, "evaluations": n})
        if bad:
            ctx.report(r, "%s|base" % (ctor.self_ty or "?"), bad + ": positions and text of the pieces are shifted, or the conversion panics", ctor.file, ctor.line)
    ctx.floor(r, n, 28, "constructor x piece evaluations")
