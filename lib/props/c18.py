"""C18 text validation: protect and validate agree.

The guarantee is a statement about run-time texts, but its two halves are produced by two small
decision procedures whose *agreement* is visible in the code.  The bodies of protect_text (per
annotation), ResultItem<Annotation>::validate_text and AnnotationStore::validate_text are
evaluated from the syntax tree (A7) over a finite scenario space in which the text, its digest and
the delimiter are opaque tokens:

ROUND   for every mode, number of selections, length class, delimiter and pre-existing info, what
        protect_text queues makes validate_text answer Some(true) on the same text and
        Some(false) on a different text, and every annotation with text gets validation info
KEYS    the key literal each queue is stored under is the key the matching reader looks up
VERDICT validate_text: any stored reference that differs -> Some(false); else any present ->
        Some(true); else None (all 18 combinations)
AGG     the store-level counters partition the annotations by their own verdict
DIRECT  the verdict counted for an annotation is computed from that annotation alone (no state
        carried across loop iterations flows into it)"""
import itertools
import re
from synq import Syn, walk, find, unparse, strip, pat_names
import formula
from formula import Evaluator, Unknown, Panic, StructVal, some, is_some

FILE = "src/textvalidation.rs"
REAL_CHECKSUM = None


class Scenario:
    def __init__(self, **kw):
        self.__dict__.update(kw)

    def text(self, delim):
        """the joined text is an opaque token that depends on the texts and on the delimiter"""
        if self.nsel == 0:
            return ""
        return "x" * self.length if self.nsel == 1 or not delim else ("x" * (self.length - 1) + delim + "x")

    def actual(self, delim, changed=False):
        t = self.text(delim)
        if changed and t:
            t = "y" + t[1:]
        return t

    def describe(self):
        return dict((k, v) for k, v in self.__dict__.items() if not k.startswith("_"))


def digest(t):
    return "sha1(" + t + ")"


def annotation_hooks(sc, changed, stored, log):
    """hooks that model one annotation: stored = {'checksum': x|None, 'text': x|None}"""
    h = {}
    h["text_validation_delimiter"] = lambda ev, recv, args, node, env: (some(sc.delim) if sc.delim is not None else None)
    h["validation_checksum"] = lambda ev, recv, args, node, env: (some(stored["checksum"]) if stored.get("checksum") is not None else None)
    h["validation_text"] = lambda ev, recv, args, node, env: (some(stored["text"]) if stored.get("text") is not None else None)

    def text_join(ev, recv, args, node, env):
        log.append(("text_join", args[0]))
        return sc.actual(args[0], changed)

    def text_checksum(ev, recv, args, node, env):
        log.append(("text_checksum", args[0]))
        if REAL_CHECKSUM is not None:
            # the extracted body itself: its own text_join / Sha1 calls come back to these hooks
            sub = Evaluator(hooks=dict((k_, v_) for k_, v_ in h.items() if k_ != "text_checksum"))
            return sub.run_body(REAL_CHECKSUM.body, {"self": recv, "delimiter": args[0]})
        t = sc.actual(args[0], changed)
        return some(digest(t)) if t else None
    h["text_join"] = text_join
    h["text_checksum"] = text_checksum
    # digest primitives used by the real text_checksum body (when it is evaluated instead of the model)
    h["call:Sha1::new"] = lambda ev, recv, args, node, env: StructVal("Hasher", {"data": ""})
    h["update"] = lambda ev, recv, args, node, env: (recv.__setitem__("data", recv["data"] + str(args[0])) or ()) if isinstance(recv, StructVal) and recv.tyname == "Hasher" else NotImplemented
    h["finalize"] = lambda ev, recv, args, node, env: digest(recv["data"]) if isinstance(recv, StructVal) and recv.tyname == "Hasher" else NotImplemented
    h["call:lower::encode_string"] = lambda ev, recv, args, node, env: args[0]
    h["as_ref"] = lambda ev, recv, args, node, env: recv

    def unwrap_or(ev, recv, args, node, env):
        return recv[1] if is_some(recv) else args[0]
    h["unwrap_or"] = unwrap_or
    h["as_deref"] = lambda ev, recv, args, node, env: recv
    h["handle"] = lambda ev, recv, args, node, env: "handle"
    h["textselections"] = lambda ev, recv, args, node, env: ("textselections",)
    h["fold"] = lambda ev, recv, args, node, env: (sc.length if sc.nsel else 0) if recv == ("textselections",) else NotImplemented
    h["text_simple"] = lambda ev, recv, args, node, env: (some(sc.actual("", changed)) if sc.nsel == 1 else None)
    h["text"] = lambda ev, recv, args, node, env: ["x" * sc.length] * sc.nsel
    h["chars"] = lambda ev, recv, args, node, env: recv if isinstance(recv, str) else NotImplemented
    h["count"] = lambda ev, recv, args, node, env: len(recv) if isinstance(recv, (str, list)) else (sc.nsel if recv == ("textselections",) else NotImplemented)
    h["next"] = lambda ev, recv, args, node, env: (some("sel") if sc.nsel else None) if recv == ("textselections",) else NotImplemented
    h["textlen"] = lambda ev, recv, args, node, env: sc.length
    return h


def run(ctx):
    syn = Syn(ctx.facts.syn())
    ctx.not_decided += ["that text_join / the SHA-1 digest are functions of exactly the selected characters (run-time text)",
                        "persistence of the validation data across save and reload beyond the CSV dialect (C05, C15)",
                        "collisions: two different texts with the same joined form or digest"]
    ctx.assumptions += ["the joined text and its digest are modelled as opaque injective tokens of (selected text, delimiter)"]
    # the validation texts are data values: a CSV save/reload must hand them back character for character
    import mirq
    from props.c15 import dialect_rule
    dialect_rule(ctx, mirq.Program(ctx.facts.mir()), rid="C18.DIALECT")
    # ... and a JSON save/reload must hand every annotation back with the same text selection: a target written without its
    # offset comes back selecting nothing, and validation then reports unchanged text as invalid
    from props.c05 import omit_rule
    omit_rule(ctx, syn, rid="C18.OMIT")
    fresh_rule(ctx, mirq.Program(ctx.facts.mir()))
    from props.c05 import alwaysid_rule
    from props.c05 import resolve_rule
    resolve_rule(ctx, rid="C18.RESOLVE")   # a reload that reads a stale same-named file validates against the wrong text
    alwaysid_rule(ctx, rid="C18.ALWAYSID")   # a reference re-attached to another annotation validates against the wrong text
    fns = [f for f in syn.fns if f.file == FILE]
    by = {}
    for f in fns:
        by.setdefault(f.name, []).append(f)

    def one(name, self_ty=None):
        c = [f for f in by.get(name, []) if self_ty is None or (f.self_ty or "").startswith(self_ty)]
        return c[0] if len(c) == 1 else None
    protect = one("protect_text")
    vt_ann = one("validate_text", "ResultItem")
    vt_store = one("validate_text", "AnnotationStore")
    r_round = ctx.rule("C18.ROUND", "what protect_text stores makes validate_text answer valid on the same text and invalid on a changed text, for every mode and annotation shape")
    r_keys = ctx.rule("C18.KEYS", "each kind of reference is stored under the key its reader looks up")
    r_verdict = ctx.rule("C18.VERDICT", "validate_text: a differing reference gives Some(false); otherwise any reference gives Some(true); none gives None")
    r_agg = ctx.rule("C18.AGG", "the store-level counters partition the annotations by their own verdict")
    r_direct = ctx.rule("C18.DIRECT", "the verdict counted for an annotation is computed from that annotation alone")
    for nm, f in (("AnnotationStore::protect_text", protect), ("ResultItem<Annotation>::validate_text", vt_ann), ("AnnotationStore::validate_text", vt_store)):
        if f is None:
            ctx.anchor_missing(r_round, nm)
    if not (protect and vt_ann and vt_store):
        return
    for f in (protect, vt_ann, vt_store):
        ctx.functions_analysed.add(f.qual)
    tc = one("text_checksum", "ResultItem")
    if tc is None:
        ctx.anchor_missing(r_round, "ResultItem<Annotation>::text_checksum")
        return
    ctx.functions_analysed.add(tc.qual)
    global REAL_CHECKSUM
    REAL_CHECKSUM = tc

    # ------------------------------------------------------------ VERDICT
    def eval_validate(sc, stored, changed):
        log = []
        ev = Evaluator(hooks=annotation_hooks(sc, changed, stored, log))
        res = ev.run_body(vt_ann.body, {"self": StructVal("Annotation", {})})
        return res, log
    n = 0
    for cs, tx, delim in itertools.product(("none", "same", "diff"), ("none", "same", "diff"), (None, "|")):
        sc = Scenario(nsel=2, length=10, delim=delim, mode="-")
        d0 = delim or ""
        stored = {"checksum": None if cs == "none" else digest(sc.text(d0)) if cs == "same" else digest("other"),
                  "text": None if tx == "none" else sc.text(d0) if tx == "same" else "other"}
        want = some(False) if "diff" in (cs, tx) else (some(True) if (cs, tx) != ("none", "none") else None)
        key = "checksum=%s,text=%s,delimiter=%s" % (cs, tx, "yes" if delim else "no")
        n += 1
        try:
            got, log = eval_validate(sc, stored, False)
        except (Unknown, Panic) as e:
            ctx.report(r_verdict, "unevaluated", "ResultItem<Annotation>::validate_text could not be evaluated (%s): its decision table is not established" % e, vt_ann.file, vt_ann.line)
            break
        r_verdict.hit(key, sample={"stored": key, "verdict": formula.fmt(got)})
        if got != want:
            ctx.report(r_verdict, "table:" + key, "validate_text answers %s for an annotation whose stored references are (%s) against unchanged text; the property requires %s" % (formula.fmt(got), key, formula.fmt(want)), vt_ann.file, vt_ann.line, {"scenario": key})
    ctx.floor(r_verdict, n, 18, "combinations of stored references")

    # ------------------------------------------------------------ ROUND
    loop = None
    for nd in protect.body["stmts"]:
        e = nd.get("e") if nd.get("k") == "exprstmt" else None
        if e is not None and e.get("k") == "for" and "annotations()" in unparse(e["iter"]):
            loop = e
            break
    if loop is None:
        ctx.anchor_missing(r_round, "per-annotation loop of protect_text")
        return
    item = pat_names(loop["pat"])[0]
    queues = {}
    for nd in protect.body["stmts"]:
        if nd.get("k") == "let" and nd.get("init") is not None and unparse(nd["init"]) in ("Vec::new()", "vec!()"):
            queues[pat_names(nd["pat"])[0]] = None
    # which key is each queue stored under?
    for e in find(protect.body, "for"):
        src = unparse(e["iter"])
        if src in queues:
            lits = [a for c in find(e["body"], "mcall") if c["method"] == "insert_data" for a in c["args"] if a.get("k") == "lit" and a.get("t") == "str"]
            if len(lits) == 1:
                queues[src] = lits[0]["v"]
    readers = {}
    for rn in ("validation_checksum", "validation_text"):
        f = one(rn)
        if f is None:
            ctx.anchor_missing(r_keys, "fn " + rn)
            continue
        ctx.functions_analysed.add(f.qual)
        ks = [c["args"][1]["v"] for c in find(f.body, "mcall") if c["method"] == "key" and len(c["args"]) == 2 and c["args"][1].get("k") == "lit"]
        sets = [unparse(c["args"][0]) for c in find(f.body, "mcall") if c["method"] == "key" and len(c["args"]) == 2]
        readers[rn] = (ks[0] if len(ks) == 1 else None, sets[0] if sets else None)
    modes = [v["name"] for v in syn.enums["TextValidationMode"]["variants"]] if "TextValidationMode" in syn.enums else []
    if len(modes) < 4:
        ctx.anchor_missing(r_round, "enum TextValidationMode")
        return
    nround = 0
    reported = set()
    kind_of_queue = {}
    for mode in modes:
        for nsel, length in ((0, 0), (1, 5), (1, 39), (1, 40), (1, 100), (2, 5), (2, 39), (2, 40), (2, 100)):
            for delim in (None, "|"):
                for have_cs, have_tx in itertools.product((False, True), repeat=2):
                    sc = Scenario(nsel=nsel, length=length, delim=delim, mode=mode)
                    d0 = delim or ""
                    stored = {"checksum": digest(sc.text(d0)) if have_cs else None, "text": sc.text(d0) if have_tx else None}
                    if nsel == 0 and (have_cs or have_tx):
                        continue
                    log = []
                    hooks = annotation_hooks(sc, False, stored, log)
                    pushed = {}

                    def push(ev, recv, args, node, env, pushed=pushed):
                        nm = unparse(strip(node["recv"]))
                        if nm in queues:
                            pushed.setdefault(nm, []).append(args[0])
                            return ()
                        return NotImplemented
                    hooks["push"] = push
                    ev = Evaluator(hooks=hooks)
                    env = {item: StructVal("Annotation", {}), "mode": formula.EnumVal(mode)}
                    for q in queues:
                        env[q] = ("queue", q)
                    key = "mode=%s,selections=%d,length=%d,delimiter=%s,has_checksum=%s,has_text=%s" % (mode, nsel, length, "yes" if delim else "no", have_cs, have_tx)
                    nround += 1
                    try:
                        ev.run_body(loop["body"], env)
                    except (Unknown, Panic) as e:
                        if "unevaluated" not in reported:
                            reported.add("unevaluated")
                            ctx.report(r_round, "unevaluated", "the per-annotation step of protect_text could not be evaluated (%s): what it stores is not established (first scenario: %s)" % (e, key), protect.file, loop.get("l"))
                        continue
                    # classify the queues by what was pushed into them
                    after = dict(stored)
                    for q, vals in pushed.items():
                        v = vals[-1]
                        payload = v[1] if isinstance(v, tuple) and len(v) == 2 else v
                        stored_under = queues.get(q)
                        kind_of_queue.setdefault(q, set()).add("checksum" if str(payload).startswith("sha1(") else "text")
                        if stored_under in ("checksum", "text"):
                            after[stored_under] = payload
                        else:
                            after["?" + q] = payload
                    r_round.hit(key, sample={"scenario": key, "queued": dict((q, [formula.fmt(x) for x in v]) for q, v in pushed.items())} if nround % 37 == 1 else None)
                    has_text = nsel > 0
                    if has_text and after.get("checksum") is None and after.get("text") is None:
                        k2 = "no-info:mode=%s,selections=%d" % (mode, nsel)
                        if k2 not in reported:
                            reported.add(k2)
                            ctx.report(r_round, k2, "protect_text(%s) stores no validation information for an annotation with %d text selection(s) of total length %d: validation reports it as missing, not valid, and a changed text goes unnoticed" % (mode, nsel, length), protect.file, loop.get("l"), {"scenario": key})
                        continue
                    if not has_text:
                        continue
                    # feed the result to the validator: unchanged text -> Some(true); changed text -> Some(false)
                    for changed, want in ((False, some(True)), (True, some(False))):
                        try:
                            log2 = []
                            ev2 = Evaluator(hooks=annotation_hooks(sc, changed, after, log2))
                            got = ev2.run_body(vt_ann.body, {"self": StructVal("Annotation", {})})
                        except (Unknown, Panic) as e:
                            got = "unevaluated: %s" % e
                        if got != want:
                            k2 = "round:%s:%s" % (mode, "changed" if changed else "unchanged")
                            if k2 not in reported:
                                reported.add(k2)
                                ctx.report(r_round, k2, "after protect_text(%s), validate_text answers %s on %s text (scenario %s; stored: %s): protect and validate do not compute the same function of the text" % (
                                    mode, formula.fmt(got) if not isinstance(got, str) else got, "a changed" if changed else "the unchanged", key, dict((k, v) for k, v in after.items() if v is not None)), vt_ann.file, vt_ann.line, {"scenario": key})
    ctx.floor(r_round, nround, 264, "protect/validate scenarios")

    # ------------------------------------------------------------ KEYS
    for q, stored_under in sorted(queues.items()):
        kinds = kind_of_queue.get(q, set())
        r_keys.hit(q, sample={"queue": q, "holds": sorted(kinds), "stored_under_key": stored_under})
        if stored_under is None:
            ctx.report(r_keys, "queue:%s:no-key" % q, "the values queued in `%s` are not stored with one literal key (insert_data)" % q, protect.file, protect.line)
            continue
        for kind in kinds:
            reader = "validation_" + kind
            rk = readers.get(reader, (None, None))[0]
            if rk != stored_under:
                ctx.report(r_keys, "queue:%s:%s" % (q, kind), "protect_text stores the %s reference under key \"%s\" but %s() looks up key \"%s\"" % (kind, stored_under, reader, rk), protect.file, protect.line)
    ctx.floor(r_keys, len(queues), 2, "reference queues in protect_text")
    setnames = set(v[1] for v in readers.values())
    r_keys.hit("dataset")
    wr_sets = set(unparse(a) for c in find(protect.body, "mcall") if c["method"] in ("dataset", "with_id") for a in c["args"][:1])
    if len(setnames) != 1 or not wr_sets or wr_sets != setnames:
        ctx.report(r_keys, "dataset", "protect_text writes the validation data to dataset %s but the readers look in %s" % (sorted(wr_sets), sorted(str(x) for x in setnames)), protect.file, protect.line)

    # ------------------------------------------------------------ AGG + DIRECT
    sloop = None
    for e in find(vt_store.body, "for"):
        if "annotations()" in unparse(e["iter"]):
            sloop = e
    if sloop is None:
        ctx.anchor_missing(r_agg, "per-annotation loop of AnnotationStore::validate_text")
        return
    verdicts = [some(True), some(False), None, some(True), some(False), some(False)]
    items = [StructVal("Annotation", {"_v": v, "_i": i}) for i, v in enumerate(verdicts)]
    calls = []

    def h_validate(ev, recv, args, node, env):
        if isinstance(recv, StructVal) and "_v" in recv:
            calls.append(recv["_i"])
            return recv["_v"]
        return NotImplemented
    hooks = {"validate_text": h_validate, "annotations": lambda ev, recv, args, node, env: items,
             "macro:eprintln": lambda ev, node, env: (), "id": lambda ev, recv, args, node, env: some("id"),
             "unwrap_or": lambda ev, recv, args, node, env: recv[1] if is_some(recv) else args[0],
             "temp_id": lambda ev, recv, args, node, env: some("!A0"), "as_deref": lambda ev, recv, args, node, env: recv}
    for quiet in (True, False):
        ev = Evaluator(hooks=hooks)
        try:
            res = ev.run_body(vt_store.body, {"self": StructVal("AnnotationStore", {}), "quiet": quiet})
        except (Unknown, Panic) as e:
            ctx.report(r_agg, "unevaluated", "AnnotationStore::validate_text could not be evaluated (%s): that it counts each annotation by its own verdict is not established" % e, vt_store.file, vt_store.line)
            break
        r_agg.hit("quiet=%s" % quiet, sample={"verdicts": [formula.fmt(v) for v in verdicts], "result": repr(res)})
        want = {"valid": 2, "invalid": 3, "missing": 1}
        got = dict((k, res.get(k)) for k in want) if isinstance(res, dict) else None
        if got != want:
            ctx.report(r_agg, "counts", "AnnotationStore::validate_text counts %s for annotations whose own verdicts are %s; expected %s" % (got, [formula.fmt(v) for v in verdicts], want), vt_store.file, vt_store.line)
    # DIRECT: no loop-carried state flows into the verdict
    outer_mut = set()
    for nd in vt_store.body["stmts"]:
        if nd.get("k") == "let" and nd["pat"].get("mut") or (nd.get("k") == "let" and "mut " in nd["pat"].get("s", "")):
            outer_mut.update(pat_names(nd["pat"]))
    counters = set(n_ for n_ in outer_mut if any(unparse(x.get("left", {})).startswith(n_ + ".") for x in walk(sloop["body"]) if x.get("k") == "binary" and x.get("op") == "+="))
    carried = outer_mut - counters
    litem = pat_names(sloop["pat"])[0]
    nvt = 0
    for c in find(sloop["body"], "mcall"):
        if c["method"] == "validate_text":
            nvt += 1
            r_direct.hit("call")
            if unparse(strip(c["recv"])) != litem:
                ctx.report(r_direct, "receiver", "the store-level loop validates `%s`, not the annotation of the current iteration (`%s`)" % (unparse(c["recv"]), litem), vt_store.file, c.get("l"))
    ctx.floor(r_direct, nvt, 1, "validate_text calls in the store-level loop")
    for nm in sorted(carried):
        used = [x for x in walk(sloop["body"]) if x.get("k") == "path" and x["path"] == [nm]]
        r_direct.hit("carried:" + nm)
        if used:
            ctx.report(r_direct, "carried:" + nm, "the store-level validation loop reads and writes `%s`, state carried from one annotation to the next: an annotation's verdict is no longer a function of that annotation alone (a cache keyed by anything less than the full target can hand one annotation another's verdict)" % nm, vt_store.file, used[0].get("l"))


# ---------------------------------------------------------------------- FRESH
FRESH_PURE = {"arg1", "std::option::Option::<T>::is_some", "std::option::Option::<T>::is_none", "std::option::Option::<T>::as_ref", "std::ops::Not::not",
              "std::option::Option::<T>::as_deref", "std::ops::Deref::deref", "std::clone::Clone::clone"}


def fresh_rule(ctx, prog, rid="C18.FRESH"):
    """The references protect_text stores are computed from the text in memory.  They only keep validating after save and
    reload if the stand-off text file that @include names holds that same text, i.e. if a resource that was given its
    text explicitly is marked changed (the writer only writes marked resources).  Whether it is marked must follow from
    the builder alone - never from what happens to be on disk already, which is exactly the stale copy."""
    import mirq
    r = ctx.rule(rid, "in TextResourceBuilder::build the change marker of the new resource is a constant or derives from the builder's own fields only (no file-system state): a resource given explicit text and a file name is always written")
    bs = prog.find_bodies(r"resources::TextResourceBuilder::build$")
    if len(bs) != 1:
        ctx.anchor_missing(r, "TextResourceBuilder::build")
        return
    b = bs[0]
    ctx.functions_analysed.add(b.id)
    n = 0
    dynamic = 0
    for bi, t in b.calls():
        c = mirq.callee_of(t)[0] or ""
        if re.search(r"RwLock::<T>::new$", c) and t.get("args"):
            n += 1
            key = b.key_of_operand(t["args"][0])
            prov = set(b.provenance(t["args"][0]))
            r.hit("marker#%d" % n, sample={"marker": str(key), "derives_from": sorted(prov)})
            if str(key).startswith("const:"):
                if str(key) not in ("const:0", "const:false"):
                    dynamic += 1    # constantly marked: always written
                continue
            dynamic += 1
            extra = sorted(prov - FRESH_PURE)
            if extra:
                ctx.report(r, "marker-depends|" + "|".join(mirq.short_fn(x) for x in extra)[:80], "the change marker of a resource built from explicit text depends on %s: when it comes out false although the text is new (a file of that name exists already), save() writes @include to the old file, and the validation data protect_text stored no longer matches the text after a reload" % ", ".join(extra), b.file, t.get("line"))
            elif "arg1" not in prov:
                ctx.report(r, "marker-unrelated", "the change marker of a resource built from explicit text does not derive from the builder (%s)" % sorted(prov), b.file, t.get("line"))
    ctx.floor(r, n, 2, "change markers initialised in TextResourceBuilder::build")
    if n >= 2 and dynamic == 0:
        ctx.report(r, "marker-constant", "every change marker in TextResourceBuilder::build is the constant false: a resource given explicit text and a file name is not marked for writing", b.file, b.line)
