"""C20 concurrent readers: with only shared references, threads can interfere only through
interior-mutable state.  Effect analysis:
C20.INV   inventory of interior-mutable fields (and unsafe blocks) - new cells are reported
C20.WRITE every public entry point callable with shared references only that reaches a
          write to such a cell (call graph), keyed (entry, write site)
C20.PAIR  a temporary mode switch is restored on every path to a return"""
import re
import mirq

CELL_RX = re.compile(r"\b(RwLock|Mutex|Cell|RefCell|UnsafeCell|OnceCell|OnceLock|LazyLock|LazyCell|Atomic[A-Z][A-Za-z0-9]*)\b")
WRITE_RX = re.compile(r"(sync::(poison::)?(rwlock::)?RwLock::<[^>]*>::(write|try_write|get_mut)|sync::(poison::)?(mutex::)?Mutex::<[^>]*>::(lock|try_lock)|cell::Cell::<[^>]*>::(set|replace|take|swap|update)|cell::RefCell::<[^>]*>::(borrow_mut|try_borrow_mut|replace|swap|take)|sync::atomic::Atomic[A-Za-z0-9]*::(store|swap|fetch_[a-z]+|compare_exchange|compare_exchange_weak)|cell::UnsafeCell::<[^>]*>::get|(OnceCell|OnceLock)::<[^>]*>::(set|get_or_init|take))$")

# the cells that exist on the pinned tree (type.field -> what it is); anything else is new shared state
KNOWN_CELLS = {
    "config::Config.serialize_mode": "serialisation mode, one Arc shared by every clone of a Config",
    "annotationstore::AnnotationStore.changed": "dirty flag",
    "resources::TextResource.changed": "dirty flag",
    "annotationdataset::AnnotationDataSet.changed": "dirty flag",
}


def ty_head_of(t):
    return mirq.ty_head(t)


def short_via(v):
    """a body id without module paths but still naming the implementing type:
    `<resources::TextResource as annotation::_::_serde::Serialize>::serialize` -> `<TextResource as Serialize>::serialize`"""
    if "<" in v:
        return re.sub(r"^\w+::(?=<impl)", "", re.sub(r"(?<![\w:])(?:\w+::)+(?=\w+(?:[ ,<>]|$))", "", v)) if v.startswith("<") or "<impl" in v else "::".join(re.sub(r"::<[^>]*>", "", v).split("::")[-2:])
    return "::".join(v.split("::")[-2:])


def run(ctx):
    lock_rule(ctx)
    prog = mirq.Program(ctx.facts.mir())
    claim_rule(ctx, prog)
    from synq import Syn as _Syn
    from props.c05 import clean_rule
    clean_rule(ctx, _Syn(ctx.facts.syn()), rid="C20.CLEAN")   # a reader that exports a text elsewhere must not clear the flag another reader's serialisation depends on
    ctx.not_decided += ["the interleavings themselves (the analysis decides which shared-reference entry points can write shared state at all; an entry that writes is reported, one that does not cannot interfere)",
                        "data races inside dependencies (rayon, std) - trusted"]
    ctx.assumptions += ["no unsafe code hands out aliased mutable references (C20.INV lists unsafe functions)", "rustc's borrow rules: without interior mutability a shared reference cannot write"]

    # ---------------- inventory
    r_inv = ctx.rule("C20.INV", "inventory of interior-mutable state: every cell is in the reviewed list")
    cells = {}
    for adt, a in prog.adts.items():
        for v in a["variants"]:
            for f in v["fields"]:
                if CELL_RX.search(f["ty"]):
                    name = "%s.%s" % (adt, f["name"])
                    cells[name] = f["ty"]
                    r_inv.hit(name, sample={"cell": name, "type": f["ty"]})
                    if name not in KNOWN_CELLS:
                        ctx.report(r_inv, "cell:" + name, "new interior-mutable field %s: %s - shared state that readers could write" % (name, f["ty"]))
    ctx.floor(r_inv, len(cells), 4, "interior-mutable fields")
    for b in prog.bodies.values():
        if b.d.get("derived"):
            continue
    ctx.extra["cells"] = cells

    # ---------------- write sites
    r_write = ctx.rule("C20.WRITE", "no public entry point that takes only shared references reaches a write to interior-mutable state")
    sites = {}
    for bid, b in prog.bodies.items():
        for bi, t in b.calls():
            decl, res, info = mirq.callee_of(t)
            if decl and not info.get("local") and WRITE_RX.search(decl):
                sites.setdefault(bid, []).append((mirq.short_fn(decl), t.get("line")))
    ctx.extra["write_sites"] = {k: [x[0] for x in v] for k, v in sites.items()}
    if len(sites) < 2:
        ctx.anchor_missing(r_write, "write sites of interior-mutable state (found %d)" % len(sites))
    # reverse reachability: which bodies can reach a write site
    edges = prog.edges()
    rev = {}
    for a, bs in edges.items():
        for x in bs:
            rev.setdefault(x, set()).add(a)
    reach_site = {}  # body -> set of site bodies it reaches
    for s in sites:
        seen = {s}
        st = [s]
        while st:
            x = st.pop()
            reach_site.setdefault(x, set()).add(s)
            for p in rev.get(x, ()):
                if p not in seen:
                    seen.add(p)
                    st.append(p)
    n_entries = 0
    for bid, b in sorted(prog.bodies.items()):
        if b.kind not in ("Fn", "AssocFn"):
            continue
        if not b.d.get("reachable"):
            continue
        argtys = [b.local_ty(i) for i in range(1, b.argc + 1)]
        if any(t.startswith("&mut ") or "&mut " in t for t in argtys):
            continue
        # an entry a *reader* can call: it borrows some local (store-related) value and does not
        # take an owner of shared cells by value (ownership means exclusive access)
        owners = ("annotationstore::AnnotationStore", "resources::TextResource", "annotationdataset::AnnotationDataSet")
        if any((not t.startswith("&")) and ty_head_of(t) in owners for t in argtys):
            continue
        if not any(t.startswith("&") and any(a.split("::")[-1] in t and a in t for a in prog.adts) for t in argtys):
            continue
        n_entries += 1
        ctx.functions_analysed.add(bid)
        for s in sorted(reach_site.get(bid, ())):
            # one finding per route out of the entry point: a new way from a listed entry to a listed writer is a new finding
            vias = sorted(c for c in edges.get(bid, ()) if c == s or s in reach_site.get(c, ()))
            if bid == s:
                vias = ["(itself)"] + [v for v in vias if v != s]
            for via in vias:
                key = "%s|%s|via:%s" % (bid, s, short_via(via))
                r_write.hit(key, sample={"entry": bid, "write_site": s, "via": via})
                ctx.report(r_write, key, "shared-reference entry point %s can reach %s (through its call to %s), which writes interior-mutable state (%s): concurrent readers can observe each other" % (
                    bid, s, via, ", ".join(sorted(set(x[0] for x in sites[s])))), b.file, b.line, {"entry": bid, "site": s, "via": via})
    r_write.notes.append("public shared-reference entry points analysed: %d; write-site functions: %s" % (n_entries, sorted(sites)))
    r_write.instances += n_entries
    ctx.floor(r_write, n_entries, 400, "public shared-reference entry points")

    # ---------------- bracket rule
    r_pair = ctx.rule("C20.PAIR", "after Config::set_serialize_mode(NoInclude) every path to a return passes set_serialize_mode(AllowInclude)")
    n_br = 0
    for bid, b in sorted(prog.bodies.items()):
        enters, exits = [], []
        for bi, t in b.calls():
            decl, res, info = mirq.callee_of(t)
            if decl and decl.endswith("Config::set_serialize_mode"):
                arg = t["args"][1] if len(t.get("args", [])) > 1 else {}
                s = (arg.get("k") or {}).get("s", "") or b.key_of_operand(arg)
                if "NoInclude" in s:
                    enters.append(bi)
                elif "AllowInclude" in s:
                    exits.append(bi)
                else:
                    ctx.report(r_pair, "%s|unknown-mode" % bid, "%s sets the serialisation mode to a value that is not a constant (%s)" % (bid, s), b.file, t.get("line"))
        if not enters:
            continue
        n_br += 1
        ctx.functions_analysed.add(bid)
        rets = [i for i, blk in enumerate(b.blocks) if blk["t"]["t"] == "return"]
        for e in enters:
            r_pair.hit("%s|enter" % bid, sample={"function": bid, "enter_bb": e, "restore_bbs": exits})
            # guards of the enter that are tests of a pure, argument-less call (Self::typeinfo()):
            # a later switch on the same call result takes the same branch
            corr = {}
            for si, blk in enumerate(b.blocks):
                tt = blk["t"]
                if tt["t"] != "switch" or not b.dominates(si, e) or si == e:
                    continue
                k = b.key_of_operand(tt["o"])
                if not re.match(r"^discr\([A-Za-z_:<> ]+\(\)\)$", k):
                    continue
                lead = [tg for tg in set(b.succs(si)) if b.dominates(tg, e) and len(b.preds(tg)) >= 1]
                if len(lead) == 1:
                    vals = frozenset(v for v, tg in tt["targets"] if tg == lead[0])
                    corr[k] = (vals, tt["otherwise"] == lead[0])

            def next_blocks(x):
                tt = b.blocks[x]["t"]
                if tt["t"] == "switch":
                    k = b.key_of_operand(tt["o"])
                    if k in corr:
                        vals, other = corr[k]
                        out = [tg for v, tg in tt["targets"] if v in vals]
                        if other or not out:
                            # values not listed here fall to otherwise
                            listed = set(v for v, tg in tt["targets"])
                            if other or any(v not in listed for v in vals):
                                out.append(tt["otherwise"])
                        return out
                return b.succs(x)

            # is a return reachable from e without passing an exit block?
            seen = set()
            st = list(b.succs(e))
            leak = None
            while st:
                x = st.pop()
                if x in seen or x in exits:
                    continue
                seen.add(x)
                if x in rets:
                    leak = x
                    break
                if b.blocks[x].get("cleanup"):
                    continue
                st.extend(next_blocks(x))
            if leak is not None:
                # find a line that explains the leaking path: the last non-return block before
                ctx.report(r_pair, "%s|leak" % bid, "%s switches the shared serialisation mode to NoInclude and has a path to a return that does not restore AllowInclude (early return / `?`): the whole store keeps serialising inline afterwards" % bid,
                           b.file, b.blocks[e]["t"].get("line"), {"enter_bb": e, "return_bb": leak})
    ctx.floor(r_pair, n_br, 2, "functions that switch the serialisation mode")


# ---------------------------------------------------------------------- LOCK
def lock_rule(ctx):
    """a mode switch that is written through try_write()/try_lock() is silently dropped whenever another
    thread holds the lock at that instant; with readers around, the switch (or its reset) is lost"""
    from synq import Syn, find, unparse
    syn = Syn(ctx.facts.syn())
    r = ctx.rule("C20.LOCK", "writes to the shared cells take the lock unconditionally (write()/lock()), never try_write()/try_lock() with a silently skipped failure")
    n = 0
    for f in syn.fns:
        if f.body is None or f.file == "src/tests.rs":
            continue
        for c in find(f.body, "mcall"):
            if c["method"] in ("write", "lock", "try_write", "try_lock", "try_read") and not c["args"] and re.search(r"self\.\w+$|\.config(\(\))?\.\w+$", unparse(c["recv"])):
                n += 1
                r.hit("%s|%s" % (f.qual, c["method"]))
                if c["method"].startswith("try_"):
                    ctx.report(r, "%s|%s" % (f.qual, c["method"]), "%s acquires `%s` with %s(): when another thread holds the lock the access is skipped without a trace, so a mode switch or its reset is lost under concurrent readers" % (f.qual, unparse(c["recv"]), c["method"]), f.file, c.get("l"))
    ctx.floor(r, n, 1, "lock acquisitions on shared cells")


# ---------------------------------------------------------------------- CLAIM
WRITE_CALLS = re.compile(r"(^|::)(to_json_file|to_csv_file|to_txt_file|write_fmt|write_all|write)$")


def claim_rule(ctx, prog):
    """the `changed` flag of a stand-off member is shared (Arc<RwLock<bool>>) and is cleared through a shared reference by
    the serialisers.  Clearing it tells every later serialisation "the stand-off file is up to date"; that is only true
    once the write has completed, so every path to mark_unchanged() must pass through the write."""
    r = ctx.rule("C20.CLAIM", "a serialiser clears the shared changed flag (mark_unchanged) only after the stand-off write has completed: every path to the call passes through the write call, so a failed or pending write never makes other readers skip theirs")
    n = 0
    for bid, b in sorted(prog.bodies.items()):
        if b.d.get("derived"):
            continue
        marks = [bi for bi, t in b.calls() if (mirq.callee_of(t)[0] or "").endswith("::mark_unchanged") and not b.blocks[bi].get("cleanup")]
        if not marks:
            continue
        ctx.functions_analysed.add(bid)
        writes = set(bi for bi, t in b.calls() if WRITE_CALLS.search(mirq.callee_of(t)[0] or ""))
        for m in marks:
            n += 1
            key = "%s#%d" % (bid, marks.index(m) + 1)
            bypass = 0 not in writes and (m == 0 or b.can_reach(0, m, avoid=writes))
            r.hit(key, sample={"in": bid, "writes_in_body": len(writes), "mark_reachable_without_write": bool(bypass)})
            if bypass:
                ctx.report(r, bid, "%s can reach mark_unchanged() (line %s) on a path that has not passed through the write of the stand-off file: the shared changed flag is cleared before (or without) the write, so when the write fails or is still pending every other serialisation of the shared store emits an @include to a file that was not written" % (bid, b.blocks[m]["t"].get("line")), b.file, b.blocks[m]["t"].get("line"))
    ctx.floor(r, n, 5, "mark_unchanged call sites")
