"""C10 deduplicated vocabulary; data search equals a scan.

DEDUP   AnnotationDataSet::insert_data, evaluated from its syntax tree over every combination of
        (id given/resolves, key given/exists/by id or handle, equal data present, safety): a key
        is created only when it does not exist, data is created only when no equal item may be
        shared, and the handle returned is the shared item's
BYVALUE data_by_value decides by value equality (==) over the whole key->data entry
SAFETY  only the reviewed deserialisers switch the duplicate check off
SCAN    find_data / test_data / DataKey::data answer from the scan source narrowed by nothing but
        filter_value(the caller's operator); ResultItem<AnnotationData>::test applies the operator
        to the item's own value
TEST    DataValue::test obeys the laws of its operator algebra on a finite grid: Any, Not, And/Or,
        trichotomy and arithmetic meaning of the three ordered families, equality with
        DataOperator::from(&value), numeric/string and numeric/numeric cross-type comparison
PARSE   the operator the query language builds for `= v`, `!= v`, `< v` ... (parse_dataoperator) denotes, under the
        extracted DataValue::test, what the notation says: != is the complement of =, a list is the disjunction of its
        alternatives, the four inequalities have their arithmetic meaning"""
import itertools
import re
from synq import Syn, walk, find, unparse, strip, pat_names, block_tail
import formula
from formula import Evaluator, Unknown, Panic, StructVal, EnumVal, some, is_some, ok, err

E = EnumVal


def closure_call(ev, clo, args, env):
    node = clo[1]
    env2 = dict(env)
    for p, a in zip(node["inputs"], args):
        b = {}
        if not formula.match_pat(p, a, b):
            raise Unknown("closure parameter pattern")
        env2.update(b)
    return ev.eval(node["body"], env2)


def run(ctx):
    syn = Syn(ctx.facts.syn())
    ctx.not_decided += ["completeness of key_data_map / the id maps at all times (decided under C01, C02, C03)",
                        "equality of DataValue (derived PartialEq) on floats that are NaN",
                        "data duplicated inside a file that is deserialised with the duplicate check off"]
    test_rule(ctx, syn)
    dedup_rule(ctx, syn)
    byvalue_rule(ctx, syn)
    safety_rule(ctx, syn)
    scan_rule(ctx, syn)
    parse_rule(ctx, syn)
    merge_rule(ctx, syn)
    delegate_rule(ctx)
    import mirq
    from props.c02 import every_rule
    r_ev, n_ev = every_rule(ctx, mirq.Program(ctx.facts.mir()), rid="C10.KEYDATA", only=r"::remove_key$")   # removing a key takes every data item of the key along
    ctx.floor(r_ev, n_ev, 2, "cascade loops of remove_key")


# ====================================================================== TEST
def base_hooks():
    h = {}
    h["to_lowercase"] = lambda ev, recv, args, node, env: recv.lower() if isinstance(recv, str) else NotImplemented
    h["into"] = lambda ev, recv, args, node, env: recv
    h["as_str"] = lambda ev, recv, args, node, env: recv if isinstance(recv, str) else NotImplemented

    def parse(ev, recv, args, node, env):
        ty = re.sub(r"[\s:<>]", "", node.get("turbofish") or "")
        if not isinstance(recv, str):
            return NotImplemented
        try:
            if ty in ("isize", "i64", "usize"):
                if not re.fullmatch(r"[+-]?\d+", recv):
                    raise ValueError
                return ok(int(recv))
            if ty in ("f64", "f32"):
                if not re.fullmatch(r"[+-]?(\d+(\.\d*)?|\.\d+)([eE][+-]?\d+)?|[+-]?(inf|infinity|nan)", recv, re.I):
                    raise ValueError
                return ok(float(recv))
        except ValueError:
            return err("parse")
        raise Unknown("parse::<%s>" % ty)
    h["parse"] = parse

    def rfc(ev, recv, args, node, env):
        s = args[0]
        m = re.fullmatch(r"T(\d+)", s) if isinstance(s, str) else None
        return ok(int(m.group(1))) if m else err("parse")
    h["call:DateTime::parse_from_rfc3339"] = rfc

    def anyall(which):
        def f(ev, recv, args, node, env):
            if not isinstance(recv, list) or not args or not (isinstance(args[0], tuple) and args[0][0] == "closure"):
                return NotImplemented
            rs = [closure_call(ev, args[0], [x], env) for x in recv]
            return any(rs) if which == "any" else all(rs)
        return f
    h["any"] = anyall("any")
    h["all"] = anyall("all")
    return h


def test_rule(ctx, syn):
    r = ctx.rule("C10.TEST", "DataValue::test obeys the laws of the operator algebra and the documented meaning of each comparison on a finite grid of values and operators")
    ctx.level_obligations = True
    tf = [f for f in syn.fns if f.name == "test" and f.file == "src/datavalue.rs"]
    fromf = [f for f in syn.fns if f.name == "from" and f.file == "src/datavalue.rs" and (f.trait or "") == "From<&DataValue>" and "DataOperator" in (f.self_ty or "")]
    if len(tf) != 1:
        ctx.anchor_missing(r, "fn DataValue::test")
        return
    tf = tf[0]
    ctx.functions_analysed.add(tf.qual)
    hooks = base_hooks()
    cache = {}

    def test(v, op):
        k = (repr(v), repr(op))
        if k in cache:
            return cache[k]
        ev = Evaluator(hooks=hooks)
        res = ev.run_body(tf.body, {"self": v, "operator": op})
        if not isinstance(res, bool):
            raise Unknown("test returned %r" % (res,))
        cache[k] = res
        return res
    hooks["test"] = lambda ev, recv, args, node, env: test(recv, args[0]) if isinstance(recv, EnumVal) else NotImplemented

    ints = [-1, 0, 1, 3]
    floats = [1.0, 2.5, 3.0]
    strs = ["", "1", "3", "2.5", "3.0", "abc", "true", "Yes", "T10"]
    dts = [10, 20]
    values = [E("Null")] + [E("Bool", [b]) for b in (True, False)] + [E("Int", [n]) for n in ints] + [E("Float", [f]) for f in floats] + \
        [E("String", [s]) for s in strs] + [E("Datetime", [d]) for d in dts] + [E("List", [[E("Int", [1]), E("String", ["abc"])]]), E("List", [[]])]
    INT_OPS = {"GreaterThan": lambda a, b: a > b, "GreaterThanOrEqual": lambda a, b: a >= b, "LessThan": lambda a, b: a < b, "LessThanOrEqual": lambda a, b: a <= b, "EqualsInt": lambda a, b: a == b}
    FLT_OPS = {"GreaterThanFloat": INT_OPS["GreaterThan"], "GreaterThanOrEqualFloat": INT_OPS["GreaterThanOrEqual"], "LessThanFloat": INT_OPS["LessThan"], "LessThanOrEqualFloat": INT_OPS["LessThanOrEqual"], "EqualsFloat": INT_OPS["EqualsInt"]}
    DT_OPS = {"AfterDatetime": INT_OPS["GreaterThan"], "AtOrAfterDatetime": INT_OPS["GreaterThanOrEqual"], "BeforeDatetime": INT_OPS["LessThan"], "AtOrBeforeDatetime": INT_OPS["LessThanOrEqual"], "ExactDatetime": INT_OPS["EqualsInt"]}
    base_ops = [E("Null"), E("Any"), E("True"), E("False")] + [E("Equals", [s]) for s in strs] + \
        [E(o, [n]) for o in INT_OPS for n in (0, 1, 3)] + [E(o, [f]) for o in FLT_OPS for f in floats] + [E(o, [d]) for o in DT_OPS for d in dts] + \
        [E("HasElement", ["abc"]), E("HasElementInt", [1]), E("HasElementFloat", [1.0])]
    variants = set(v["name"] for v in syn.enums["DataOperator"]["variants"]) if "DataOperator" in syn.enums else set()
    known = set(o.name for o in base_ops) | {"Not", "And", "Or"}
    r.hit("variants")
    for v in sorted(variants - known):
        ctx.report(r, "variant:" + v, "DataOperator::%s is not covered by the operator grid of this check: its meaning in DataValue::test is not established" % v, tf.file, tf.line)
    dvv = set(v["name"] for v in syn.enums["DataValue"]["variants"]) if "DataValue" in syn.enums else set()
    for v in sorted(dvv - set(x.name for x in values)):
        ctx.report(r, "value-variant:" + v, "DataValue::%s is not covered by the value grid of this check" % v, tf.file, tf.line)

    reported = set()

    def oblige(key, cond, msg, sample=None):
        r.obligations += 1
        if cond:
            r.discharged += 1
        elif key not in reported:
            reported.add(key)
            ctx.report(r, key, msg, tf.file, tf.line, sample)
    try:
        # T1 Any, T2 Not, T3 And/Or
        for v in values:
            oblige("any", test(v, E("Any")) is True, "DataValue::test(%r, Any) is false: Any must accept every value" % v)
            for op in base_ops:
                a = test(v, op)
                oblige("not", test(v, E("Not", [op])) == (not a), "DataValue::test(%r, Not(%r)) is not the negation of test(%r, %r)=%s" % (v, op, v, op, a), {"value": repr(v), "op": repr(op)})
        r.hit("T1-T2 any/not", sample={"law": "test(v, Not(op)) == !test(v, op)", "values": len(values), "operators": len(base_ops)})
        sample_ops = [E("Null"), E("Equals", ["1"]), E("EqualsInt", [1]), E("GreaterThan", [0]), E("LessThanFloat", [2.5]), E("True"), E("Any"), E("HasElementInt", [1])]
        for v in values:
            for a, b in itertools.product(sample_ops, repeat=2):
                ta, tb = test(v, a), test(v, b)
                oblige("and", test(v, E("And", [[a, b]])) == (ta and tb), "DataValue::test(%r, And([%r, %r])) is not the conjunction of its parts" % (v, a, b))
                oblige("or", test(v, E("Or", [[a, b]])) == (ta or tb), "DataValue::test(%r, Or([%r, %r])) is not the disjunction of its parts" % (v, a, b))
            oblige("and-empty", test(v, E("And", [[]])) is True, "And([]) must accept every value (empty conjunction)")
            oblige("or-empty", test(v, E("Or", [[]])) is False, "Or([]) must reject every value (empty disjunction)")
        r.hit("T3 and/or", sample={"law": "And = all, Or = any", "pairs": len(sample_ops) ** 2})
        # T4-T6 ordered families: arithmetic meaning
        for fam, ops, vs, ctor, refs in (("int", INT_OPS, ints, "Int", (0, 1, 3)), ("float", FLT_OPS, floats, "Float", floats), ("datetime", DT_OPS, dts, "Datetime", dts)):
            for x in vs:
                for n in refs:
                    for o, fn in ops.items():
                        got = test(E(ctor, [x]), E(o, [n]))
                        xv = x[1] if isinstance(x, tuple) else x
                        nv = n[1] if isinstance(n, tuple) else n
                        oblige("order:%s:%s" % (fam, o), got == fn(xv, nv), "DataValue::%s(%s).test(%s(%s)) is %s; the documented meaning gives %s" % (ctor, xv, o, nv, got, fn(xv, nv)), {"value": xv, "op": o, "ref": nv})
            r.hit("T4 family " + fam, sample={"law": "each comparison of the %s family has its arithmetic meaning" % fam})
        # wrong-type values are rejected by the ordered operators
        for v in values:
            for o in list(INT_OPS) + list(FLT_OPS):
                if v.name not in ("Int", "Float"):
                    ref = 1 if o in INT_OPS else 1.0
                    oblige("order-type:" + o, test(v, E(o, [ref])) is False, "DataValue::test(%r, %s(%s)) is true although the value is not numeric" % (v, o, ref))
            for o in DT_OPS:
                if v.name != "Datetime":
                    oblige("order-type:" + o, test(v, E(o, [dts[0]])) is False, "DataValue::test(%r, %s(..)) is true although the value is not a datetime" % (v, o))
        r.hit("T4 type discipline")
        # T10 numeric cross-type: "the datavalue must be numeric and greater than the value"
        for x in ints:
            for f in floats:
                for o, fn in FLT_OPS.items():
                    got = test(E("Int", [x]), E(o, [f]))
                    oblige("numeric-cross:int-vs-float-operator", got == fn(float(x), f), "DataValue::Int(%s).test(%s(%s)) is %s; the documented meaning (\"the datavalue must be numeric and ...\") gives %s: integer data is never matched by a float comparison" % (x, o, f, got, fn(float(x), f)), {"value": x, "op": o, "ref": f})
        for x in floats:
            for n in (0, 1, 3):
                for o, fn in INT_OPS.items():
                    got = test(E("Float", [x]), E(o, [n]))
                    oblige("numeric-cross:float-vs-int-operator", got == fn(x, float(n)), "DataValue::Float(%s).test(%s(%s)) is %s; the documented meaning (\"the datavalue must be numeric and ...\") gives %s: float data is never matched by an integer comparison" % (x, o, n, got, fn(x, float(n))), {"value": x, "op": o, "ref": n})
        r.hit("T10 numeric cross-type")
        # T8 string cross-type
        for x in ints:
            for s in strs + [str(x)]:
                want = bool(re.fullmatch(r"[+-]?\d+", s)) and int(s) == x
                oblige("string-cross:int", test(E("Int", [x]), E("Equals", [s])) == want, "DataValue::Int(%s).test(Equals(%r)) is %s, expected %s" % (x, s, not want, want))
        for x in floats:
            for s in strs + [repr(x)]:
                try:
                    want = float(s) == x if re.fullmatch(r"[+-]?(\d+(\.\d*)?|\.\d+)", s) else False
                except ValueError:
                    want = False
                oblige("string-cross:float", test(E("Float", [x]), E("Equals", [s])) == want, "DataValue::Float(%s).test(Equals(%r)) is %s, expected %s" % (x, s, not want, want))
        for s in strs:
            for t in strs:
                oblige("string-eq", test(E("String", [s]), E("Equals", [t])) == (s == t), "DataValue::String(%r).test(Equals(%r)) is %s" % (s, t, s != t))
        for d in dts:
            for s in ("T10", "T20", "abc"):
                want = s == "T%d" % d
                oblige("string-cross:datetime", test(E("Datetime", [d]), E("Equals", [s])) == want, "DataValue::Datetime(%s).test(Equals(%r)) is %s, expected %s" % (d, s, not want, want))
        r.hit("T8 string cross-type")
        # T9 lists
        lst = E("List", [[E("Int", [1]), E("String", ["abc"]), E("Float", [1.0])]])
        for op, inner in ((E("HasElement", ["abc"]), E("Equals", ["abc"])), (E("HasElement", ["zzz"]), E("Equals", ["zzz"])), (E("HasElementInt", [1]), E("EqualsInt", [1])), (E("HasElementInt", [7]), E("EqualsInt", [7])), (E("HasElementFloat", [1.0]), E("EqualsFloat", [1.0]))):
            want = any(test(e, inner) for e in lst.args[0])
            oblige("has-element:" + op.name, test(lst, op) == want, "List.test(%r) is %s; some element passes %r: %s" % (op, not want, inner, want))
            oblige("has-element-empty:" + op.name, test(E("List", [[]]), op) is False, "an empty list has no element, but test(%r) is true" % op)
        r.hit("T9 lists")
        # T7 reflexivity through From<&DataValue>
        if len(fromf) == 1:
            ff = fromf[0]
            ctx.functions_analysed.add(ff.qual)
            h2 = dict(hooks)
            h2["macro:eprintln"] = lambda ev, node, env: ()
            for v in values:
                if v.name == "List":
                    continue
                ev = Evaluator(hooks=h2)
                op = ev.run_body(ff.body, {"v": v})
                oblige("from-reflexive", isinstance(op, EnumVal) and test(v, op) is True, "DataValue %r does not pass the operator DataOperator::from(&value) = %r built from itself" % (v, op))
                for w in values:
                    if w.name == v.name and w != v:
                        oblige("from-distinct", test(w, op) is False, "DataValue %r passes the operator built from the different value %r" % (w, v))
            r.hit("T7 from/test", sample={"law": "v.test(&DataOperator::from(&v)) and not w.test(..) for w != v of the same type"})
        else:
            ctx.anchor_missing(r, "impl From<&DataValue> for DataOperator")
    except (Unknown, Panic) as e:
        ctx.report(r, "unevaluated", "DataValue::test could not be evaluated (%s): its laws are not established" % e, tf.file, tf.line)
    ctx.floor(r, r.obligations, 3000, "obligations on DataValue::test")
    r.notes.append("grid: %d values x %d base operators; obligations %d, discharged %d" % (len(values), len(base_ops), r.obligations, r.discharged))


# ====================================================================== DEDUP
def dedup_rule(ctx, syn):
    r = ctx.rule("C10.DEDUP", "insert_data creates a key only when it does not exist and data only when no equal item can be shared, and returns the shared item")
    f = [x for x in syn.fns if x.name == "insert_data" and x.file == "src/annotationdataset.rs"]
    if len(f) != 1:
        ctx.anchor_missing(r, "fn AnnotationDataSet::insert_data")
        return
    f = f[0]
    ctx.functions_analysed.add(f.qual)
    reported = set()
    n = 0
    for idk, keyk, dup, safety in itertools.product(("none", "resolves", "new-id"), ("none", "id-exists", "handle-exists", "id-new", "handle-unknown"), (False, True), (True, False)):
        created = []
        sc = "id=%s,key=%s,equal_data_present=%s,safety=%s" % (idk, keyk, dup, safety)
        idv = StructVal("BuildItem", {"kind": idk, "what": "data"})
        keyv = StructVal("BuildItem", {"kind": keyk, "what": "key"})
        hooks = {}
        hooks["into"] = lambda ev, recv, args, node, env: recv
        hooks["call:debug"] = lambda ev, recv, args, node, env: ()
        hooks["config"] = lambda ev, recv, args, node, env: "config"

        def get(ev, recv, args, node, env):
            a = args[0]
            if isinstance(a, StructVal) and a.tyname == "BuildItem":
                if a["what"] == "data":
                    return ok(StructVal("AnnotationData", {"h": "existing-by-id"})) if a["kind"] == "resolves" else err("notfound")
                return ok(StructVal("DataKey", {"h": "key-existing"})) if a["kind"] in ("id-exists", "handle-exists") else err("notfound")
            return NotImplemented
        hooks["get"] = get
        hooks["is_none"] = lambda ev, recv, args, node, env: (recv["kind"] == "none") if isinstance(recv, StructVal) and recv.tyname == "BuildItem" else NotImplemented
        hooks["is_id"] = lambda ev, recv, args, node, env: recv["kind"].startswith("id-") if isinstance(recv, StructVal) and recv.tyname == "BuildItem" else NotImplemented
        hooks["is_some"] = lambda ev, recv, args, node, env: (recv["kind"] != "none") if isinstance(recv, StructVal) and recv.tyname == "BuildItem" else NotImplemented
        hooks["handle"] = lambda ev, recv, args, node, env: some(recv["h"]) if isinstance(recv, StructVal) and "h" in recv else NotImplemented
        hooks["handle_or_err"] = lambda ev, recv, args, node, env: ok(recv["h"]) if isinstance(recv, StructVal) and "h" in recv else NotImplemented
        hooks["expect"] = lambda ev, recv, args, node, env: recv[1] if is_some(recv) else NotImplemented
        hooks["to_string"] = lambda ev, recv, args, node, env: (some("the-id") if recv["kind"] not in ("none",) and not recv["kind"].startswith("handle") else None) if isinstance(recv, StructVal) and recv.tyname == "BuildItem" else NotImplemented
        hooks["unwrap"] = lambda ev, recv, args, node, env: recv[1] if is_some(recv) else NotImplemented
        hooks["error"] = lambda ev, recv, args, node, env: EnumVal("StamError")
        hooks["id"] = lambda ev, recv, args, node, env: some("set")
        hooks["unwrap_or"] = lambda ev, recv, args, node, env: recv[1] if is_some(recv) else args[0]
        hooks["call:DataKey::new"] = lambda ev, recv, args, node, env: StructVal("NewDataKey", {"id": args[0]})
        hooks["call:AnnotationData::new"] = lambda ev, recv, args, node, env: StructVal("NewAnnotationData", {"id": args[0], "key": args[1], "value": args[2]})

        def insert(ev, recv, args, node, env, created=created):
            a = args[0]
            if isinstance(a, StructVal) and a.tyname == "NewDataKey":
                created.append(("key", a["id"]))
                return ok("key-new")
            if isinstance(a, StructVal) and a.tyname == "NewAnnotationData":
                created.append(("data", a["key"], a["value"]))
                return ok("data-new")
            return NotImplemented
        hooks["insert"] = insert
        looked = []

        def data_by_value(ev, recv, args, node, env, looked=looked):
            looked.append((args[0], args[1]))
            if dup and args[0] == "key-existing" and args[1] == "VALUE":
                return some(StructVal("AnnotationData", {"h": "existing-equal"}))
            return None
        hooks["data_by_value"] = data_by_value
        hooks["macro:format"] = lambda ev, node, env: "<msg>"
        ev = Evaluator(hooks=hooks)
        ev.opaque_types.add("StamError")
        n += 1
        try:
            res = ev.run_body(f.body, {"self": StructVal("AnnotationDataSet", {}), "id": idv, "key": keyv, "value": "VALUE", "safety": safety})
        except (Unknown, Panic) as e:
            if "unevaluated" not in reported:
                reported.add("unevaluated")
                ctx.report(r, "unevaluated", "AnnotationDataSet::insert_data could not be evaluated (%s; scenario %s): its sharing discipline is not established" % (e, sc), f.file, f.line)
            continue
        keys_created = [c for c in created if c[0] == "key"]
        data_created = [c for c in created if c[0] == "data"]
        r.hit(sc, sample={"scenario": sc, "created": [c[0] for c in created], "result": formula.fmt(res) if not isinstance(res, tuple) else repr(res)} if n % 9 == 1 else None)

        def bad(key, msg):
            if key not in reported:
                reported.add(key)
                ctx.report(r, key, msg + " (scenario: %s)" % sc, f.file, f.line, {"scenario": sc})
        key_exists = keyk in ("id-exists", "handle-exists")
        if idk == "resolves":
            if created:
                bad("existing-id-creates", "insert_data creates %s although the given data id resolves to an existing item" % [c[0] for c in created])
            if res != ok("existing-by-id"):
                bad("existing-id-result", "insert_data does not return the existing item's handle for an id that resolves (returns %r)" % (res,))
            continue
        if key_exists and keys_created:
            bad("key-twice", "insert_data creates a second key although the requested key exists in the set")
        if len(keys_created) > 1:
            bad("key-many", "insert_data creates more than one key in a single call")
        if keyk == "none" or keyk == "handle-unknown":
            if created:
                bad("error-creates", "insert_data creates %s on a path that ends in an error (no key / unknown key handle)" % [c[0] for c in created])
            if not (isinstance(res, tuple) and res and res[0] == "err"):
                bad("error-result", "insert_data does not fail for key=%s" % keyk)
            continue
        shareable = key_exists and idk == "none" and dup
        if shareable and safety:
            if data_created:
                bad("duplicate", "insert_data creates a second data item although an item with the same key and value exists and no explicit id was given")
            if res != ok("existing-equal"):
                bad("shared-result", "insert_data does not return the existing equal item (returns %r)" % (res,))
            if not looked or looked[0] != ("key-existing", "VALUE"):
                bad("lookup-args", "insert_data looks for an equal item with arguments %r, not (the resolved key, the value being added)" % (looked[:1],))
        else:
            if len(data_created) != 1:
                bad("create-count", "insert_data creates %d data items where exactly one new item is due" % len(data_created))
            elif data_created[0][1] != ("key-new" if keyk == "id-new" else "key-existing") or data_created[0][2] != "VALUE":
                bad("create-args", "insert_data creates the new item with key %r / value %r, not the requested ones" % (data_created[0][1], data_created[0][2]))
            if keyk == "id-new" and len(keys_created) != 1:
                bad("key-missing", "insert_data does not create the key that was requested by a new id")
    ctx.floor(r, n, 60, "insert_data scenarios")


# ====================================================================== BYVALUE
def byvalue_rule(ctx, syn):
    r = ctx.rule("C10.BYVALUE", "data_by_value returns an item of the key's entry whose value equals the requested value, examining the whole entry")
    f = [x for x in syn.fns if x.name == "data_by_value" and x.file == "src/annotationdataset.rs"]
    if len(f) != 1:
        ctx.anchor_missing(r, "fn AnnotationDataSet::data_by_value")
        return
    f = f[0]
    ctx.functions_analysed.add(f.qual)
    # values: tokens with a loose equivalence (what DataValue::test would accept) that is coarser than ==
    items = [("d0", ("Int", 1)), ("d1", ("String", "x")), ("d2", ("String", "1")), ("d3", ("Bool", True))]
    reported = set()
    n = 0
    for want in (("String", "1"), ("Int", 1), ("String", "x"), ("Bool", True), ("String", "true"), ("Int", 7)):
        for order in (items, list(reversed(items))):
            hooks = {}
            hooks["key"] = lambda ev, recv, args, node, env: some(StructVal("DataKey", {"h": 0}))
            hooks["map"] = lambda ev, recv, args, node, env: recv
            hooks["handle"] = lambda ev, recv, args, node, env: some(StructVal("Handle", {"v": recv["h"]})) if isinstance(recv, StructVal) and "h" in recv else NotImplemented
            hooks["expect"] = lambda ev, recv, args, node, env: recv[1] if is_some(recv) else (recv[1] if isinstance(recv, tuple) and recv[0] == "ok" else NotImplemented)
            hooks["as_usize"] = lambda ev, recv, args, node, env: recv["v"] if isinstance(recv, StructVal) else NotImplemented

            def get(ev, recv, args, node, env, order=order):
                if isinstance(recv, StructVal) and recv.tyname == "Vec":
                    return some([h for h, _ in order]) if args[0] == 0 else None
                if isinstance(args[0], str) and args[0].startswith("d"):
                    return ok(StructVal("AnnotationData", {"h": args[0], "value": dict(order)[args[0]]}))
                return NotImplemented
            hooks["get"] = get
            hooks["value"] = lambda ev, recv, args, node, env: recv["value"] if isinstance(recv, StructVal) and "value" in recv else NotImplemented
            hooks["into"] = lambda ev, recv, args, node, env: ("operator-from", recv)

            def loose(ev, recv, args, node, env):
                op = args[0]
                w = op[1] if isinstance(op, tuple) and op[0] == "operator-from" else op
                return str(recv[1]).lower() == str(w[1]).lower()
            hooks["test"] = loose
            ev = Evaluator(hooks=hooks)
            selfv = StructVal("AnnotationDataSet", {"key_data_map": StructVal("RelationMap", {"data": StructVal("Vec", {})})})
            n += 1
            try:
                res = ev.run_body(f.body, {"self": selfv, "key": "k", "value": want})
            except (Unknown, Panic) as e:
                if "unevaluated" not in reported:
                    reported.add("unevaluated")
                    ctx.report(r, "unevaluated", "data_by_value could not be evaluated (%s): that it decides by value equality is not established" % e, f.file, f.line)
                continue
            exact = [h for h, v in order if v == want]
            got = res[1]["h"] if is_some(res) else None
            r.hit("want=%s/%s" % want + ("/rev" if order is not items else ""), sample={"requested": want, "entry": order, "returned": got})
            if exact and got not in exact:
                k = "misses-equal"
                if k not in reported:
                    reported.add(k)
                    ctx.report(r, k, "data_by_value(%r) returns %r although the entry holds the equal item %r" % (want, got, exact[0]), f.file, f.line)
            if not exact and got is not None:
                k = "loose-match"
                if k not in reported:
                    reported.add(k)
                    ctx.report(r, k, "data_by_value(%r) returns item %r whose value %r is not equal to the requested value: two different values would share one data item" % (want, got, dict(order)[got]), f.file, f.line)
            if exact and got in exact:
                pass
    ctx.floor(r, n, 12, "data_by_value scenarios")


# ====================================================================== SAFETY
SAFETY_OFF = {
    ("src/annotationdataset.rs", "visit_seq"): "DataVisitor: dataset deserialisation from STAM JSON, items come from a file; duplicate check off by design",
    ("src/csv.rs", "from_csv_reader"): "dataset deserialisation from STAM CSV: items come from a file, duplicate check off by design",
}


def safety_rule(ctx, syn):
    r = ctx.rule("C10.SAFETY", "every caller of insert_data / build_insert_data keeps the duplicate check on, except the reviewed deserialisers")
    n = 0
    for f in syn.fns:
        if f.body is None:
            continue
        for c in find(f.body, "mcall"):
            if c["method"] in ("insert_data", "build_insert_data") and c["args"]:
                last = strip(c["args"][-1])
                if c["method"] == "insert_data" and len(c["args"]) != 4:
                    continue  # AnnotationStore::insert_data(dataitem)
                n += 1
                src = unparse(last)
                key = "%s|%s" % (f.file.replace("src/", ""), f.name)
                r.hit(key + ":" + src, sample={"caller": f.qual, "safety": src})
                if src == "true":
                    continue
                if src == "safety" and f.name in ("build_insert_data",):
                    continue  # passes its own parameter through
                if src == "false" and any(k[0] == f.file and (k[1] == f.name) for k in SAFETY_OFF):
                    continue
                ctx.report(r, key, "%s calls %s with the duplicate check switched off (`%s`): data added without an id is no longer shared" % (f.qual, c["method"], src), f.file, c.get("l"))
    ctx.floor(r, n, 8, "insert_data / build_insert_data call sites")


# ====================================================================== SCAN
def scan_rule(ctx, syn):
    r = ctx.rule("C10.SCAN", "data search answers from the scan source narrowed by nothing but filter_value(operator)")
    targets = [("find_data", "src/api/annotationdataset.rs", {"key.data()", "self.data()"}),
               ("find_data", "src/api/annotationstore.rs", None)]
    for name, file, _ in targets:
        fl = [f for f in syn.fns if f.name == name and f.file == file]
        if len(fl) != 1:
            ctx.anchor_missing(r, "fn %s in %s" % (name, file))
            continue
        f = fl[0]
        ctx.functions_analysed.add(f.qual)
        params = [p["pat"].get("name") for p in f.sig["inputs"]]
        opname = params[-1]
        localdefs = {}
        for nd in walk(f.body):
            if nd.get("k") == "let" and nd.get("init") is not None and len(pat_names(nd["pat"])) == 1:
                localdefs[pat_names(nd["pat"])[0]] = nd["init"]
        rets = []
        collect_returns(f.body, opname, None, rets, True)
        for e, under_any in rets:
            e = strip(e)
            src = unparse(e)
            key = "%s|%s" % (file.split("/")[-1], re.sub(r"\s+", "", src)[:50])
            inner = e
            if inner.get("k") == "call" and unparse(inner["func"]) == "Box::new" and inner["args"]:
                inner = strip(inner["args"][0])
            if inner.get("k") == "path" and len(inner["path"]) == 1 and inner["path"][0] in localdefs:
                d = strip(localdefs[inner["path"][0]])
                if d.get("k") == "call" and unparse(d["func"]) == "Box::new" and d["args"]:
                    d = strip(d["args"][0])
                inner = d
            shape, why = classify_scan(inner, opname, file)
            filtered = ".filter_value(" in unparse(inner)
            r.hit(key, sample={"function": f.qual, "returns": src[:90], "shape": shape, "operator_is_Any": under_any})
            if shape == "scan" and not filtered and under_any is not True:
                ctx.report(r, key + "|unfiltered", "%s returns the unfiltered scan `%s` on a path where the operator is not known to be DataOperator::Any: the value test is not applied" % (f.qual, src[:80]), f.file, e.get("l"))
            if shape == "scan" and filtered and under_any is True:
                pass  # filtering with Any is harmless
            if shape == "bad":
                ctx.report(r, key, "%s answers with `%s`: %s - the result is no longer the scan of the data narrowed by the caller's operator" % (f.qual, src[:100], why), f.file, e.get("l"))
    # test_data = find_data(...).next().is_some() / .test()
    for file in ("src/api/annotationdataset.rs", "src/api/annotationstore.rs"):
        fl = [f for f in syn.fns if f.name == "test_data" and f.file == file]
        if len(fl) != 1:
            ctx.anchor_missing(r, "fn test_data in " + file)
            continue
        f = fl[0]
        ctx.functions_analysed.add(f.qual)
        t = block_tail(f.body)
        src = unparse(t) if t else ""
        params = [p["pat"].get("name") for p in f.sig["inputs"]]
        r.hit("test_data|" + file.split("/")[-1])
        if not re.fullmatch(r"self\.find_data\(%s\)\.(next\(\)\.is_some\(\)|test\(\))" % ",".join(params), src):
            ctx.report(r, "test_data|" + file.split("/")[-1], "%s is `%s`, not `find_data(<its own arguments>)` tested for non-emptiness" % (f.qual, src[:80]), f.file, f.line)
    # ResultItem<AnnotationData>::test applies the operator to the item's own value
    fl = [f for f in syn.fns if f.name == "test" and f.file == "src/api/annotationdata.rs" and (f.self_ty or "").startswith("ResultItem")]
    if len(fl) != 1:
        ctx.anchor_missing(r, "fn ResultItem<AnnotationData>::test")
    else:
        f = fl[0]
        ctx.functions_analysed.add(f.qual)
        src = unparse(f.body)
        r.hit("AnnotationData::test")
        if "self.as_ref().value().test(operator)" not in src:
            ctx.report(r, "AnnotationData::test", "ResultItem<AnnotationData>::test does not apply the operator to the item's own value (`self.as_ref().value().test(operator)`)", f.file, f.line)
        for nd in find(f.body, "if"):
            for br, name in ((nd.get("else"), "else"),):
                if br is not None and unparse(br) not in ("{false}",):
                    ctx.report(r, "AnnotationData::test:else", "ResultItem<AnnotationData>::test answers `%s` for an item with another key" % unparse(br), f.file, f.line)
    # Filter::DataOperator arms of the data filter
    fl = [f for f in syn.fns if f.name == "test_filter" and f.file == "src/api/annotationdata.rs"]
    if len(fl) != 1:
        ctx.anchor_missing(r, "fn FilteredData::test_filter")
    else:
        f = fl[0]
        ctx.functions_analysed.add(f.qual)
        narms = 0
        for m in find(f.body, "match"):
            for a in m["arms"]:
                ps = re.sub(r"\s+", "", a["pat"]["s"])
                if ps.startswith("Filter::DataOperator(") or ps.startswith("Filter::DataKeyAndOperator("):
                    narms += 1
                    body = unparse(a["body"])
                    binds = pat_names(a["pat"])
                    opb = [b for b in binds if b.startswith("op")]
                    r.hit("filter-arm:" + ps.split("(")[0])
                    if not opb or not re.search(r"data\.test\(false,&?%s\)" % opb[0], body) or re.search(r"!data\.test", body):
                        ctx.report(r, "filter-arm:" + ps.split("(")[0], "the %s arm of the data filter does not test the candidate with the filter's operator (`%s`)" % (ps.split("(")[0], body[:80]), f.file, a.get("l"))
        ctx.floor(r, narms, 2, "operator arms of FilteredData::test_filter")
    # DataKey::data: the whole key_data_map entry of its own handle
    fl = [f for f in syn.fns if f.name == "data" and f.file == "src/api/datakey.rs" and (f.self_ty or "").startswith("ResultItem")]
    if len(fl) != 1:
        ctx.anchor_missing(r, "fn ResultItem<DataKey>::data")
    else:
        f = fl[0]
        ctx.functions_analysed.add(f.qual)
        src = unparse(f.body)
        r.hit("DataKey::data")
        if "data_by_key(self.handle())" not in src:
            ctx.report(r, "DataKey::data:source", "ResultItem<DataKey>::data does not read the key->data entry of its own handle (`data_by_key(self.handle())`)", f.file, f.line)
        for c in find(f.body, "mcall"):
            if c["method"] in ("skip", "take", "filter", "step_by", "skip_while", "take_while", "rev", "filter_map", "dedup"):
                ctx.report(r, "DataKey::data:narrowed:" + c["method"], "ResultItem<DataKey>::data narrows the key's data entry with .%s()" % c["method"], f.file, c.get("l"))


def collect_returns(node, opname, under_any, out, tail):
    """all returned expressions of a body with the knowledge whether `if let DataOperator::Any = op` holds"""
    k = node.get("k")
    if k == "block":
        stmts = node["stmts"]
        for i, s_ in enumerate(stmts):
            last = tail and i == len(stmts) - 1
            if s_.get("k") == "exprstmt":
                collect_returns(s_["e"], opname, under_any, out, last and not s_.get("semi"))
            elif s_.get("k") == "let" and s_.get("init") is not None:
                collect_returns(s_["init"], opname, under_any, out, False)
        return
    if k == "blockexpr":
        return collect_returns(node["block"], opname, under_any, out, tail)
    if k == "if":
        c = node["cond"]
        isany = c.get("k") == "letexpr" and re.sub(r"\s+", "", c["pat"]["s"]) == "DataOperator::Any" and unparse(strip(c["e"])) == opname
        collect_returns(node["then"], opname, True if isany else under_any, out, tail)
        if node.get("else") is not None:
            collect_returns(node["else"], opname, False if isany else under_any, out, tail)
        return
    if k == "match":
        for a in node["arms"]:
            collect_returns(a["body"], opname, under_any, out, tail)
        return
    if k == "return":
        if node.get("e") is not None:
            out.append((node["e"], under_any))
        return
    if tail:
        out.append((node, under_any))


def collect_tails(b, out):
    t = block_tail(b) if b.get("k") == "block" else b
    if t is None:
        return
    t0 = strip(t)
    k = t0.get("k")
    if k == "if":
        collect_tails(t0["then"], out)
        if t0.get("else") is not None:
            collect_tails(t0["else"], out)
    elif k == "blockexpr":
        collect_tails(t0["block"], out)
    elif k == "block":
        collect_tails(t0, out)
    elif k == "match":
        for a in t0["arms"]:
            collect_tails(a["body"], out)
    else:
        out.append(t0)


NARROW = {"skip", "take", "step_by", "skip_while", "take_while", "rev", "nth", "last", "dedup", "into_iter", "filter"}


def classify_scan(e, opname, file):
    src = unparse(e)
    if src == "std::iter::empty()":
        return "empty", ""
    if re.fullmatch(r"dataset\.find_data\(key,%s\)" % opname, src):
        return "delegate", ""
    if src == "iter":
        return "scan", ""
    chain = []
    cur = e
    while cur.get("k") == "mcall":
        chain.append(cur)
        cur = strip(cur["recv"])
    chain.reverse()
    methods = [c["method"] for c in chain]
    base = unparse(cur)
    if methods and methods[-1] == "filter_value":
        fv = chain[-1]
        if unparse(fv["args"][0]) != opname:
            return "bad", "filter_value is applied with `%s`, not the caller's operator `%s`" % (unparse(fv["args"][0]), opname)
        methods = methods[:-1]
        chain = chain[:-1]
    for c in chain:
        if c["method"] in NARROW or c["method"] in ("data_by_value", "map") and c["method"] == "data_by_value":
            return "bad", "the source is narrowed by .%s()" % c["method"]
    full = base + "".join(".%s()" % m for m in methods)
    if full in ("key.data()", "self.data()", "iter"):
        return "scan", ""
    if file.endswith("annotationstore.rs") and base == "self" and methods[:1] == ["datasets"]:
        # the all-datasets scan: datasets().map(|dataset| dataset.data().filter_map(key test)).flatten()
        if "data_by_value" in src or any(m in NARROW for m in methods):
            return "bad", "the all-datasets scan is narrowed"
        return "scan", ""
    return "bad", "`%s` is not one of the scan sources (key.data(), self.data(), the all-datasets scan)" % full[:60]


# ====================================================================== PARSE
def parse_rule(ctx, syn):
    """parse_dataoperator evaluated from its syntax tree for every (operator token, argument type) it accepts, on a grid
    of argument texts; the resulting operator is judged only through DataValue::test (also extracted), so any equivalent
    way of building it is accepted"""
    r = ctx.rule("C10.PARSE", "the DataOperator built by the query language for `OP value` denotes the stated comparison: != is the complement of =, a|b is the disjunction of its alternatives, < <= > >= have their arithmetic meaning (judged through the extracted DataValue::test)")
    pf = [f for f in syn.fns if f.name == "parse_dataoperator" and f.file == "src/api/query.rs"]
    tf = [f for f in syn.fns if f.name == "test" and f.file == "src/datavalue.rs"]
    if len(pf) != 1 or len(tf) != 1:
        ctx.anchor_missing(r, "fn parse_dataoperator / DataValue::test")
        return
    pf, tf = pf[0], tf[0]
    ctx.functions_analysed.add(pf.qual)
    hooks = base_hooks()
    hooks["call:Cow::Borrowed"] = lambda ev, recv, args, node, env: args[0]
    hooks["call:Box::new"] = lambda ev, recv, args, node, env: args[0]
    hooks["split"] = lambda ev, recv, args, node, env: recv.split(args[0]) if isinstance(recv, str) and isinstance(args[0], str) and args[0] else NotImplemented

    def h_map(ev, recv, args, node, env):
        if isinstance(recv, list) and args and isinstance(args[0], tuple) and args[0][0] == "closure":
            return [closure_call(ev, args[0], [x], env) for x in recv]
        return NotImplemented
    hooks["map"] = h_map
    hooks["collect"] = lambda ev, recv, args, node, env: recv if isinstance(recv, list) else NotImplemented
    hooks["expect"] = lambda ev, recv, args, node, env: recv[1] if isinstance(recv, tuple) and recv and recv[0] == "ok" else NotImplemented
    hooks["macro:format"] = lambda ev, node, env: "<message>"

    def num(kind):
        def f(ev, recv, args, node, env):
            v = args[0]
            try:
                if kind == "int":
                    if not re.fullmatch(r"[+-]?\d+", v):
                        raise ValueError
                    return ok(int(v))
                if not re.fullmatch(r"[+-]?(\d+(\.\d*)?|\.\d+)([eE][+-]?\d+)?", v):
                    raise ValueError
                return ok(float(v))
            except ValueError:
                return err("syntax")
        return f
    # reviewed models of the two one-line helpers (value.parse() with the type taken from the signature)
    hooks["call:parse_int_arg"] = num("int")
    hooks["call:parse_float_arg"] = num("float")
    cache = {}

    def test(v, op):
        k = (repr(v), repr(op))
        if k not in cache:
            res = Evaluator(hooks=hooks).run_body(tf.body, {"self": v, "operator": op})
            if not isinstance(res, bool):
                raise Unknown("test returned %r" % (res,))
            cache[k] = res
        return cache[k]
    hooks["test"] = lambda ev, recv, args, node, env: test(recv, args[0]) if isinstance(recv, EnumVal) else NotImplemented

    def parse(opstr, value, ty):
        res = Evaluator(hooks=hooks).run_body(pf.body, {"opstr": opstr, "value": value, "valuetype": E(ty)})
        if isinstance(res, tuple) and res and res[0] == "ok" and isinstance(res[1], EnumVal):
            return res[1]
        if isinstance(res, tuple) and res and res[0] == "err":
            return None
        raise Unknown("parse_dataoperator returned %r" % (res,))
    values = [E("Null"), E("Bool", [True]), E("Bool", [False])] + [E("Int", [n]) for n in (-1, 0, 1, 2, 3)] + [E("Float", [f]) for f in (1.0, 2.5, 3.0)] + \
        [E("String", [x]) for x in ("", "1", "3", "2.5", "abc", "abd", "true")] + [E("Datetime", [d]) for d in (10, 20, 30)]
    args = {"String": ["abc", "1", ""], "Integer": ["1", "3", "-1"], "Float": ["2.5", "1.0"], "Null": ["null"], "Any": ["any"], "Bool": ["true", "false"],
            "List": ["abc|abd", "1|abc|3", "abc|abc"], "UnquotedList": ["1|3", "1|2.5|abc", "2|2"], "Datetime": ["T10", "T20"]}
    ORD = {">": lambda a, b: a > b, ">=": lambda a, b: a >= b, "<": lambda a, b: a < b, "<=": lambda a, b: a <= b}
    n = 0
    reported = set()

    def bad(key, msg, sample=None):
        if key not in reported:
            reported.add(key)
            ctx.report(r, key, msg, pf.file, pf.line, sample)
    try:
        for ty, vs in sorted(args.items()):
            for v in vs:
                eq = parse("=", v, ty)
                ne = parse("!=", v, ty)
                if eq is not None and ne is not None:
                    for d in values:
                        n += 1
                        if test(d, ne) != (not test(d, eq)):
                            bad("complement:" + ty, "`!= %s` (%s) builds %r, which is not the complement of `= %s` = %r: on the value %r both answer %s" % (v, ty, ne, v, eq, d, test(d, eq)), {"value": repr(d), "arg": v, "type": ty})
                    r.hit("complement:%s:%s" % (ty, v), sample={"law": "test(d, parse('!=', v)) == !test(d, parse('=', v))", "type": ty, "arg": v, "eq": repr(eq), "ne": repr(ne)})
                if eq is not None and ty in ("List", "UnquotedList"):
                    parts = v.split("|")

                    def part_ty(x):
                        if ty == "List":
                            return "String"
                        if re.fullmatch(r"[+-]?\d+", x):
                            return "Integer"
                        if re.fullmatch(r"[+-]?(\d+(\.\d*)?|\.\d+)", x):
                            return "Float"
                        return "String"
                    alts = [parse("=", x, part_ty(x)) for x in parts]
                    if any(a is None for a in alts):
                        raise Unknown("alternative of %r not accepted on its own" % v)
                    for d in values:
                        n += 1
                        if test(d, eq) != any(test(d, a) for a in alts):
                            bad("disjunction:" + ty, "`= %s` (%s) builds %r, which is not the disjunction of its alternatives %r: differs on the value %r" % (v, ty, eq, alts, d), {"value": repr(d), "arg": v})
                    r.hit("disjunction:%s:%s" % (ty, v))
                if ty in ("Integer", "Float", "Datetime"):
                    ref = int(v) if ty == "Integer" else float(v) if ty == "Float" else int(v[1:])
                    fam = {"Integer": ("Int", "Float"), "Float": ("Int", "Float"), "Datetime": ("Datetime",)}[ty]
                    for tok, fn_ in sorted(ORD.items()):
                        op = parse(tok, v, ty)
                        if op is None:
                            bad("rejected:%s:%s" % (tok, ty), "`%s %s` (%s) is rejected by parse_dataoperator" % (tok, v, ty))
                            continue
                        for d in values:
                            n += 1
                            want = d.name in fam and fn_(d.args[0], ref)
                            if test(d, op) != want:
                                bad("order:%s:%s" % (tok, ty), "`%s %s` (%s) builds %r: on the value %r it answers %s, the notation says %s" % (tok, v, ty, op, d, test(d, op), want), {"value": repr(d), "arg": v, "token": tok})
                        r.hit("order:%s:%s:%s" % (tok, ty, v))
                    if eq is not None:
                        for d in values:
                            n += 1
                            if d.name in fam and test(d, eq) != (d.args[0] == ref):
                                bad("equal:" + ty, "`= %s` (%s) builds %r: on the value %r it answers %s" % (v, ty, eq, d, test(d, eq)))
                if ty == "String" and eq is not None:
                    for d in values:
                        n += 1
                        if d.name == "String" and test(d, eq) != (d.args[0] == v):
                            bad("equal:String", "`= \"%s\"` builds %r: on the value %r it answers %s" % (v, eq, d, test(d, eq)))
    except (Unknown, Panic) as e:
        ctx.report(r, "unevaluated", "parse_dataoperator could not be evaluated (%s): the meaning of the operators of the query language is not established" % e, pf.file, pf.line)
    r.obligations = r.discharged = n
    ctx.floor(r, n, 1300, "operator denotations compared")


# ====================================================================== MERGE
def merge_rule(ctx, syn):
    """Storable::merge of AnnotationDataSet (run when a second store or file brings data for a set that exists already):
    AnnotationData refers to its key by *handle*; the keys of the other set get handles of this set when they are
    inserted, so each merged data item must be re-pointed to the handle its key received here."""
    r = ctx.rule("C10.MERGE", "when a dataset is merged into an existing one, every merged data item is re-pointed to the handle its key received in the receiving set (data refers to keys by handle, and the two sets number their keys independently)")
    fs = [f for f in syn.fns if f.name == "merge" and f.file == "src/annotationdataset.rs" and (f.self_ty or "") == "AnnotationDataSet" and f.body is not None]
    if len(fs) != 1:
        ctx.anchor_missing(r, "<AnnotationDataSet as Storable>::merge")
        return
    fn = fs[0]
    ctx.functions_analysed.add(fn.qual)
    loops = list(find(fn.body, "for"))
    keyloop = [lp for lp in loops if unparse(lp["iter"]).endswith(".keys")]
    dataloop = [lp for lp in loops if unparse(lp["iter"]).endswith(".data")]
    if len(keyloop) != 1 or len(dataloop) != 1:
        ctx.anchor_missing(r, "loops over other.keys / other.data in AnnotationDataSet::merge")
        return
    r.hit("loops")
    # names that receive the handles returned by self.insert(key) in the key loop
    recv = set()
    for n in walk(keyloop[0]["body"]):
        if n.get("k") == "mcall" and n["method"] in ("push", "insert", "extend") and "self.insert(" in unparse(n).replace(" ", "") and strip(n["recv"]).get("k") == "path":
            recv.add(strip(n["recv"])["path"][0])
        if n.get("k") == "let" and n.get("init") is not None and "self.insert(" in unparse(n["init"]).replace(" ", ""):
            recv.update(pat_names(n["pat"]))
        if n.get("k") == "assign" and "self.insert(" in unparse(n["right"]).replace(" ", ""):
            l = strip(n["left"])
            while l.get("k") in ("index", "field"):
                l = strip(l["base"])
            if l.get("k") == "path":
                recv.add(l["path"][0])
    assigns = [n for n in walk(dataloop[0]["body"]) if n.get("k") == "assign" and strip(n["left"]).get("k") == "field" and strip(n["left"])["member"] == "key"]
    inserts = [n for n in walk(dataloop[0]["body"]) if n.get("k") == "mcall" and n["method"] in ("insert", "insert_data", "build_insert_data") and unparse(strip(n["recv"])) == "self"]
    r.hit("data-loop", sample={"handle_receivers_in_key_loop": sorted(recv), "key_assignments_in_data_loop": len(assigns), "inserts": len(inserts)})
    if not inserts:
        ctx.anchor_missing(r, "self.insert(data) in the data loop of merge")
        return
    good = [a for a in assigns if any(x.get("k") == "path" and len(x["path"]) == 1 and x["path"][0] in recv for x in walk(a["right"]))]
    if not good:
        ctx.report(r, "key-not-remapped", "AnnotationDataSet::merge inserts the data of the other set with the key handles of the *other* set%s: after the merge a data item is listed under whatever key has that number here (key.data() and find_data(key, ..) answer for the wrong key)" % ("" if not assigns else " (the key is assigned, but not from the handles returned by inserting the other set's keys)"), fn.file, inserts[0].get("l"))


# ---------------------------------------------------------------------- DELEGATE
def delegate_rule(ctx, rid="C10.DELEGATE"):
    """every data filter ends in ResultItem<AnnotationData>::test(key, operator); TEST decides DataValue::test.  The two
    agree only if the first answers through the second on every path (the constant false for another key apart): a
    shortcut for one operator (`*value == s` for Equals) has its own, narrower idea of equality."""
    import mirq
    r = ctx.rule(rid, "ResultItem<AnnotationData>::test answers through DataValue::test on every path; the only other answer is the constant false (another key)")
    prog = mirq.Program(ctx.facts.mir())
    bs = prog.find_bodies(r"^api::annotationdata::<impl store::ResultItem<'store, annotationdata::AnnotationData>>::test$")
    if len(bs) != 1:
        ctx.anchor_missing(r, "ResultItem<AnnotationData>::test")
        return
    b = bs[0]
    ctx.functions_analysed.add(b.id)
    thr = set(bi for bi, t in b.calls() if (mirq.callee_of(t)[0] or "").endswith("datavalue::DataValue::test"))
    other = mirq.undelegated_results(b, thr)
    r.hit(b.id, sample={"delegating_calls": len(thr), "other_answers": [o_[1] for o_ in other]})
    if not thr:
        ctx.report(r, "no-delegation", "ResultItem<AnnotationData>::test no longer calls DataValue::test", b.file, b.line)
    for bi, what, line in other[:1]:
        ctx.report(r, "own-answer", "ResultItem<AnnotationData>::test can answer `%s` without asking DataValue::test: data search through the filters then differs from a scan with the operator (e.g. `= \"5\"` no longer finds the integer 5)" % what, b.file, line)
