"""C05 STAM JSON round trip: writer/reader schema agreement (A8), selector tag table,
id / temp-id receiver agreement (A9), temp-id reader support, dirty-flag discipline of
stand-off members.  Value fidelity is not decided."""
import re
from synq import pat_names, strip, find,  Syn, walk, find, unparse, norm_ty, strip, str_lits

# writer impl self type -> reader: ("struct", name) | ("visitor", visitor type)
PAIRS = {
    "ResultItem<Annotation>": ("struct", "AnnotationJson"),
    "AnnotationDataRef": ("struct", "AnnotationDataJson"),
    "ResultItem<AnnotationData>": ("struct", "AnnotationDataJson"),
    "AnnotationDataSet": ("visitor", "AnnotationDataSetVisitor"),
    "AnnotationStore": ("visitor", "AnnotationStoreVisitor"),
    "TextResource": ("struct", "TextResourceBuilder"),
    "DataKey": ("struct", "DataKey"),
    "Offset": ("struct", "Offset"),
}


def serde_names(field):
    """names under which a derive(Deserialize) struct field is accepted; None if skipped"""
    names = [field["name"]]
    skip = False
    for a in field.get("attrs", []):
        if a["path"] == "serde":
            tk = a.get("tokens", "")
            m = re.search(r'rename\s*=\s*"([^"]+)"', tk)
            if m:
                names = [m.group(1)]
            for m in re.finditer(r'alias\s*=\s*"([^"]+)"', tk):
                names.append(m.group(1))
            if re.search(r"\bskip\b|\bskip_deserializing\b", tk):
                skip = True
    return None if skip else names


def is_optional(field):
    t = field["ty"]["s"].replace(" ", "")
    if t.startswith("Option<"):
        return True
    for a in field.get("attrs", []):
        if a["path"] == "serde" and "default" in a.get("tokens", ""):
            return True
    return False


def writer_fields(node):
    """[(name, line)] of serialize_field / serialize_entry calls with a literal name"""
    out = []
    for n in walk(node):
        if n.get("k") == "mcall" and n["method"] in ("serialize_field", "serialize_entry") and n["args"]:
            a = n["args"][0]
            if a.get("k") == "lit" and a.get("t") == "str":
                out.append((a["v"], n["l"], n))
    return out


def self_ty_key(s):
    s = s.replace(" ", "")
    s = re.sub(r"'[a-z_]+,?", "", s)
    s = s.replace("<>", "")
    return s


def run(ctx):
    syn = Syn(ctx.facts.syn())
    ctx.not_decided += ["value fidelity (numbers, strings, datetimes) - serde_json's job", "stand-off file contents beyond the field tables", "byte-identical output on re-write", "order of annotations (the writer iterates the store in handle order; not checked)"]
    ctx.assumptions += ["serde derive(Deserialize) accepts exactly the (renamed/aliased) field names and ignores unknown ones"]
    r_fld = ctx.rule("C05.FLD", "every field name a STAM JSON writer emits is accepted by the corresponding reader, and every required reader field is written")
    r_tag = ctx.rule("C05.TAG", "WrappedSelector: the arm for Selector::V writes \"@type\": \"V\" and exactly the fields of SelectorJson::V")
    r_idt = ctx.rule("C05.IDT", "id / temp-id fallbacks read the identifier from the same item")
    r_tmp = ctx.rule("C05.TMP", "every type whose temporary id is written has a reader that maps it back (resolve_temp_id)")
    r_dirty = ctx.rule("C05.DIRTY", "every mutation callback of a stand-off member marks it changed, so that save() rewrites the stand-off file")

    # ---- collect Serialize impls
    writers = {}
    for im in syn.impls:
        tr = im.get("trait")
        if tr and norm_ty(tr).split("::")[-1] == "Serialize":
            key = self_ty_key(im["self_ty"]["s"])
            for m in im["items"]:
                if m.get("k") == "fn" and m["name"] == "serialize":
                    writers[key] = (im, m)
    # ---- WHOLE: a persisted collection is written whole
    r_whole = ctx.rule("C05.WHOLE", "a writer hands each collection to the serialiser as a whole (the store field, or a wrapper over it): it never filters, truncates or skips items of a persisted collection")
    NARROW = {"filter", "filter_map", "take", "skip", "take_while", "skip_while", "step_by", "dedup", "truncate", "retain", "pop", "split_off", "drain"}
    nw = 0
    for wkey_, (im_, fn_) in sorted(writers.items()):
        lets_ = {}
        for nd in walk(fn_["body"]):
            if nd.get("k") == "let" and nd.get("init") is not None:
                for nm in pat_names(nd["pat"]):
                    lets_[nm] = nd["init"]
        for c in find(fn_["body"], "mcall"):
            if c["method"] not in ("serialize_field", "serialize_element", "serialize_entry") or not c["args"]:
                continue
            val = strip(c["args"][-1])
            nw += 1
            fname = unparse(strip(c["args"][0]))[:30] if len(c["args"]) > 1 else "element"
            r_whole.hit("%s|%s#%d" % (wkey_, fname, nw))
            seen_ = set()
            cur = val
            guard = 0
            while cur is not None and guard < 6:
                guard += 1
                if cur.get("k") == "path" and len(cur["path"]) == 1 and cur["path"][0] in lets_ and cur["path"][0] not in seen_:
                    seen_.add(cur["path"][0])
                    cur = strip(lets_[cur["path"][0]])
                    continue
                break
            chain = []
            c2 = cur
            while c2 is not None and c2.get("k") == "mcall":
                chain.append(c2["method"])
                c2 = strip(c2["recv"])
            base = unparse(c2) if c2 is not None else ""
            narrowed = [m for m in chain if m in NARROW]
            # TOMB: a store (Vec<Option<T>>) handed over raw writes a null for every removed item; no reader accepts that
            mself = re.match(r"^self\.(\w+)$", base)
            if mself and not chain:
                stname = re.sub(r"<.*", "", wkey_)
                st_ = syn.structs.get(stname)
                fty = ""
                if st_:
                    for f_ in st_["fields"]:
                        if f_["name"] == mself.group(1):
                            fty = re.sub(r"\s+", "", f_["ty"]["s"])
                if re.match(r"^(Store<|Vec<Option<)", fty):
                    ctx.report(r_whole, "%s|%s|raw-store" % (wkey_, fname), "the writer of %s emits %s straight from the store `%s` (%s): the slot of every removed item is written as null, which the reader rejects, so a store cannot be loaded again after a deletion" % (wkey_, fname, base, fty), im_.get("_file"), c.get("l"))
            if narrowed and re.match(r"self\.\w+", base):
                ctx.report(r_whole, "%s|%s|%s" % (wkey_, fname, narrowed[-1]), "the writer of %s emits %s from `%s` narrowed by .%s(): items of a persisted collection that do not pass are silently lost on save" % (wkey_, fname, base, narrowed[-1]), im_.get("_file"), c.get("l"))
    ctx.floor(r_whole, nw, 30, "serialised fields / elements")

    n_pairs = 0
    for wkey, (rkind, rname) in PAIRS.items():
        if wkey not in writers:
            ctx.anchor_missing(r_fld, "impl Serialize for %s" % wkey)
            continue
        im, fn = writers[wkey]
        wf = writer_fields(fn["body"])
        ctx.functions_analysed.add("impl Serialize for " + wkey)
        accepted, required, rfile, rline = set(), set(), None, None
        if rkind == "struct":
            st = syn.structs.get(rname)
            if st is None or "Deserialize" not in " ".join(a.get("tokens", "") for a in st["attrs"] if a["path"] == "derive"):
                ctx.anchor_missing(r_fld, "struct %s with derive(Deserialize)" % rname)
                continue
            rfile, rline = st["_file"], st["l"]
            for f in st["fields"]:
                names = serde_names(f)
                if names is None:
                    continue
                accepted.update(names)
                if not is_optional(f):
                    required.add(names[0])
        else:
            vis = [i for i in syn.impls if i.get("trait") and "Visitor" in i["trait"] and self_ty_key(i["self_ty"]["s"]).startswith(rname)]
            if len(vis) != 1:
                ctx.anchor_missing(r_fld, "impl Visitor for %s" % rname)
                continue
            rfile, rline = vis[0]["_file"], vis[0]["l"]
            vm = [m for m in vis[0]["items"] if m.get("k") == "fn" and m["name"] == "visit_map"]
            if not vm:
                ctx.anchor_missing(r_fld, "%s::visit_map" % rname)
                continue
            for n in walk(vm[0]["body"]):
                if n.get("k") == "arm":
                    for p in walk(n["pat"]):
                        if p.get("k") == "lit" and p.get("t") == "str":
                            accepted.add(p["v"])
            # the type check literal
            tlits = [v for v in str_lits(vm[0]["body"]) if v == wkey or v in [x for x, _, _ in wf]]
        n_pairs += 1
        written = set()
        for name, line, node in wf:
            written.add(name)
            r_fld.hit("%s.%s" % (wkey, name), sample={"writer": wkey, "field": name, "reader": rname})
            if name == "@type":
                continue
            if name not in accepted:
                ctx.report(r_fld, "%s.%s" % (wkey, name), "the %s writer emits field \"%s\" which reader %s does not accept (accepted: %s)" % (wkey, name, rname, sorted(accepted)), im["_file"], line)
        for req in sorted(required):
            r_fld.hit("%s:required:%s" % (wkey, req))
            if req not in written:
                ctx.report(r_fld, "%s:required:%s" % (wkey, req), "reader %s requires field \"%s\" but the %s writer never emits it" % (rname, req, wkey), rfile, rline)
        # "@type" value agreement for visitors that check it
        if rkind == "visitor":
            tvals = [unparse(n["args"][1]) for _, _, n in wf if _ == "@type" and len(n["args"]) > 1]
            lits = set(str_lits(vm[0]["body"]))
            for tv in tvals:
                tv = tv.strip('"')
                r_fld.hit("%s:@type" % wkey)
                if tv not in lits:
                    ctx.report(r_fld, "%s:@type" % wkey, "writer emits \"@type\": \"%s\" but reader %s checks for a different value" % (tv, rname), im["_file"], fn["l"])
    ctx.floor(r_fld, n_pairs, 8, "writer/reader pairs")

    # ---- selector tags
    sj = syn.enums.get("SelectorJson")
    if sj is None or "WrappedSelector" not in writers:
        ctx.anchor_missing(r_tag, "enum SelectorJson / impl Serialize for WrappedSelector")
    else:
        variants = {v["name"]: v for v in sj["variants"]}
        im, fn = writers["WrappedSelector"]
        ctx.functions_analysed.add("impl Serialize for WrappedSelector")
        arms = [n for n in walk(fn["body"]) if n.get("k") == "arm"]
        n_arms = 0
        seen_tags = set()
        for a in arms:
            pats = [p for p in walk(a["pat"]) if p.get("k") == "pat" and p.get("p") in ("tuplestruct", "struct", "path") and len(p.get("path", [])) >= 2 and p["path"][-2] == "Selector"]
            if not pats:
                continue
            wf = writer_fields(a["body"])
            if not wf:
                continue  # error arm for internal ranged selectors
            vnames = [p["path"][-1] for p in pats]
            n_arms += 1
            tagvals = [unparse(n["args"][1]).strip('"') for nm, _, n in wf if nm == "@type" and len(n["args"]) > 1]
            for vname in vnames:
                r_tag.hit(vname, sample={"variant": vname, "tag": tagvals, "fields": sorted(set(nm for nm, _, _ in wf))})
                if tagvals != [vname]:
                    ctx.report(r_tag, "tag:" + vname, "the arm for Selector::%s writes \"@type\": %s (must be \"%s\"): the written selector is read back as a different kind or rejected" % (vname, tagvals, vname), im["_file"], a["l"])
                seen_tags.update(tagvals)
                jv = variants.get(vname)
                if jv is None:
                    ctx.report(r_tag, "noreader:" + vname, "Selector::%s is written but SelectorJson has no variant %s" % (vname, vname), im["_file"], a["l"])
                    continue
                acc = set()
                req = set()
                for f in jv["fields"]:
                    names = serde_names(f)
                    if names:
                        acc.update(names)
                        if not is_optional(f):
                            req.add(names[0])
                wn = set(nm for nm, _, _ in wf) - {"@type"}
                for nm in sorted(wn - acc):
                    ctx.report(r_tag, "field:%s.%s" % (vname, nm), "Selector::%s writes field \"%s\" which SelectorJson::%s does not have" % (vname, nm, vname), im["_file"], a["l"])
                for nm in sorted(req - wn):
                    ctx.report(r_tag, "required:%s.%s" % (vname, nm), "SelectorJson::%s requires \"%s\" which the writer does not emit" % (vname, nm), im["_file"], a["l"])
        ctx.floor(r_tag, n_arms, 9, "selector writer arms")
        # the From<SelectorJson> conversion maps each variant to the same-named builder variant
        conv = [f for f in syn.find_fns(name="from", trait="From<SelectorJson>")]
        if len(conv) == 1:
            for a in [n for n in walk(conv[0].body) if n.get("k") == "arm"]:
                src = [p["path"][-1] for p in walk(a["pat"]) if p.get("k") == "pat" and p.get("p") == "struct"]
                dst = None
                b = a["body"]
                if b.get("k") == "call" and b["func"].get("k") == "path":
                    dst = b["func"]["path"][-1]
                if src and dst:
                    r_tag.hit("conv:" + src[0])
                    if src[0] != dst:
                        ctx.report(r_tag, "conv:" + src[0], "SelectorJson::%s is converted to SelectorBuilder::%s" % (src[0], dst), conv[0].file, a["l"])
        else:
            ctx.anchor_missing(r_tag, "impl From<SelectorJson> for SelectorBuilder")

    # ---- id / temp_id receiver agreement, in every Serialize impl
    n_idt = 0
    for key, (im, fn) in writers.items():
        for n in walk(fn["body"]):
            if n.get("k") != "if" or n["cond"].get("k") != "letexpr":
                continue
            ce = n["cond"]["e"]
            if not (ce.get("k") == "mcall" and ce["method"] == "id" and n["cond"]["pat"]["s"].replace(" ", "").startswith("Some(")):
                continue
            if not n.get("else"):
                continue
            tids = [m for m in walk(n["else"]) if m.get("k") == "mcall" and m["method"] == "temp_id"]
            if not tids:
                continue
            X = unparse(strip(ce["recv"]), strip_ref=True)
            X = re.sub(r"\.as_ref\(\)$", "", X)
            fields = [nm for nm, _, _ in writer_fields(n["then"])]
            for m in tids:
                Y = unparse(strip(m["recv"]), strip_ref=True)
                Y = re.sub(r"\.as_ref\(\)$", "", Y)
                n_idt += 1
                k = "%s:%s" % (key, "/".join(fields) or X)
                r_idt.hit(k, sample={"writer": key, "field": fields, "id_of": X, "temp_id_of": Y})
                if X != Y:
                    ctx.report(r_idt, k, "%s: field %s is the id of `%s` when it has one, but falls back to the temporary id of `%s` - a different item" % (key, fields, X, Y), im["_file"], m["l"])
    ctx.floor(r_idt, n_idt, 8, "id/temp_id fallbacks")

    # ---- temp-id readers
    for vname in ("AnnotationsVisitor", "DataVisitor"):
        vis = [i for i in syn.impls if i.get("trait") and "Visitor" in i["trait"] and self_ty_key(i["self_ty"]["s"]).startswith(vname)]
        r_tmp.hit(vname)
        if len(vis) != 1:
            ctx.anchor_missing(r_tmp, "impl Visitor for %s" % vname)
            continue
        calls = [unparse(c["func"]) for c in find(vis[0], "call")]
        if not any(c.endswith("resolve_temp_id") for c in calls):
            ctx.report(r_tmp, vname, "%s no longer maps temporary ids back to positions (no call to resolve_temp_id): items without public ids lose their references on reload" % vname, vis[0]["_file"], vis[0]["l"])
        mc = [n["method"] for n in walk(vis[0]) if n.get("k") == "mcall"]
        if "resize_with" not in mc:
            ctx.report(r_tmp, vname + ":gaps", "%s does not re-create gaps before inserting an item with a temporary id: handles shift after deletions" % vname, vis[0]["_file"], vis[0]["l"])

    # ---- dirty flags
    n_cb = 0
    for im in syn.impls:
        tr = im.get("trait")
        if not tr or "StoreCallbacks" not in tr:
            continue
        st = self_ty_key(im["self_ty"]["s"])
        if st not in ("AnnotationDataSet",):
            continue
        for m in im["items"]:
            if m.get("k") == "fn" and m["name"] in ("inserted", "preremove"):
                n_cb += 1
                k = "%s::%s::%s" % (st, norm_ty(tr), m["name"])
                r_dirty.hit(k)
                # top-level statement `self.mark_changed();` (not nested in a condition)
                top = [s for s in m["body"]["stmts"] if s["k"] == "exprstmt" and s["e"].get("k") == "mcall" and s["e"]["method"] == "mark_changed" and unparse(s["e"]["recv"]) == "self"]
                if not top:
                    ctx.report(r_dirty, k, "%s does not (unconditionally) mark the dataset as changed: a stand-off dataset file is not rewritten by save() after this mutation and the change is lost on reload" % k, im["_file"], m["l"])
    ctx.floor(r_dirty, n_cb, 4, "dataset mutation callbacks")

    clean_rule(ctx, syn)
    positional_rule(ctx, syn)
    omit_rule(ctx, syn)
    # the writers of the root store and of each sub-store pick their members by `*_substore_map.get(handle)`: absence must mean absence
    from props.c01 import emptyrow_rule
    emptyrow_rule(ctx, syn, rid="C05.EMPTYROW")
    from props.c01 import exclusive_rule
    exclusive_rule(ctx, syn, rid="C05.EXCLUSIVE")   # annotation -> sub-store membership decides into which file an annotation is written
    walk_rule(ctx, syn)
    from props.c15 import workdir_rule
    workdir_rule(ctx, syn, rid="C05.WORKDIR")   # the @include of a stand-off file is written through the same helper
    ext_rule(ctx)
    dtexact_rule(ctx, syn)
    alwaysid_rule(ctx)
    rawtext_rule(ctx)
    resolve_rule(ctx)
    order_rule(ctx, syn)
    extagree_rule(ctx, syn)
    moved_rule(ctx)
    from props.c11 import name_rule
    name_rule(ctx, rid="C05.NAME")   # to_file(name) / from_file(name): the manifest or store file is written under the name given
    mir_rules(ctx)


def positional_rule(ctx, syn):
    """items without a public id are written with positional temporary ids (!D<n>): the reader must put item n on slot n.
    A reader that resolves temporary ids and inserts with the duplicate check *on* drops an item equal to an earlier one,
    so its position stays empty and every reference to it dangles."""
    r = ctx.rule("C05.POSITIONAL", "a reader that maps temporary ids back to positions stores every item it reads: it inserts with the duplicate check off (an equal earlier item must not swallow a later one)")
    n = 0
    for im in syn.impls:
        tr = im.get("trait") or ""
        if "Visitor" not in tr:
            continue
        for m in im["items"]:
            if m.get("k") != "fn" or m["name"] != "visit_seq" or not m.get("body"):
                continue
            calls = [unparse(c["func"]) for c in find(m["body"], "call")]
            if not any(c.endswith("resolve_temp_id") for c in calls):
                continue
            for c in find(m["body"], "mcall"):
                if c["method"] in ("build_insert_data", "insert_data") and c["args"]:
                    n += 1
                    flag = unparse(strip(c["args"][-1]))
                    key = "%s|%s" % (norm_ty(im["self_ty"]["s"]), c["method"])
                    r.hit(key, sample={"reader": norm_ty(im["self_ty"]["s"]), "call": c["method"], "duplicate_check": flag})
                    if flag != "false":
                        ctx.report(r, key, "%s resolves temporary ids by position but inserts with the duplicate check `%s`: a data item without public id that equals an earlier one is merged into it, its slot stays empty, and the annotation that refers to it by !D<n> fails to load (or the store comes back with fewer items)" % (norm_ty(im["self_ty"]["s"]), flag), im.get("_file"), c.get("l"))
    ctx.floor(r, n, 1, "positional readers that insert data")


OMIT_OK = {
    ("TextResource", '"@id"'): "omitted when equal to the @include filename: TextResourceBuilder falls back to the filename as id",
    ("AnnotationDataSet", '"@id"'): "omitted when equal to the @include filename: the dataset reader falls back to the filename as id",
}


def omit_rule(ctx, syn, rid="C05.OMIT"):
    """a writer may leave a field out when the item does not have it (`if let Some(x) = ..`); leaving it out for a
    particular *value* is sound only if the reader fills in exactly that value, which is reviewed per field"""
    from synq import children
    r = ctx.rule(rid, "no STAM JSON writer omits a field for a particular value of that field (a comparison on the value it is about to write), except the reviewed cases where the reader restores exactly that value")
    n = 0

    def visit(node, conds, out):
        if not isinstance(node, dict) or node.get("k") == "closure":
            return
        if node.get("k") == "if":
            c = node["cond"]
            visit(c, conds, out)
            kind = "let" if strip(c).get("k") == "letexpr" else "cond"
            visit(node["then"], conds + [(kind, c)], out)
            if node.get("else"):
                visit(node["else"], conds + [(kind, c)], out)
            return
        if node.get("k") == "mcall" and node["method"] in ("serialize_field", "serialize_entry") and len(node["args"]) == 2:
            out.append((node, conds))
        for c_ in children(node):
            visit(c_, conds, out)
    for im in syn.impls:
        tr = im.get("trait") or ""
        if norm_ty(tr).split("::")[-1] != "Serialize":
            continue
        wkey = self_ty_key(im["self_ty"]["s"])
        for m in im["items"]:
            if m.get("k") != "fn" or m["name"] != "serialize" or not m.get("body"):
                continue
            out = []
            visit(m["body"], [], out)
            for node, conds in out:
                n += 1
                fname = unparse(strip(node["args"][0]))
                vnames = set(x["path"][0] for x in walk(node["args"][1]) if x.get("k") == "path" and len(x["path"]) == 1) | set(unparse(x) for x in walk(node["args"][1]) if x.get("k") == "mcall" and unparse(strip(x["recv"])) == "self" and not x["args"])
                for kind, c in conds:
                    if kind != "cond":
                        continue
                    cmps = [x for x in walk(c) if x.get("k") == "binary" and x["op"] in ("==", "!=")]
                    for cmp_ in cmps:
                        cn = set(x["path"][0] for x in walk(cmp_) if x.get("k") == "path" and len(x["path"]) == 1) | set(unparse(x) for x in walk(cmp_) if x.get("k") == "mcall" and unparse(strip(x["recv"])) == "self" and not x["args"])
                        shared = (vnames & cn) - {"self"}
                        if shared:
                            r.hit("%s|%s" % (wkey, fname), sample={"writer": wkey, "field": fname, "omitted_unless": unparse(cmp_)[:60]})
                            if (wkey, fname) not in OMIT_OK:
                                ctx.report(r, "%s|%s" % (wkey, fname), "the writer of %s leaves out %s depending on its value (`%s`): the reader does not restore that value when the field is missing (for a selector a missing offset means 'no text selection', not the default offset), so the item comes back different" % (wkey, fname, unparse(cmp_)[:80]), im.get("_file"), node.get("l"))
    ctx.floor(r, n, 40, "fields written by the STAM JSON writers")


def walk_rule(ctx, syn):
    """a writer emits the selectors an annotation *has*; Selector::iter(store, recurse_annotation = true) also yields the
    selectors of the annotations it targets, which then come back as extra sub-selectors"""
    r = ctx.rule("C05.WALK", "the selector writers walk a selector with recurse_annotation = false (internal ranged selectors are expanded, annotation selectors are not followed into their targets)")
    n = 0
    for im in syn.impls:
        tr = im.get("trait") or ""
        if norm_ty(tr).split("::")[-1] != "Serialize":
            continue
        for m in im["items"]:
            if m.get("k") != "fn" or not m.get("body"):
                continue
            for c in walk(m["body"]):
                if c.get("k") == "mcall" and c["method"] == "iter" and len(c["args"]) == 2:
                    n += 1
                    flag = unparse(strip(c["args"][1]))
                    key = "%s|%s" % (self_ty_key(im["self_ty"]["s"]), unparse(c)[:40])
                    r.hit(key, sample={"writer": self_ty_key(im["self_ty"]["s"]), "walk": unparse(c)[:60]})
                    if flag != "false":
                        ctx.report(r, "%s|recursive-walk" % self_ty_key(im["self_ty"]["s"]), "the writer of %s walks sub-selectors with recurse_annotation = %s: each annotation selector is followed by the selectors of the annotation it points at, so the target is written (and read back) with extra sub-selectors" % (self_ty_key(im["self_ty"]["s"]), flag), im.get("_file"), c.get("l"))
    ctx.floor(r, n, 1, "selector walks in the writers")


def clean_rule(ctx, syn, rid="C05.CLEAN"):
    """the changed flag of a stand-off member decides whether save() rewrites its file; it may be cleared only when the
    member's *own* file was written.  A function that writes to a path it is given clears it only under path == self.filename()."""
    r = ctx.rule(rid, "a function that writes a stand-off member to a path given by the caller clears the member's changed flag only if that path is the member's own file (guard comparing the parameter with self.filename())")
    n = 0
    for fn in syn.fns:
        if not fn.body:
            continue
        marks = [m for m in walk(fn.body) if m.get("k") == "mcall" and m["method"] == "mark_unchanged" and unparse(strip(m["recv"])) == "self"]
        if not marks:
            continue
        n += 1
        params = [i["pat"].get("name") for i in fn.sig["inputs"] if i.get("pat") and re.sub(r"\s+", "", (i.get("ty") or {}).get("s", "")) in ("&str", "&String", "String", "&Path", "impl AsRef<Path>")]
        r.hit(fn.qual, sample={"fn": fn.qual, "path_parameters": params})
        if not params:
            continue

        def conds_of(root, target):
            stack = [(root, [])]
            while stack:
                n_, cs = stack.pop()
                if n_ is target:
                    return cs
                if not isinstance(n_, dict):
                    continue
                if n_.get("k") == "if":
                    stack.append((n_["cond"], cs))
                    stack.append((n_["then"], cs + [unparse(n_["cond"])]))
                    if n_.get("else"):
                        stack.append((n_["else"], cs))
                    continue
                from synq import children
                for c_ in children(n_):
                    stack.append((c_, cs))
            return []
        def is_equality(cs_list, p_):
            """one of the enclosing conditions is the equality of the parameter with self.filename() (directly, or with the name
            an enclosing `if let Some(x) = self.filename()` gave it); a looser comparison (ends_with, contains, ..) is not"""
            def unwrap(c_):
                c_ = c_.replace(" ", "")
                while c_.startswith("(") and c_.endswith(")"):
                    depth = 0
                    closes_at_end = True
                    for i_, ch in enumerate(c_):
                        depth += ch == "("
                        depth -= ch == ")"
                        if depth == 0 and i_ < len(c_) - 1:
                            closes_at_end = False
                            break
                    if not closes_at_end:
                        break
                    c_ = c_[1:-1]
                return c_
            flat = [unwrap(c_) for c_ in cs_list]
            own = set(["self.filename()"])
            for c_ in flat:
                m_ = re.match(r"^letSome\((\w+)\)=self\.filename\(\)$", c_)
                if m_:
                    own.add(m_.group(1))
            for c_ in flat:
                for o_ in own:
                    for a_, b_ in ((p_, o_), (o_, p_)):
                        for fa, fb in (("Some(%s)", "%s"), ("%s", "Some(%s)"), ("%s", "%s")):
                            if c_ == (fa % a_) + "==" + (fb % b_) and not (fa == "%s" and fb == "%s" and o_ == "self.filename()"):
                                return True
            return False
        for m in marks:
            cs_list = conds_of(fn.body, m)
            cs = " && ".join(cs_list)
            if not any(is_equality(cs_list, p_) for p_ in params):
                ctx.report(r, fn.qual, "%s writes to the path `%s` it is given and then clears the changed flag without comparing that path with self.filename(): exporting the member somewhere else makes save() skip the member's own stand-off file, and the store cannot be loaded back" % (fn.qual, params[0]), fn.file, m.get("l"))
    ctx.floor(r, n, 3, "functions that clear a changed flag")


def mir_rules(ctx):
    """two value-flow rules on the MIR (robust against shadowing and renaming)"""
    import mirq
    prog = mirq.Program(ctx.facts.mir())
    # ---- MODE
    r_mode = ctx.rule("C05.MODE", "the offset alignment stored in a selector (OffsetMode) is taken from the offset the caller passed to AnnotationStore::selector, never from an offset computed from the resolved text selection (which is always begin-aligned)")
    try:
        b = prog.one(r"^annotationstore::AnnotationStore::selector$")
    except Exception as e:
        ctx.anchor_missing(r_mode, str(e))
        b = None
    n = 0
    if b is not None:
        ctx.functions_analysed.add(b.id)
        for bi, t in b.calls():
            d = mirq.callee_of(t)[0] or ""
            if not d.endswith("Offset::mode"):
                continue
            n += 1
            prov = sorted(b.provenance(t["args"][0]))
            r_mode.hit("mode#%d" % n, sample={"call": "Offset::mode", "line": t.get("line"), "receiver_derives_from": prov})
            calls = [x for x in prov if not x.startswith("arg")]
            if calls or "arg2" not in prov:
                ctx.report(r_mode, "mode-of-computed-offset", "AnnotationStore::selector stores offset.mode() of an offset that derives from %s, not (only) from the builder it was given: an end-aligned relative offset is written back begin-aligned" % (calls or prov), b.file, t.get("line"))
        ctx.floor(r_mode, n, 2, "Offset::mode calls in AnnotationStore::selector")
    # ---- TMPGAP
    r_gap = ctx.rule("C05.TMPGAP", "when a reader re-creates the gap in front of an item with a temporary id !X<n>, the new length derives from n alone (the item lands on handle n), not from how many items the store held before the list was read")
    m = 0
    for bid, b in sorted(prog.bodies.items()):
        if not bid.endswith("::visit_seq") or "Visitor" not in bid:
            continue
        for bi, t in b.calls():
            d = mirq.callee_of(t)[0] or ""
            if not d.endswith("resize_with") or len(t["args"]) < 2:
                continue
            m += 1
            ctx.functions_analysed.add(bid)
            prov = sorted(b.provenance(t["args"][1]))
            r_gap.hit(bid, sample={"reader": bid, "new_len_derives_from": prov})
            if not any(x.endswith("resolve_temp_id") for x in prov):
                ctx.report(r_gap, "not-from-temp-id:" + bid.split("::")[1].split("<")[0], "%s resizes the store to a length that does not derive from resolve_temp_id" % bid, b.file, t.get("line"))
            lens = [x for x in prov if re.search(r"(^|::)(\w*_)?len$", x)]
            if lens:
                ctx.report(r_gap, "offset-by-length:" + bid.split("::")[1].split("<")[0], "%s resizes the store to a length that also derives from %s: an item written as !X<n> no longer lands on handle n when the store was not empty before (sub-store read first), handles and temporary ids drift on every save/load cycle" % (bid, lens), b.file, t.get("line"))
    ctx.floor(r_gap, m, 2, "gap re-creations in readers")


# ---------------------------------------------------------------------- EXT
def ext_rule(ctx, rid="C05.EXT"):
    """`Path::ends_with(".json")` compares whole path components: it is true for a file called `.json`, never for
    `r.json`.  A writer that picks the format of a stand-off file that way always takes the other branch (a STAM JSON
    resource file is written as plain text and the store that includes it does not load again).  Type-resolved over
    the whole crate: every call of std::path::Path::ends_with / starts_with with a literal that is an extension."""
    import mirq
    r = ctx.rule(rid, "no std::path::Path::ends_with is called with a file extension (a literal that starts with a dot and names no directory): the comparison is by path component and can never be true for a file with that extension")
    prog = mirq.Program(ctx.facts.mir())
    n = 0
    for bid, b in sorted(prog.bodies.items()):
        if b.d.get("derived"):
            continue
        for bi, t in b.calls():
            decl = mirq.callee_of(t)[0] or ""
            if decl in ("std::path::Path::ends_with", "std::path::PathBuf::ends_with") and len(t.get("args", [])) == 2:
                n += 1
                k = (t["args"][1].get("k") or {}) if isinstance(t["args"][1], dict) else {}
                lit = k.get("s")
                r.hit("%s#%d" % (bid, n), sample={"function": bid, "argument": lit or b.key_of_operand(t["args"][1])})
                if isinstance(lit, str) and re.fullmatch(r'"\.[A-Za-z0-9.]+"', lit):
                    ctx.report(r, "%s|%s" % (mirq.short_fn(bid), lit.strip('"')), "%s tests a path with Path::ends_with(%s): that compares the last path component as a whole, so it is false for every file that merely has this extension - the branch behind it never runs (a stand-off file of that format is written in the other format)" % (bid, lit), b.file, t.get("line"))
    # the rule has a positive example on every run: the text comparisons on file names (str::ends_with) that it must not confuse with this
    strs = sum(1 for bid, b in prog.bodies.items() for bi, t in b.calls() if (mirq.callee_of(t)[0] or "").endswith("str::<impl str>::ends_with") or (mirq.callee_of(t)[0] or "") == "core::str::<impl str>::ends_with")
    r.notes.append("Path::ends_with calls in the crate: %d; str::ends_with calls (not concerned): %d" % (n, strs))


# ---------------------------------------------------------------------- DTEXACT
LOSSY_SECONDS = ("Secs", "Millis", "Micros")


def dtexact_rule(ctx, syn, rid="C05.DTEXACT"):
    """a timestamp is a value like any other: what is written has to read back as the same instant.  chrono's own serde
    impl and to_rfc3339() / to_rfc3339_opts(AutoSi | Nanos, ..) are exact; a fixed SecondsFormat cuts the sub-second part."""
    r = ctx.rule(rid, "no serialiser of the crate renders a DateTime with a truncating SecondsFormat (Secs / Millis / Micros) or a strftime pattern")
    n = 0
    for fn in syn.fns:
        if not fn.body or fn.file.startswith("src/api/webanno"):
            continue
        for c in walk(fn.body):
            if c.get("k") != "mcall" or c["method"] not in ("to_rfc3339_opts", "to_rfc3339", "format"):
                continue
            if c["method"] == "to_rfc3339":
                n += 1
                continue
            if c["method"] == "to_rfc3339_opts" and c["args"]:
                n += 1
                a0 = unparse(strip(c["args"][0]))
                r.hit("%s|%s" % (fn.qual, a0), sample={"fn": fn.qual, "seconds_format": a0})
                if a0.split("::")[-1] in LOSSY_SECONDS:
                    ctx.report(r, "%s|%s" % (fn.qual, a0.split("::")[-1]), "%s writes a DateTime with %s: the sub-second part is cut off, so a timestamp with fractional seconds is read back as another instant" % (fn.qual, a0), fn.file, c.get("l"))
    has_attr = [f_ for st in syn.enums.values() for v in st.get("variants", []) for f_ in v.get("fields", []) if any("serialize_with" in (a.get("tokens") or "") for a in f_.get("attrs", []) or [])]
    r.notes.append("datetime renderings seen: %d; enum fields with a custom serialize_with: %d" % (n, len(has_attr)))
    r.hit("scan", sample={"renderings": n})


# ---------------------------------------------------------------------- ALWAYSID
def alwaysid_rule(ctx, rid="C05.ALWAYSID"):
    """an annotation without a public id is written with its temporary id (`!A<handle>`): annotation selectors that point
    at it are written with that id, and the reader re-creates the gaps of removed annotations from these numbers.  So
    the annotation writer emits "@id" on every path to `end()` - one of the two kinds."""
    import mirq
    r = ctx.rule(rid, "Serialize for ResultItem<Annotation> writes an \"@id\" member on every path to the end of the object (the public id or the temporary one)")
    prog = mirq.Program(ctx.facts.mir())
    bs = prog.find_bodies(r"^annotation::<impl annotation::_::_serde::Serialize for store::ResultItem<'a, annotation::Annotation>>::serialize$")
    if len(bs) != 1:
        ctx.anchor_missing(r, "Serialize for ResultItem<Annotation>")
        return
    b = bs[0]
    ctx.functions_analysed.add(b.id)
    ids = set(bi for bi, t in b.calls() if (mirq.callee_of(t)[0] or "").endswith("SerializeStruct::serialize_field") and len(t.get("args", [])) >= 2 and str(b.key_of_operand(t["args"][1])) == 'const:"@id"')
    ends = [bi for bi, t in b.calls() if (mirq.callee_of(t)[0] or "").endswith("SerializeStruct::end")]
    r.hit("writer", sample={"id_writes": len(ids), "object_ends": len(ends)})
    if not ends:
        ctx.anchor_missing(r, "SerializeStruct::end in the annotation writer")
    for e_ in ends:
        if b.can_reach(0, e_, avoid=ids):
            ctx.report(r, "path-without-id", "the annotation writer can reach the end of the JSON object without having written \"@id\": an annotation without a public id then carries no temporary id in the file, the `!A<n>` references other annotations hold are resolved against renumbered handles after a reload, and they silently attach to a different annotation", b.file, b.blocks[e_]["t"].get("line"))
            break


# ---------------------------------------------------------------------- RAWTEXT
STRING_MUTATORS = re.compile(r"^std::string::String::(drain|remove|retain|truncate|insert|insert_str|push|push_str|pop|clear|replace_range|split_off|make_ascii_lowercase|make_ascii_uppercase)$")


def rawtext_rule(ctx, rid="C05.RAWTEXT"):
    """a stand-off plain text file is written as the text, byte for byte, and all offsets of the annotations count in it.
    What TextResourceBuilder::build reads from such a file has to become the text unchanged: between read_to_string and
    the TextResource { text, .. } that takes it, nothing edits the string (a stripped byte order mark or a trimmed line
    end shifts every offset and changes textlen)."""
    import mirq
    r = ctx.rule(rid, "in TextResourceBuilder::build no String-mutating call touches the buffer filled by read_to_string before it becomes TextResource.text")
    prog = mirq.Program(ctx.facts.mir())
    bs = prog.find_bodies(r"resources::TextResourceBuilder::build$")
    if len(bs) != 1:
        ctx.anchor_missing(r, "TextResourceBuilder::build")
        return
    b = bs[0]
    ctx.functions_analysed.add(b.id)
    reads = [(bi, t) for bi, t in b.calls() if (mirq.callee_of(t)[0] or "").endswith("Read::read_to_string")]
    if not reads:
        ctx.anchor_missing(r, "read_to_string in TextResourceBuilder::build")
        return
    for bi, t in reads:
        buf = str(b.key_of_operand(t["args"][1])).lstrip("&")
        muts = []
        for bj, t2 in b.calls():
            d2 = mirq.callee_of(t2)[0] or ""
            if STRING_MUTATORS.match(d2) and t2.get("args") and str(b.key_of_operand(t2["args"][0])).lstrip("&") == buf and b.can_reach(bi, bj):
                muts.append((d2.split("::")[-1], t2.get("line")))
        r.hit("read#%d" % bi, sample={"buffer": buf, "edits_after_reading": [m_[0] for m_ in muts]})
        for name, line in muts[:1]:
            ctx.report(r, "edited:%s" % name, "TextResourceBuilder::build calls String::%s on the text it has just read from the stand-off file: the loaded text differs from the written one, so the round trip changes the text, its length and what every offset selects" % name, b.file, line)


# ---------------------------------------------------------------------- RESOLVE
def resolve_rule(ctx, rid="C05.RESOLVE"):
    """a stand-off file is written where get_filepath(name, workdir) says and has to be read from there: every
    File::open / File::create of the crate's file helpers takes a path that derives from get_filepath on every path
    (a reader that first tries the name as given finds a same-named file in the current directory instead)."""
    import mirq
    r = ctx.rule(rid, "every File::open / File::create in src/file.rs opens a path that comes from get_filepath(filename, workdir): readers and writers resolve a stand-off name the same way")
    prog = mirq.Program(ctx.facts.mir())
    n = 0
    for bid, b in sorted(prog.bodies.items()):
        if b.file != "src/file.rs" or b.d.get("derived"):
            continue
        for bi, t in b.calls():
            d = mirq.callee_of(t)[0] or ""
            if d in ("std::fs::File::open", "std::fs::File::create") and t.get("args"):
                n += 1
                prov = b.provenance(t["args"][0])
                gets = [bj for bj, t2 in b.calls() if (mirq.callee_of(t2)[0] or "").endswith("file::get_filepath")]
                # ... on every path: a call of get_filepath dominates the open, and the path opened derives from it
                okp = any(p_.endswith("file::get_filepath") for p_ in prov) and any(b.dominates(g_, bi) for g_ in gets)
                r.hit("%s|%s#%d" % (mirq.short_fn(bid), d.split("::")[-1], n), sample={"fn": mirq.short_fn(bid), "call": d.split("::")[-1], "path_from_get_filepath": okp})
                if not okp:
                    ctx.report(r, "%s|%s-unresolved" % (mirq.short_fn(bid), d.split("::")[-1]), "%s calls %s on a path that does not come from get_filepath (%s): a relative stand-off name is then taken relative to the current directory, not to the store - a same-named file there is read instead of the one the store wrote" % (bid, d, str(b.key_of_operand(t["args"][0]))[:50]), b.file, t.get("line"))
    ctx.floor(r, n, 2, "File::open / File::create calls in src/file.rs")


# ---------------------------------------------------------------------- ORDER
REORDER = {"sort", "sort_by", "sort_by_key", "sort_unstable", "sort_unstable_by", "sort_unstable_by_key", "sort_by_cached_key", "reverse", "rev", "dedup", "dedup_by", "dedup_by_key"}


def order_rule(ctx, syn, rid="C05.ORDER"):
    """the reader re-creates lists in file order (an annotation's data, a dataset's keys and data, whose positions are
    their temporary ids): a JSON writer that sorts, reverses or groups what it writes changes the order of the reloaded
    lists.  No Serialize::serialize of the crate re-orders (C11.ORDER says the same of the CBOR helpers)."""
    r = ctx.rule(rid, "no serde Serialize::serialize implementation of the crate sorts, reverses or de-duplicates the collection it writes")
    n = 0
    for fn in syn.fns:
        if fn.name != "serialize" or not fn.body or "Serialize" not in (fn.trait or ""):
            continue
        n += 1
        ctx.functions_analysed.add(fn.qual)
        for c in walk(fn.body):
            if c.get("k") == "mcall" and c["method"] in REORDER:
                ctx.report(r, "%s|%s" % (fn.qual, c["method"]), "%s calls .%s() on what it writes: the list comes back from the file in another order than the store holds it (data(), data_by_index(), positional temporary ids)" % (fn.qual, c["method"]), fn.file, c.get("l"))
    r.hit("writers", sample={"serialize_implementations": n})
    ctx.floor(r, n, 10, "Serialize implementations")


# ---------------------------------------------------------------------- EXTAGREE
def extagree_rule(ctx, syn, rid="C05.EXTAGREE"):
    """whether a stand-off resource file holds STAM JSON or plain text is decided twice, from its name: by the writer
    (Serialize for TextResource) and by the reader (TextResourceBuilder::build).  The two tests must be the same
    predicate - same suffix, same case sensitivity - or a file is written in one format and read as the other."""
    r = ctx.rule(rid, "the writer and the reader of a stand-off resource file decide `is this STAM JSON` with the same test on the file name (same suffix literal, same case sensitivity)")
    sides = {}
    for fn in syn.fns:
        if fn.file != "src/resources.rs" or not fn.body:
            continue
        side = "writer" if (fn.name == "serialize" and (fn.self_ty or "") == "TextResource") else "reader" if (fn.name == "build" and (fn.self_ty or "") == "TextResourceBuilder") else None
        if not side:
            continue
        tests = [nd["cond"] for nd in walk(fn.body) if nd.get("k") == "if"] + [nd["init"] for nd in walk(fn.body) if nd.get("k") == "let" and nd.get("init") is not None]
        for cond in tests:
            if True:
                nd = cond
                src = unparse(cond)
                lits = [l_ for l_ in str_lits(cond) if "json" in l_.lower()]
                if lits and len(src) < 400:
                    ci = any(x in src for x in ("eq_ignore_ascii_case", "to_lowercase", "to_ascii_lowercase", "to_uppercase", "to_ascii_uppercase"))
                    how = "extension" if ".extension()" in src.replace(" ", "") else "ends_with" if "ends_with" in src else "other"
                    sides.setdefault(side, []).append((tuple(sorted(l_.lower().lstrip(".") for l_ in lits)), ci, how, nd.get("l"), fn))
    if "writer" not in sides or "reader" not in sides:
        ctx.anchor_missing(r, "the .json test in Serialize for TextResource / TextResourceBuilder::build")
        return
    w, rd = sides["writer"][0], sides["reader"][0]
    r.hit("json-test", sample={"writer": {"case_insensitive": w[1], "how": w[2]}, "reader": {"case_insensitive": rd[1], "how": rd[2]}})
    if w[0] != rd[0] or w[1] != rd[1]:
        ctx.report(r, "writer-reader-differ", "the writer of a stand-off resource decides `STAM JSON` by %s (%s), the reader by %s (%s): for a name on which the two disagree (NOTES.JSON) the file is written in one format and read as the other - the JSON source becomes the text" % (w[2], "ignoring case" if w[1] else "case-sensitive", rd[2], "ignoring case" if rd[1] else "case-sensitive"), w[4].file, w[3])



# ---------------------------------------------------------------------- MOVED
def moved_rule(ctx, rid="C05.MOVED"):
    """a stand-off resource or dataset is written only while it is marked changed (DIRTY / CLEAN), and it is read back
    relative to the directory of the store file.  set_filename() can move the store to another directory: the
    stand-off members then have to be marked changed, or the next save writes a store file whose @include members are
    not there.  MIR: AnnotationStore::set_filename, which updates the working directory, reaches mark_changed on a
    TextResource and on an AnnotationDataSet."""
    import mirq
    r = ctx.rule(rid, "AnnotationStore::set_filename, which can move the store to another directory, marks the stand-off resources and datasets as changed so that they are written there too")
    prog = mirq.Program(ctx.facts.mir())
    bs = prog.find_bodies(r"AnnotationStore as file::AssociatedFile>::set_filename$")
    if len(bs) != 1:
        ctx.anchor_missing(r, "<AnnotationStore as AssociatedFile>::set_filename")
        return
    b = bs[0]
    ctx.functions_analysed.add(b.id)
    upd = [bi for bi, t in b.calls() if (mirq.callee_of(t)[0] or "").endswith("AnnotationStore::update_config") and not b.blocks[bi].get("cleanup")]
    if not upd:
        ctx.anchor_missing(r, "the update of the working directory (update_config) in set_filename")
        return
    marks = {}
    for bi, t in b.calls():
        if (mirq.callee_of(t)[0] or "").endswith("ChangeMarker::mark_changed") and not b.blocks[bi].get("cleanup"):
            at = (t.get("at") or [""])[0]
            for kind in ("resources::TextResource", "annotationdataset::AnnotationDataSet"):
                if kind in at:
                    marks.setdefault(kind, bi)
    r.hit(b.id, sample={"workdir_update": upd, "marks_changed": sorted(marks)})
    for kind in ("resources::TextResource", "annotationdataset::AnnotationDataSet"):
        if kind not in marks:
            ctx.report(r, "unmarked:%s" % kind.split("::")[-1], "set_filename updates the working directory of the store but never marks a %s as changed: after save() in one directory, set_filename() to another and save() again, the stand-off %s files are not written next to the new store file, which then does not load (its @include members are missing)" % (kind.split("::")[-1], "resource" if "Resource" in kind else "dataset"), b.file, b.line)
