"""C13 relation algebra: the pairwise relation arms are extracted from the syntax tree as
comparison formulas and decided exhaustively over all order types of the interval end
points (A7).  Laws, complements, toggles and pattern coverage are decided on the finite
operator space.  Set-level semantics are decided for the singleton-collapse law only
(trip count 1); larger sets are not decided."""
import re
import itertools
from synq import Syn, walk
from formula import OpVal, Unknown, Panic, some, is_some, fmt, Interval
from relmodel import RelModel, top_match, is_unreachable_arm

# interval-arithmetic definitions, written from the doc comments of TextSelectionOperator
# s = (sb, se) is the tested selection (A), r = (rb, re) the reference (B); lim = None or int;
# ws(a, b) = "the text between a and b is whitespace only"
SPEC = {
    "Equals": lambda s, r, lim, aw, ws: s[0] == r[0] and s[1] == r[1],
    "InSet": lambda s, r, lim, aw, ws: s[0] == r[0] and s[1] == r[1],
    "Embeds": lambda s, r, lim, aw, ws: r[0] >= s[0] and r[1] <= s[1],
    "Embedded": lambda s, r, lim, aw, ws: s[0] >= r[0] and s[1] <= r[1] and (lim is None or (s[0] - r[0] <= lim and r[1] - s[1] <= lim)),
    "Before": lambda s, r, lim, aw, ws: s[1] <= r[0] and (lim is None or r[0] - s[1] <= lim),
    "After": lambda s, r, lim, aw, ws: s[0] >= r[1] and (lim is None or s[0] - r[1] <= lim),
    "Precedes": lambda s, r, lim, aw, ws: (s[1] == r[0]) if not aw else (s[1] <= r[0] and (s[1] == r[0] or ws)),
    "Succeeds": lambda s, r, lim, aw, ws: (s[0] == r[1]) if not aw else (s[0] >= r[1] and (s[0] == r[1] or ws)),
    "SameBegin": lambda s, r, lim, aw, ws: s[0] == r[0],
    "SameEnd": lambda s, r, lim, aw, ws: s[1] == r[1],
    "SameRange": lambda s, r, lim, aw, ws: s[0] == r[0] and s[1] == r[1],
    # overlap is specified for non-empty intervals only (zero-width: not decided, see notes)
    "Overlaps": lambda s, r, lim, aw, ws: (s[0] < r[1] and r[0] < s[1]) if (s[0] < s[1] and r[0] < r[1]) else None,
}

CONVERSE = [("Embeds", "Embedded"), ("Before", "After"), ("Precedes", "Succeeds")]
SYMMETRIC = ["Equals", "Overlaps"]
IMPLIES = [("Equals", "Embeds"), ("Equals", "Embedded"), ("Equals", "SameBegin"), ("Equals", "SameEnd")]


def intervals(n):
    return [(b, e) for b in range(n + 1) for e in range(b, n + 1)]


def opkey(op, drop=("limit", "allow_whitespace")):
    return "%s{%s}" % (op.variant, ",".join("%s:%s" % (k, fmt(v)) for k, v in sorted(op.fields.items()) if k not in drop))


def run(ctx):
    syn = Syn(ctx.facts.syn())
    ctx.level = "proof"
    model = RelModel(syn)
    N = 5 if ctx.tier == "quick" else 9
    limits = (None, 0, 1, 2) if ctx.tier == "quick" else (None, 0, 1, 2, 4)
    dom = intervals(N)
    _domcache = {}

    def dom_for(op):
        """the pairwise arm may compare against a named integer constant of the crate: the
        domain must then exceed it (small-model bound for difference atoms)"""
        try:
            _, arm = model.first_arm(model.f_test, op)
        except Unknown:
            arm = None
        big = 0
        if arm is not None:
            for n in walk(arm):
                if n.get("k") == "path" and len(n["path"]) == 1 and n["path"][0] in model.consts:
                    big = max(big, model.consts[n["path"][0]])
                if n.get("k") == "lit" and n.get("t") == "int":
                    big = max(big, int(n["v"]))
        n = max(N, big + 2) if big else N
        n = min(n, 40)
        if n not in _domcache:
            _domcache[n] = intervals(n)
        return _domcache[n]
    ctx.extra["exhaustive"] = True
    ctx.extra["domain"] = "all pairs of intervals 0<=b<=e<=%d (%d intervals, %d pairs); limits %s; whitespace predicate both truth values" % (N, len(dom), len(dom) ** 2, list(limits))
    ctx.extra["trusted_base"] = ["syn AST dump (engines/stamfacts-syn)", "lib/formula.py evaluator over the closed vocabulary", "interval definitions SPEC in lib/props/c13.py written from the doc comments",
                                 "small-model argument: comparison-only formulas over 4 end points and difference atoms with constants <= %d are decided on 0..%d" % (max(l for l in limits if l is not None), N)]
    ctx.not_decided += ["the whitespace predicate itself (uninterpreted)", "set-level semantics for sets with more than one member (only the singleton-collapse law and the pattern coverage are decided)",
                        "overlap of zero-width selections (the documentation does not define it; only symmetry is decided there)"]
    ctx.assumptions += ["two TextSelection values of one resource with equal offsets carry the same handle (C01.ONCE), so derived equality coincides with offset equality"]
    for f in (model.f_test, model.f_test_set, model.f_set_test, model.f_set_test_set, model.f_toggle_negate, model.f_toggle_all, model.f_with_limit):
        ctx.functions_analysed.add(f.qual)

    r_pair = ctx.rule("C13.PAIR", "each pairwise relation arm equals its interval definition on every order type")
    r_law = ctx.rule("C13.LAW", "converse, symmetry and implication laws between the extracted pairwise formulas")
    r_neg = ctx.rule("C13.NEG", "a negated relation is the exact complement of the positive one (all four test functions)")
    r_exh = ctx.rule("C13.EXH", "every operator/modifier combination is handled by an arm other than the final unreachable!()")
    r_tog = ctx.rule("C13.TOGGLE", "toggle_negate / toggle_all / with_limit change exactly the named field")
    r_set = ctx.rule("C13.SINGLETON", "a test on singleton sets equals the test on their single members (loops unrolled once)")
    r_sub = ctx.rule("C13.SUB", "no unsigned subtraction in a relation arm can underflow")

    def report_panic(fnq, op, p, s, r):
        if p.kind == "unsigned-underflow":
            ctx.report(r_sub, "%s:%s" % (fnq, opkey(op, drop=("limit",))), "unsigned subtraction underflows in %s for %r with self=%s ref=%s (panics in debug builds, wraps in release)" % (fnq, op, s, r),
                       model.file, p.line, {"op": repr(op), "self": s, "ref": r})
        else:
            ctx.report(r_exh, "%s:%s" % (fnq, opkey(op)), "%s reaches %s for operator %r" % (fnq, p.kind, op), model.file, p.line, {"op": repr(op)})

    # ---------------- pairwise definitions
    posops = [o for o in model.opvalues(limits) if not o.fields.get("negate")]
    variants_done = set()
    for op in posops:
        spec = SPEC.get(op.variant)
        key = opkey(op, drop=()) if False else "%s{%s}" % (op.variant, ",".join("%s:%s" % (k, fmt(v)) for k, v in sorted(op.fields.items()) if k != "negate"))
        r_pair.obligations += 1
        if spec is None:
            r_pair.unknown += 1
            ctx.report(r_pair, "no-spec:" + op.variant, "operator variant %s has no interval definition in the rule table (new operator?)" % op.variant, model.file, None)
            continue
        lim = op.fields.get("limit")
        lim = lim[1] if is_some(lim) else None
        aw = op.fields.get("allow_whitespace", False)
        bad = None
        unknown = None
        n_eval = 0
        d_op = dom_for(op)
        for s in d_op:
            for r in d_op:
                for ws in ((True, False) if aw else (True,)):
                    try:
                        got, ev = model.pair(op, s, r, ws)
                    except Panic as p:
                        report_panic(model.f_test.qual, op, p, s, r)
                        bad = bad or ("panic", s, r, ws)
                        continue
                    except Unknown as u:
                        unknown = str(u)
                        break
                    n_eval += 1
                    want = spec(s, r, lim, aw, ws)
                    if want is None:
                        continue
                    if aw and ev.ws_keys:
                        gap = (s[1], r[0]) if op.variant == "Precedes" else (r[1], s[0])
                        if any(k != gap for k in ev.ws_keys):
                            bad = bad or ("gap", s, r, ev.ws_keys[0])
                    if got != want and bad is None:
                        bad = ("mismatch", s, r, ws, got, want)
                if unknown:
                    break
            if unknown:
                break
        r_pair.hit(key, sample={"operator": repr(op), "evaluations": n_eval})
        if unknown:
            r_pair.unknown += 1
            ctx.report(r_pair, "uninterpretable:" + op.variant, "the pairwise arm for %s is outside the comparison vocabulary (%s): obligation not discharged" % (op.variant, unknown), model.file, model.f_test.line)
        elif bad:
            if bad[0] == "mismatch":
                ctx.report(r_pair, "def:" + key, "pairwise %r differs from its interval definition: self=%s ref=%s whitespace=%s gives %s, definition says %s" % (op, bad[1], bad[2], bad[3], bad[4], bad[5]),
                           model.file, model.f_test.line, {"self": bad[1], "ref": bad[2]})
            elif bad[0] == "gap":
                ctx.report(r_pair, "gap:" + key, "whitespace arm of %r inspects text %s, not the gap between the two selections (self=%s ref=%s)" % (op, bad[3], bad[1], bad[2]), model.file, model.f_test.line)
        else:
            r_pair.discharged += 1
            variants_done.add(op.variant)
    ctx.floor(r_pair, len({o.variant for o in posops}), 12, "operator variants")

    # ---------------- laws (on the extracted formulas, no spec involved)
    def base(variant, **kw):
        flds = {}
        for f, t in model.variants[variant].items():
            flds[f] = False if t == "bool" else None
        flds.update(kw)
        return OpVal(variant, flds)

    def T(op, s, r, ws=True):
        try:
            return model.pair(op, s, r, ws)[0]
        except Panic:
            return "panic"

    def law(name, pred, keyname, d=None):
        r_law.obligations += 1
        r_law.hit(keyname, sample=name)
        try:
            for s in (d or dom):
                for r in (d or dom):
                    cx = pred(s, r)
                    if cx:
                        ctx.report(r_law, keyname, "%s fails for a=%s b=%s (%s)" % (name, s, r, cx), model.file, model.f_test.line, {"a": s, "b": r})
                        return
        except Unknown as u:
            r_law.unknown += 1
            ctx.report(r_law, "uninterpretable:" + keyname, "law %s cannot be evaluated (%s)" % (name, u), model.file, model.f_test.line)
            return
        r_law.discharged += 1

    for a, b in CONVERSE:
        if a not in model.variants or b not in model.variants:
            ctx.anchor_missing(r_law, "variants %s/%s" % (a, b))
            continue
        mods = [{}]
        if "limit" in model.variants[a]:
            mods = [{"limit": None if l is None else some(l)} for l in limits]
        if "allow_whitespace" in model.variants[a]:
            mods = [{"allow_whitespace": False}, {"allow_whitespace": True}]
        for md in mods:
            for ws in (True, False):
                if not md.get("allow_whitespace") and not ws:
                    continue
                oa, ob = base(a, **md), base(b, **md)
                law("%s(a,b) == %s(b,a) %s ws=%s" % (a, b, md, ws),
                    lambda s, r, oa=oa, ob=ob, ws=ws: None if T(oa, s, r, ws) == T(ob, r, s, ws) else "%s vs %s" % (T(oa, s, r, ws), T(ob, r, s, ws)),
                    "converse:%s/%s:%s:ws=%s" % (a, b, ",".join("%s=%s" % (k, fmt(v)) for k, v in sorted(md.items())), ws),
                    d=max(dom_for(oa), dom_for(ob), key=len))
    for a in SYMMETRIC:
        oa = base(a)
        law("%s symmetric" % a, lambda s, r, oa=oa: None if T(oa, s, r) == T(oa, r, s) else "%s vs %s" % (T(oa, s, r), T(oa, r, s)), "symmetric:" + a)
    for a, b in IMPLIES:
        oa, ob = base(a), base(b)
        law("%s implies %s" % (a, b), lambda s, r, oa=oa, ob=ob: None if (not T(oa, s, r) is True) or T(ob, s, r) is True else "%s holds, %s does not" % (a, b), "implies:%s=>%s" % (a, b))

    # ---------------- toggles
    allops = model.opvalues(limits)
    for op in allops:
        for fn, field in ((model.f_toggle_negate, "negate"), (model.f_toggle_all, "all")):
            r_tog.obligations += 1
            k = "%s:%s" % (fn.name, opkey(op, drop=()))
            try:
                got, _ = model.call(fn, op, [])
            except (Unknown, Panic) as u:
                r_tog.unknown += 1
                ctx.report(r_tog, "uninterpretable:%s:%s" % (fn.name, op.variant), "%s cannot be evaluated for %s (%s)" % (fn.name, op.variant, u), fn.file, fn.line)
                continue
            want = OpVal(op.variant, dict(op.fields, **{field: not op.fields[field]}))
            r_tog.hit(k)
            if got != want:
                ctx.report(r_tog, "%s:%s" % (fn.name, op.variant), "%s(%r) = %r, expected %r" % (fn.name, op, got, want), fn.file, fn.line)
            else:
                r_tog.discharged += 1
        for L in (0, 3):
            r_tog.obligations += 1
            try:
                got, _ = model.call(model.f_with_limit, op, [L])
            except (Unknown, Panic) as u:
                r_tog.unknown += 1
                ctx.report(r_tog, "uninterpretable:with_limit:%s" % op.variant, "with_limit cannot be evaluated for %s (%s)" % (op.variant, u), model.f_with_limit.file, model.f_with_limit.line)
                continue
            want = OpVal(op.variant, dict(op.fields, **({"limit": some(L)} if "limit" in op.fields else {})))
            r_tog.hit("with_limit:%s:%d" % (opkey(op, drop=()), L))
            if got != want:
                ctx.report(r_tog, "with_limit:%s" % op.variant, "with_limit(%r, %d) = %r, expected %r" % (op, L, got, want), model.f_with_limit.file, model.f_with_limit.line)
            else:
                r_tog.discharged += 1

    # ---------------- leftmost / rightmost (used by the all-variants and by the search ranges)
    quant_rule(ctx, model)
    setsubj_rule(ctx, model)
    setlaw_rule(ctx, model)
    wrap_rule(ctx)
    handlefree_rule(ctx, model)
    r_ext = ctx.rule("C13.EXTREME", "TextSelectionSet::leftmost / rightmost return an item with the smallest begin / largest end, for sorted and unsorted sets (all sets up to 3 items over 0..3)")
    from formula import Evaluator, StructVal
    import itertools
    small_iv = intervals(3)
    for fname, field, agg in (("leftmost", "begin", min), ("rightmost", "end", max)):
        fn = syn.fn(fname, self_ty="TextSelectionSet")
        ctx.functions_analysed.add(fn.qual)
        r_ext.obligations += 1
        bad = None
        unknown = None
        n_ev = 0
        for k in (0, 1, 2, 3):
            for combo in itertools.product(small_iv, repeat=k):
                for sorted_ in (False, True):
                    data = [model.interval(*c) for c in (sorted(combo) if sorted_ else combo)]
                    hooks = {
                        "is_empty": lambda ev, recv, args, node, env: (len(recv["data"]) == 0) if isinstance(recv, StructVal) else NotImplemented,
                        "iter": lambda ev, recv, args, node, env: recv["data"] if isinstance(recv, StructVal) else (recv if isinstance(recv, list) else NotImplemented),
                        "get": lambda ev, recv, args, node, env: ((some(recv[args[0]]) if 0 <= args[0] < len(recv) else None) if isinstance(recv, list) else NotImplemented),
                    }
                    ev = Evaluator(hooks=hooks)
                    try:
                        got = ev.run_body(fn.body, {"self": StructVal("TextSelectionSet", {"data": data, "sorted": sorted_})})
                    except Panic as p:
                        bad = bad or "panics (%s) for %s sorted=%s" % (p.kind, list(combo), sorted_)
                        continue
                    except Unknown as u:
                        unknown = str(u)
                        break
                    n_ev += 1
                    if k == 0:
                        if got is not None and bad is None:
                            bad = "returns %r for the empty set" % (got,)
                        continue
                    want = agg(c[0] if field == "begin" else c[1] for c in combo)
                    if not (is_some(got) and got[1][field] == want) and bad is None:
                        bad = "returns %r for the %s set %s: its %s is not the %s (%d)" % (got, "sorted" if sorted_ else "unsorted", sorted(combo) if sorted_ else list(combo), field, "smallest" if agg is min else "largest", want)
                if unknown:
                    break
            if unknown:
                break
        r_ext.hit(fname, sample={"function": fn.qual, "sets_evaluated": n_ev})
        if unknown:
            r_ext.unknown += 1
            ctx.report(r_ext, "uninterpretable:" + fname, "%s is outside the evaluator's vocabulary (%s): obligation not discharged" % (fn.qual, unknown), fn.file, fn.line)
        elif bad:
            ctx.report(r_ext, fname, "TextSelectionSet::%s %s" % (fname, bad), fn.file, fn.line)
        else:
            r_ext.discharged += 1

    # ---------------- FLAG: `sorted` licenses the fast paths of leftmost()/rightmost(); it must be true only of ordered data
    r_flag = ctx.rule("C13.FLAG", "TextSelectionSet.sorted is true only while data is in order: data is written by add() (ordered insertion under the flag) and sort() (sets the flag) only, and add() keeps a sorted set sorted and duplicate-free")
    import mirq
    from effects import field_effects
    prog = mirq.Program(ctx.facts.mir())
    eff = field_effects(prog)
    WRITERS = {"data": {"textselection::TextSelectionSet::add": "ordered insertion when the flag is set, append otherwise",
                        "textselection::TextSelectionSet::sort": "sorts and then sets the flag"},
               "sorted": {"textselection::TextSelectionSet::sort": "sets the flag after sorting"}}
    nw = 0
    for fld, allowed in sorted(WRITERS.items()):
        for bid, line in sorted(eff.get(("textselection::TextSelectionSet", fld), {}).items()):
            nw += 1
            r_flag.hit("%s<-%s" % (fld, bid), sample={"field": fld, "writer": bid})
            if bid not in allowed and not prog.bodies[bid].d.get("derived"):
                ctx.report(r_flag, "%s<-%s" % (fld, bid), "%s writes TextSelectionSet.%s directly; only %s may (a sorted set that is appended to keeps sorted=true over unordered data, and leftmost()/begin() answer from data[0])" % (bid, fld, sorted(allowed)), prog.bodies[bid].file, line)
    ctx.floor(r_flag, nw, 3, "writers of TextSelectionSet.data / .sorted")
    addf = syn.fn("add", self_ty="TextSelectionSet")
    ctx.functions_analysed.add(addf.qual)

    def bsearch(ev, recv, args, node, env):
        if not isinstance(recv, list):
            return NotImplemented
        from formula import ok, err
        x = args[0]
        key = lambda t: (t["begin"], t["end"])
        lo, hi = 0, len(recv)
        while lo < hi:
            mid = (lo + hi) // 2
            if key(recv[mid]) == key(x):
                return ok(mid)
            if key(recv[mid]) < key(x):
                lo = mid + 1
            else:
                hi = mid
        return err(lo)
    ah = {"binary_search": bsearch,
          "insert": lambda ev, recv, args, node, env: (recv.insert(args[0], args[1]) or ()) if isinstance(recv, list) else NotImplemented,
          "push": lambda ev, recv, args, node, env: (recv.append(args[0]) or ()) if isinstance(recv, list) else NotImplemented,
          "handle": lambda ev, recv, args, node, env: recv.get("intid") if isinstance(recv, Interval) and not args else NotImplemented}
    n_add = 0
    badadd = None
    try:
        for k in (0, 1, 2):
            for combo in itertools.product(small_iv, repeat=k):
                for x in small_iv:
                    for flag in (True, False):
                        if flag and list(combo) != sorted(set(combo)):
                            continue
                        for known in (False, True):   # members given by offset carry no handle, known selections carry one per range
                            def mk(c):
                                iv = model.interval(*c)
                                if known and "intid" in iv:
                                    iv["intid"] = some(("handle", c[0] * 16 + c[1]))
                                return iv
                            st = StructVal("TextSelectionSet", {"data": [mk(c) for c in combo], "sorted": flag})
                            Evaluator(hooks=ah).run_body(addf.body, {"self": st, "textselection": mk(x)})
                            got = [(t["begin"], t["end"]) for t in st["data"]]
                            n_add += 1
                            if st["sorted"] is True and got != sorted(set(got)) and badadd is None:
                                badadd = "add(%s) to the sorted set %s leaves %s with sorted=true" % (x, list(combo), got)
                            if x not in got and badadd is None:
                                badadd = "add(%s) to %s leaves %s: the item is missing" % (x, list(combo), got)
        r_flag.hit("add", sample={"sets_evaluated": n_add})
        if badadd:
            ctx.report(r_flag, "add", "TextSelectionSet::" + badadd, addf.file, addf.line)
    except (Unknown, Panic) as ex:
        ctx.report(r_flag, "uninterpretable:add", "TextSelectionSet::add is outside the evaluator's vocabulary (%s): obligation not discharged" % ex, addf.file, addf.line)
    ctx.floor(r_flag, n_add, 100, "add() evaluations")

    # ---------------- pattern coverage of the four matches
    for fn in (model.f_test, model.f_test_set, model.f_set_test, model.f_set_test_set):
        for op in model.opvalues((None, 1)):
            r_exh.obligations += 1
            try:
                i, arm = model.first_arm(fn, op)
            except Unknown as u:
                r_exh.unknown += 1
                continue
            r_exh.hit("%s:%s" % (fn.qual, opkey(op, drop=())))
            if arm is None or is_unreachable_arm(arm):
                ctx.report(r_exh, "%s:%s" % (fn.qual, opkey(op)), "%s has no arm for %r: it falls into unreachable!() (panic) although the value can be built through the public constructors/toggles" % (fn.qual, op),
                           fn.file, arm["l"] if arm else fn.line, {"op": repr(op)})
            else:
                r_exh.discharged += 1

    # ---------------- negation = complement, in all four functions (singleton sets for the set-level ones)
    small = intervals(3 if ctx.tier == "quick" else 5)
    shapes = [
        ("pair", model.f_test, lambda s: model.interval(*s), lambda r: model.interval(*r)),
        ("sel-vs-set", model.f_test_set, lambda s: model.interval(*s), lambda r: [model.interval(*r)]),
        ("set-vs-sel", model.f_set_test, lambda s: [model.interval(*s)], lambda r: model.interval(*r)),
        ("set-vs-set", model.f_set_test_set, lambda s: [model.interval(*s)], lambda r: [model.interval(*r)]),
    ]
    for op in model.opvalues((None, 1)):
        if op.fields.get("negate"):
            continue
        nop = OpVal(op.variant, dict(op.fields, negate=True))
        for shape, fn, mk_s, mk_r in shapes:
            r_neg.obligations += 1
            r_set.obligations += 1
            ok_neg = True
            ok_set = True
            unknown = None
            for s in small:
                for r in small:
                    for ws in ((True, False) if op.fields.get("allow_whitespace") else (True,)):
                        try:
                            pos, _ = model.call(fn, mk_s(s), [op, mk_r(r), "RESOURCE"], ws)
                        except Panic as p:
                            report_panic(fn.qual, op, p, s, r)
                            ok_set = False
                            pos = "panic"
                        except Unknown as u:
                            unknown = str(u)
                            break
                        try:
                            neg, _ = model.call(fn, mk_s(s), [nop, mk_r(r), "RESOURCE"], ws)
                        except Panic as p:
                            report_panic(fn.qual, nop, p, s, r)
                            neg = "panic"
                            ok_neg = False
                        except Unknown as u:
                            unknown = str(u)
                            break
                        if pos != "panic" and neg != "panic" and neg != (not pos):
                            ok_neg = False
                            ctx.report(r_neg, "%s:%s" % (fn.qual, op.variant), "negated %s is not the complement in %s: self=%s ref=%s positive=%s negated=%s" % (op.variant, fn.qual, s, r, pos, neg), fn.file, fn.line)
                        if shape != "pair" and pos != "panic":
                            try:
                                want, _ = model.pair(op, s, r, ws)
                            except (Panic, Unknown):
                                want = None
                            if want is not None and pos != want:
                                ok_set = False
                                ctx.report(r_set, "%s:%s" % (fn.qual, opkey(op)), "%s on singleton sets gives %s but the pairwise test gives %s for %r self=%s ref=%s" % (fn.qual, pos, want, op, s, r), fn.file, fn.line,
                                           {"op": repr(op), "self": s, "ref": r})
                    if unknown:
                        break
                if unknown:
                    break
            r_neg.hit("%s:%s" % (fn.qual, opkey(op, drop=())))
            if shape != "pair":
                r_set.hit("%s:%s" % (fn.qual, opkey(op, drop=())))
            if unknown:
                r_neg.unknown += 1
                r_set.unknown += 1
                ctx.report(r_set, "uninterpretable:%s:%s" % (fn.qual, opkey(op)), "%s cannot be evaluated for %r (%s): obligation not discharged" % (fn.qual, op, unknown), fn.file, fn.line)
                continue
            if ok_neg:
                r_neg.discharged += 1
            if ok_set:
                r_set.discharged += 1


# ---------------------------------------------------------------------- QUANT
QUANT_ALL = {"Overlaps", "Embeds", "Embedded", "Before", "After"}          # all: every member of B; otherwise: some member of B
BOUNDARY_ALL = {"Precedes", "Succeeds", "SameBegin", "SameEnd"}            # all: against the extent (leftmost begin, rightmost end) of B


def quant_rule(ctx, model):
    """a selection tested against a set of two selections: the documented quantifier over the pairwise
    relation (some member / every member / the extent of the set), and negation as its complement"""
    from formula import OpVal, Unknown, Panic, is_some
    r = ctx.rule("C13.QUANT", "test_set of a selection against a two-member set is the documented quantifier (some / every member, or the set's extent) over the pairwise relation; negation is its complement")
    L = 3 if ctx.tier == "quick" else 4
    ivs = [(b, e) for b in range(L + 1) for e in range(b, L + 1)]
    fn = model.f_test_set
    ctx.functions_analysed.add(fn.qual)
    for op in model.opvalues((None, 1)):
        v = op.variant
        allv = bool(op.fields.get("all"))
        if not (v in QUANT_ALL or v in BOUNDARY_ALL):
            continue
        key = "%s{all:%s,negate:%s%s%s}" % (v, fmt(allv), fmt(op.fields.get("negate")), ",limit" if is_some(op.fields.get("limit")) else "", ",ws" if op.fields.get("allow_whitespace") else "")
        pos = OpVal(v, dict(op.fields, negate=False, all=False)) if "all" in op.fields else op
        r.obligations += 1
        bad = None
        unknown = None
        n = 0
        for s in ivs:
            for r1 in ivs:
                for r2 in ivs:
                    if r1 >= r2:
                        continue
                    for ws in ((True, False) if op.fields.get("allow_whitespace") else (True,)):
                        try:
                            got, _ = model.call(fn, model.interval(*s), [op, [model.interval(*r1), model.interval(*r2)], "RESOURCE"], ws)
                            if v in BOUNDARY_ALL and allv:
                                ext = (min(r1[0], r2[0]), max(r1[1], r2[1]))
                                q, _ = model.pair(pos, s, ext, ws)
                            else:
                                p1, _ = model.pair(pos, s, r1, ws)
                                p2, _ = model.pair(pos, s, r2, ws)
                                q = (p1 and p2) if allv else (p1 or p2)
                        except Panic:
                            continue   # reported by SUB / EXH
                        except Unknown as u:
                            unknown = str(u)
                            break
                        n += 1
                        want = (not q) if op.fields.get("negate") else q
                        if got != want and bad is None:
                            bad = (s, r1, r2, ws, got, want)
                    if unknown:
                        break
                if unknown:
                    break
            if unknown:
                break
        r.hit(key, sample={"operator": key, "evaluations": n})
        if unknown:
            r.unknown += 1
            ctx.report(r, "uninterpretable:" + key, "%s cannot be evaluated on two-member sets for %r (%s): obligation not discharged" % (fn.qual, op, unknown), fn.file, fn.line)
        elif bad:
            what = "every member" if (allv and v in QUANT_ALL) else ("the extent of the set" if allv else "some member")
            ctx.report(r, key, "%r on self=%s against the set {%s, %s}%s gives %s, but the pairwise relation quantified over %s gives %s" % (op, bad[0], bad[1], bad[2], "" if bad[3] else " (gap not whitespace)", bad[4], what, bad[5]), fn.file, fn.line,
                       {"op": repr(op), "self": bad[0], "set": [bad[1], bad[2]]})
        else:
            r.discharged += 1
    ctx.floor(r, r.obligations, 40, "operator values with a documented quantifier")


RIGHTMOST_ALL = {"Precedes", "Before", "SameEnd"}
LEFTMOST_ALL = {"Succeeds", "After", "SameBegin"}


def setsubj_rule(ctx, model):
    """a *set* as the subject of a test (TextSelectionSet::test against a selection, ::test_set against a set): the
    documented lifting of the member-level test - every member must pass; with `all` the boundary relations are decided
    by the set's rightmost / leftmost member; SameRange by both; Equals against a set also needs equal sizes - and a
    negated operator is the complement of the positive one.  The member-level tests are the extracted ones (decided by
    PAIR / QUANT), so only the lifting is judged here, on one- and two-member subject sets."""
    from formula import OpVal, Unknown, Panic, is_some
    r = ctx.rule("C13.SETSUBJ", "a test with a set as subject is the documented lifting of the member-level test (every member / the rightmost or leftmost member under `all` / both for SameRange), and its negation is the complement - on one- and two-member subject sets against a selection and against two-member sets")
    L = 2 if ctx.tier == "quick" else 3
    ivs = [(b, e) for b in range(L + 1) for e in range(b, L + 1)]
    subjects = [[a] for a in ivs] + [[a, b] for i, a in enumerate(ivs) for b in ivs[i + 1:]]
    refsets = [[a, b] for i, a in enumerate(ivs) for b in ivs[i + 1:]]
    shapes = [("set-vs-sel", model.f_set_test, model.f_test, [("sel", x) for x in ivs]),
              ("set-vs-set", model.f_set_test_set, model.f_test_set, [("set", x) for x in refsets])]
    for fn in (model.f_set_test, model.f_set_test_set):
        ctx.functions_analysed.add(fn.qual)
    n_total = 0
    for shape, fset, fmem, refs in shapes:
        # limit 0 as well as 1: on the two-member subjects over 0..2 only limit 0 separates "every member is within the limit"
        # from "the outermost members are" ({[0,2),[1,1)} in [0,2))
        for op in model.opvalues((None, 0, 1)):
            v = op.variant
            allv = bool(op.fields.get("all"))
            neg = bool(op.fields.get("negate"))
            key = "%s:%s{all:%s,negate:%s%s%s}" % (shape, v, fmt(allv), fmt(neg), ",limit" if is_some(op.fields.get("limit")) else "", ",ws" if op.fields.get("allow_whitespace") else "")
            pos = OpVal(v, dict(op.fields, negate=False)) if "negate" in op.fields else op
            r.obligations += 1
            bad = unknown = None
            n = 0
            for A in subjects:
                if unknown:
                    break
                As = [model.interval(*a) for a in A]
                for kind, R in refs:
                    ref = model.interval(*R) if kind == "sel" else [model.interval(*x) for x in R]
                    for ws in ((True, False) if op.fields.get("allow_whitespace") else (True,)):
                        try:
                            got, _ = model.call(fset, list(As), [op, ref, "RESOURCE"], ws)

                            def M(a):
                                return model.call(fmem, a, [pos, ref, "RESOURCE"], ws)[0]
                            if allv and v in RIGHTMOST_ALL:
                                want = M(max(As, key=lambda i: (i["end"], i["begin"])))
                            elif allv and v in LEFTMOST_ALL:
                                want = M(min(As, key=lambda i: (i["begin"], i["end"])))
                            elif v == "SameRange":
                                # documented: the leftmost item of A begins where (the leftmost of) B begins and the rightmost of A ends where (the rightmost of) B ends
                                rb = ref["begin"] if kind == "sel" else min(x["begin"] for x in ref)
                                re_ = ref["end"] if kind == "sel" else max(x["end"] for x in ref)
                                want = min(a["begin"] for a in As) == rb and max(a["end"] for a in As) == re_
                            else:
                                want = all(M(a) for a in As)
                                if v == "Equals" and kind == "set" and len(As) != len(ref):
                                    want = False
                        except Panic:
                            continue   # reported by SUB / EXH
                        except Unknown as u:
                            unknown = str(u)
                            break
                        n += 1
                        if neg:
                            want = not want
                        if got != want and bad is None:
                            bad = (A, R, ws, got, want)
                    if unknown:
                        break
            n_total += n
            r.hit(key, sample={"operator": key, "evaluations": n} if n_total % 9 == 0 else None)
            if unknown:
                r.unknown += 1
                ctx.report(r, "uninterpretable:" + key, "%s cannot be evaluated with a set as subject for %r (%s): obligation not discharged" % (fset.qual, op, unknown), fset.file, fset.line)
            elif bad:
                lifted = "its rightmost member" if (allv and v in RIGHTMOST_ALL) else "its leftmost member" if (allv and v in LEFTMOST_ALL) else "the extent of the set (documented meaning of SameRange)" if v == "SameRange" else "every member"
                ctx.report(r, key, "%r with the set %s as subject against %s%s gives %s; the member-level test lifted over %s%s gives %s" % (op, bad[0], bad[1], "" if bad[2] else " (gap not whitespace)", bad[3], lifted, ", negated" if neg else "", bad[4]), fset.file, fset.line,
                           {"op": repr(op), "subject": bad[0], "reference": bad[1]})
            else:
                r.discharged += 1
    ctx.floor(r, r.obligations, 100, "operator values x subject shapes")
    r.notes.append("evaluations: %d" % n_total)


# ---------------------------------------------------------------------- WRAP
def wrap_rule(ctx, rid="C13.WRAP"):
    """the relation algebra is decided for TextSelection / TextSelectionSet (TestTextSelection).  What the high-level API
    (ResultTextSelection::test / test_set, ResultTextSelectionSet::test / test_set) answers is that algebra only if it is
    obtained from it: on every path the result comes from the low-level test, except the constant false for operands of
    different resources."""
    import mirq
    r = ctx.rule(rid, "ResultTextSelection / ResultTextSelectionSet ::test and ::test_set answer through TestTextSelection::test / test_set on every path; the only other answer is the constant false")
    prog = mirq.Program(ctx.facts.mir())
    n = 0
    for bid, b in sorted(prog.bodies.items()):
        if not re.match(r"^api::textselection::<impl textselection::ResultTextSelection(Set)?<'store>>::test(_set)?$", bid):
            continue
        n += 1
        ctx.functions_analysed.add(bid)
        thr = set(bi for bi, t in b.calls() if (mirq.callee_of(t)[0] or "").startswith("textselection::TestTextSelection::test"))
        other = mirq.undelegated_results(b, thr)
        r.hit(bid, sample={"fn": mirq.short_fn(bid), "delegating_calls": len(thr), "other_answers": [o_[1] for o_ in other]})
        if not thr:
            ctx.report(r, "%s|no-delegation" % mirq.short_fn(bid), "%s no longer calls the low-level relation test" % bid, b.file, b.line)
        for bi, what, line in other[:1]:
            ctx.report(r, "%s|own-answer" % mirq.short_fn(bid), "%s can answer `%s` without asking the low-level relation test: that answer is not the interval relation (two unbound selections have no handle, so comparing handles makes any two of them `the same selection`)" % (bid, what), b.file, line)
    ctx.floor(r, n, 4, "high-level relation tests")


# ---------------------------------------------------------------------- HANDLEFREE
def handlefree_rule(ctx, model, rid="C13.HANDLEFREE"):
    """the relations are relations between ranges.  A known text selection carries a handle (intid), the same range
    obtained from an offset does not; PAIR evaluates the arms on handle-less values.  Here every operator is evaluated
    on the same pairs of ranges with handles attached to neither, either and both operands: the answer may not depend
    on them (a derived `==` on the values does)."""
    from formula import Unknown, Panic, some
    r = ctx.rule(rid, "TextSelection::test gives the same answer for two ranges whether or not the operands carry handles (Equals / InSet compare ranges, not values)")
    fn = model.f_test
    ctx.functions_analysed.add(fn.qual)
    ivs = [(0, 2), (1, 3), (0, 3), (2, 2)]
    n = 0
    for op in model.opvalues((None, 1)):
        key = "%s{negate:%s}" % (op.variant, fmt(bool(op.fields.get("negate"))))
        bad = None
        for a in ivs:
            for b in ivs:
                base = None
                for ha, hb in ((None, None), (some(("handle", 5)), None), (None, some(("handle", 6))), (some(("handle", 5)), some(("handle", 6))), (some(("handle", 5)), some(("handle", 5)))):
                    if ha is not None and hb is not None and ha == hb and a != b:
                        continue   # one handle names one range
                    A, B_ = model.interval(*a), model.interval(*b)
                    if "intid" in A:
                        A["intid"], B_["intid"] = ha, hb
                    try:
                        got = model.call(fn, A, [op, B_, "RESOURCE"], True)[0]
                    except (Unknown, Panic):
                        got = "?"
                    n += 1
                    if base is None:
                        base = got
                    elif got != base and bad is None:
                        bad = (a, b, ha is not None, hb is not None, base, got)
        r.hit(key)
        if bad:
            ctx.report(r, key, "%r between the ranges %s and %s answers %s when neither operand carries a handle and %s when %s: the relation depends on whether a selection is known to the store, not only on the ranges" % (op, bad[0], bad[1], bad[4], bad[5], "both do" if bad[2] and bad[3] else "the first does" if bad[2] else "the second does"), fn.file, fn.line)
    ctx.floor(r, n, 500, "evaluations with and without handles")



# ---------------------------------------------------------------------- SETLAW
def setlaw_rule(ctx, model, rid="C13.SETLAW"):
    """the laws the property states for *sets*: embeds / embedded, before / after, precedes / succeeds are converses,
    equals and overlaps are symmetric, equals implies embeds, embedded, same begin and same end - evaluated on the
    extracted set-against-set test for all pairs of sets with one or two members over 0..2.  (LAW decides them for
    pairs of ranges, SINGLETON ties one-member sets to their members; this is the remainder.)  These evaluations are
    findings-or-not, they are not counted among the obligations of the proof-level claim, which is about pairs of
    ranges, singleton sets and the documented lifting: four of the laws fail on the pinned tree (known findings)."""
    from formula import OpVal, Unknown, Panic
    r = ctx.rule(rid, "converse, symmetry and implication laws hold for the set-against-set test on all pairs of sets with one or two members")
    fn = model.f_set_test_set
    ctx.functions_analysed.add(fn.qual)
    ivs = [(b, e) for b in range(3) for e in range(b, 3)]
    sets = [[a] for a in ivs] + [[a, b] for i, a in enumerate(ivs) for b in ivs[i + 1:]]

    def base(variant, **kw):
        flds = {}
        for f, t in model.variants[variant].items():
            flds[f] = False if t == "bool" else None
        flds.update(kw)
        return OpVal(variant, flds)

    def T(op, A, B):
        return model.call(fn, [model.interval(*a) for a in A], [op, [model.interval(*b) for b in B], "RESOURCE"], True)[0]
    n = 0

    def law(key, name, pred):
        nonlocal n
        try:
            for A in sets:
                for B in sets:
                    n += 1
                    cx = pred(A, B)
                    if cx:
                        r.hit(key, sample={"law": name, "first_counterexample": {"A": A, "B": B, "detail": cx}})
                        ctx.report(r, key, "%s fails for the sets A=%s B=%s (%s): the set-level test asks that every member of the subject has a partner in the other set, which is not a relation with a converse" % (name, A, B, cx), fn.file, fn.line, {"A": A, "B": B})
                        return
        except Panic:
            return   # reported by SUB / EXH
        except Unknown as u:
            r.unknown += 1
            ctx.report(r, "uninterpretable:" + key, "law %s cannot be evaluated on sets (%s)" % (name, u), fn.file, fn.line)
            return
        r.hit(key, sample={"law": name})
    for allv in (False, True):
        for a, b in CONVERSE:
            if a not in model.variants or b not in model.variants or ("all" not in model.variants[a] and allv):
                continue
            kw = {"all": allv} if "all" in model.variants[a] else {}
            oa, ob = base(a, **kw), base(b, **kw)
            law("converse:%s/%s:all=%s" % (a, b, fmt(allv)), "%s(A,B) == %s(B,A)%s" % (a, b, " with `all`" if allv else ""),
                lambda A, B, oa=oa, ob=ob: None if T(oa, A, B) == T(ob, B, A) else "%s against %s" % (T(oa, A, B), T(ob, B, A)))
        for a in SYMMETRIC:
            if "all" not in model.variants[a] and allv:
                continue
            kw = {"all": allv} if "all" in model.variants[a] else {}
            oa = base(a, **kw)
            law("symmetric:%s:all=%s" % (a, fmt(allv)), "%s(A,B) == %s(B,A)%s" % (a, a, " with `all`" if allv else ""),
                lambda A, B, oa=oa: None if T(oa, A, B) == T(oa, B, A) else "%s against %s" % (T(oa, A, B), T(oa, B, A)))
    for a, b in IMPLIES:
        oa, ob = base(a), base(b)
        law("implies:%s=>%s" % (a, b), "%s(A,B) implies %s(A,B)" % (a, b),
            lambda A, B, oa=oa, ob=ob: None if (T(oa, A, B) is not True) or T(ob, A, B) is True else "%s holds, %s does not" % (a, b))
    # a negated relation is the exact complement - also for the empty set as subject
    failing = []
    try:
        for op in model.opvalues((None,)):
            if op.fields.get("negate") or "negate" not in op.fields:
                continue
            nop = OpVal(op.variant, dict(op.fields, negate=True))
            for B in sets[:8]:
                n += 1
                sel = model.interval(*B[0])
                if T(op, [], B) == T(nop, [], B) or model.call(model.f_set_test, [], [op, sel, "RESOURCE"], True)[0] == model.call(model.f_set_test, [], [nop, sel, "RESOURCE"], True)[0]:
                    failing.append("%s{all:%s}" % (op.variant, fmt(bool(op.fields.get("all")))))
                    break
        r.hit("negation:empty-subject", sample={"operators_that_answer_the_same_with_and_without_negate": failing})
        if failing:
            ctx.report(r, "negation:empty-subject", "with the empty set as subject the set-level tests (against a selection, against a set) answer false for the relation and for its negation (%s): the early return for an empty subject comes before the negation is applied, so a negated relation is not the complement there" % ", ".join(failing[:6]), fn.file, fn.line)
    except (Unknown, Panic) as u:
        r.unknown += 1
        ctx.report(r, "uninterpretable:negation:empty-subject", "the test cannot be evaluated on an empty subject set (%s)" % u, fn.file, fn.line)
    ctx.floor(r, n, 2000, "set pair evaluations")
