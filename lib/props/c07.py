"""C07 text search and partition agree with plain string operations: structural clauses.

UNIT   unit / coordinate-space discipline in the search, split, trim and regex code (A6)
CONF   searches on a sub-selection run on the selection's own text, not on the resource
COPY   byte positions found in a transformed copy (lower-cased ...) are not used on the original
FOLD   Match::begin / Match::end are the min start / max end over the capture groups
       (finite evaluation, up to 3 groups) and mirror each other
SEG    SegmentationIter::next yields cursor..X and then sets cursor = X; ends only at cursor >= end
(trim_text is covered by UNIT: the cursors it builds must be codepoint counts)"""
import re
import mirq
import units
from synq import Syn, walk, find, unparse, strip, pat_names
from formula import Evaluator, StructVal, Unknown, Panic, some
from props.c12 import unit_rule

FILES = ("src/api/text.rs", "src/api/resources.rs", "src/text.rs", "src/resources.rs")
TRANSFORMS = re.compile(r"::(to_lowercase|to_uppercase|replace|replacen|to_ascii_lowercase|to_ascii_uppercase|nfc|nfd|nfkc|nfkd)$")


def run(ctx):
    prog = mirq.Program(ctx.facts.mir())
    syn = Syn(ctx.facts.syn())
    ctx.not_decided += ["regular-expression semantics and Unicode case-folding tables", "that segmentation cuts at *exactly* the known begin/end positions for every index content (the filter on milestone entries is C12.MILE)",
                        "order and completeness of matches (the loops of str::find are trusted)"]

    r_unit = ctx.rule("C07.UNIT", "no codepoint/byte mix-up and no doubly applied offset in the search / split / trim / regex code")
    unit_rule(ctx, r_unit, prog, FILES, 150)

    # ---------------- CONF
    r_conf = ctx.rule("C07.CONF", "FindText on a text selection searches self.text(), never the text of the whole resource")
    nconf = 0
    for im in syn.impls:
        tr = im.get("trait") or ""
        st = im["self_ty"]["s"].replace(" ", "")
        if not tr.replace(" ", "").startswith("FindText<") or "TextResource" in st:
            continue
        for m in im["items"]:
            if m.get("k") != "fn" or not m.get("body"):
                continue
            q = "%s::%s" % (re.sub(r"'[a-z_]+,?", "", st), m["name"])
            for n in walk(m["body"]):
                if n.get("k") == "mcall" and n["method"] == "text" and not n["args"]:
                    recv = unparse(n["recv"])
                    nconf += 1
                    r_conf.hit("%s|%s.text()" % (q, recv))
                    if re.search(r"\b(store|resource|rootstore)\(\)", recv):
                        ctx.report(r_conf, "%s|%s.text()" % (q, recv), "%s uses `%s.text()` (the text of the whole resource) as the haystack of an operation on a sub-selection: results lie outside the searched range" % (q, recv), im["_file"], n["l"])
    ctx.floor(r_conf, nconf, 4, "text() uses in FindText impls on selections")

    # ---------------- COPY
    r_copy = ctx.rule("C07.COPY", "a byte position found in a transformed copy of the text does not flow into position arithmetic on the original")
    ncopy = 0
    for bid, b in sorted(prog.bodies.items()):
        if b.d.get("derived") or b.file not in FILES:
            continue
        finds = []
        for bi, t in b.calls():
            decl, res, info = mirq.callee_of(t)
            if decl and re.search(r"<impl str>::(find|rfind|match_indices|rmatch_indices|char_indices)$", decl) and t.get("args"):
                prov = b.provenance(t["args"][0])
                tr = sorted(x for x in prov if TRANSFORMS.search(x))
                ncopy += 1
                if tr:
                    finds.append((t["dest"]["l"], tr, t.get("line")))
        if not finds:
            continue
        for bi, t in b.calls():
            decl, res, info = mirq.callee_of(t)
            if decl and re.search(r"::(utf8byte_to_charpos)$", decl) and len(t.get("args", [])) > 1:
                prov_locals = set()
                # does the argument derive from the find result?
                seen, work = set(), [mirq.op_place(t["args"][1])["l"]] if mirq.op_place(t["args"][1]) else []
                while work:
                    l = work.pop()
                    if l in seen:
                        continue
                    seen.add(l)
                    for (dbi, dsi, kind, payload) in b.defs().get(l, []):
                        if kind == "assign":
                            for o in mirq._operands_of_rvalue(payload):
                                q = mirq.op_place(o)
                                if q:
                                    work.append(q["l"])
                            if payload.get("p"):
                                work.append(payload["p"]["l"])
                        elif kind == "call":
                            for a in payload.get("args", []):
                                q = mirq.op_place(a)
                                if q:
                                    work.append(q["l"])
                for fl, tr, line in finds:
                    if fl in seen:
                        r_copy.hit("%s|%s" % (bid, mirq.short_fn(tr[0])))
                        ctx.report(r_copy, "%s|%s" % (bid, mirq.short_fn(tr[0])), "%s searches a copy of the text produced by %s and converts the byte position found there with utf8byte_to_charpos on the original: wrong (or a panic) whenever the transformation changes byte lengths" % (bid, mirq.short_fn(tr[0])), b.file, line)
    r_copy.instances += ncopy
    ctx.floor(r_copy, ncopy, 2, "substring searches examined")

    # ---------------- FOLD
    r_fold = ctx.rule("C07.FOLD", "Match::begin is the smallest start and Match::end the largest end over the present capture groups (all group lists up to 3 entries over positions 0..3)")
    import itertools
    for name, getter, agg in (("begin", "start", min), ("end", "end", max)):
        fn = syn.fn(name, self_ty="Match")
        ctx.functions_analysed.add(fn.qual)
        arm = None
        for m_ in find(fn.body, "match"):
            for a in m_["arms"]:
                if "WithCapture" in a["pat"]["s"]:
                    arm = a
        r_fold.obligations += 1
        if arm is None:
            ctx.anchor_missing(r_fold, "WithCapture arm of Match::%s" % name)
            continue
        var = [p["name"] for p in walk(arm["pat"]) if p.get("k") == "pat" and p.get("p") == "ident"][0]
        spans = [(s, e) for s in range(0, 4) for e in range(s, 4)]
        bad = None
        unknown = None
        n = 0
        for k in (1, 2, 3):
            for combo in itertools.product([None] + spans, repeat=k):
                present = [c for c in combo if c is not None]
                if not present:
                    continue
                groups = [None if c is None else some(StructVal("Group", {"start": c[0], "end": c[1]})) for c in combo]
                ev = Evaluator(hooks={"iter": lambda ev_, recv, args, node, env: recv if isinstance(recv, list) else NotImplemented,
                                      "expect": lambda ev_, recv, args, node, env: (recv[1] if isinstance(recv, tuple) and recv and recv[0] == "some" else (_ for _ in ()).throw(Panic("expect-on-none", node.get("l")))) if (recv is None or (isinstance(recv, tuple) and recv and recv[0] == "some")) else NotImplemented})
                try:
                    got = ev.eval(arm["body"], {var: groups})
                except Panic as p:
                    bad = bad or ("panics (%s) for groups %s" % (p.kind, combo))
                    continue
                except Unknown as u:
                    unknown = str(u)
                    break
                n += 1
                want = agg(c[0] if getter == "start" else c[1] for c in present)
                if got != want and bad is None:
                    bad = "returns %s for capture groups %s (expected the %s %s = %s)" % (got, list(combo), "smallest" if agg is min else "largest", getter, want)
            if unknown:
                break
        r_fold.hit("Match::" + name, sample={"function": fn.qual, "group_lists_evaluated": n})
        if unknown:
            r_fold.unknown += 1
            ctx.report(r_fold, "uninterpretable:Match::" + name, "Match::%s is outside the evaluator's vocabulary (%s): obligation not discharged" % (name, unknown), fn.file, fn.line)
        elif bad:
            ctx.report(r_fold, "Match::" + name, "Match::%s %s" % (name, bad), fn.file, arm["l"])
        else:
            r_fold.discharged += 1

    # ---------------- SEG
    window_rule(ctx, syn)
    idxspace_rule(ctx, syn)
    trim_rule(ctx, syn)
    case_rule(ctx, syn)
    regexbase_rule(ctx)
    regexflags_rule(ctx, prog)
    overlap_rule(ctx, prog)
    r_seg = ctx.rule("C07.SEG", "SegmentationIter::next returns cursor..X and advances cursor to the same X; it stops only when cursor >= end")
    sg = syn.fn("next", self_ty="SegmentationIter", trait="Iterator")
    ctx.functions_analysed.add(sg.qual)
    nret = 0

    def blocks(node):
        if node.get("k") == "block":
            yield node
        for key, v in node.items():
            if isinstance(v, dict):
                for x in blocks(v):
                    yield x
            elif isinstance(v, list):
                for e in v:
                    if isinstance(e, dict):
                        for x in blocks(e):
                            yield x
    for blk in blocks(sg.body):
        stmts = blk["stmts"]
        for i, s in enumerate(stmts):
            e = s.get("e") if s["k"] == "exprstmt" else None
            if not (e and e.get("k") == "return" and e.get("e") and unparse(e["e"]).startswith("Some(")):
                continue
            nret += 1
            # look back in this block for the Offset::simple and the cursor assignment
            simple = None
            assign = None
            for p in stmts[:i]:
                for n in walk(p):
                    if n.get("k") == "call" and unparse(n["func"]).endswith("Offset::simple") and len(n["args"]) == 2:
                        simple = (unparse(strip(n["args"][0]), strip_ref=True), unparse(strip(n["args"][1]), strip_ref=True))
                    if n.get("k") == "assign" and unparse(n["left"]) == "self.cursor":
                        assign = unparse(strip(n["right"]), strip_ref=True)
            r_seg.hit("return#%d" % nret, sample={"segment": simple, "cursor_becomes": assign})
            if simple is None or assign is None:
                ctx.report(r_seg, "return#%d:shape" % nret, "a segment is returned without `Offset::simple(self.cursor, X)` and `self.cursor = X` in the same block (segment=%s, cursor:=%s)" % (simple, assign), sg.file, e["l"])
            else:
                if simple[0] != "self.cursor":
                    ctx.report(r_seg, "return#%d:begin" % nret, "a segment starts at `%s`, not at the cursor: pieces overlap or leave gaps" % simple[0], sg.file, e["l"])
                if simple[1] != assign:
                    ctx.report(r_seg, "return#%d:advance" % nret, "a segment ends at `%s` but the cursor is advanced to `%s`: pieces overlap or leave gaps" % (simple[1], assign), sg.file, e["l"])
    ctx.floor(r_seg, nret, 3, "segment returns")
    none_rets = [n for n in walk(sg.body) if n.get("k") == "return" and n.get("e") and unparse(n["e"]) == "None"]
    r_seg.hit("termination")
    guards = []
    for n in find(sg.body, "if"):
        if any(unparse(x.get("e", {})) == "None" for x in walk(n["then"]) if x.get("k") == "return"):
            guards.append(unparse(n["cond"], strip_ref=True))
    if guards != ["(self.cursor>=self.end)"]:
        ctx.report(r_seg, "termination", "SegmentationIter::next returns None under %s; it must stop exactly when cursor >= end (covering the whole range)" % guards, sg.file, sg.line)


# ---------------------------------------------------------------------- WINDOW / IDXSPACE
def window_rule(ctx, syn, rid="C07.WINDOW"):
    """the text-search iterators keep their window's end: after a hit only the begin of `self.offset` moves.
    A new offset whose end is anything but the previous `self.offset.end` lets the search run past the end of
    the selection it was asked to search."""
    from synq import find, unparse, strip, walk
    r = ctx.rule(rid, "every re-assignment of a search iterator's offset keeps the previous end (`self.offset.end`): the search never leaves the selection it was given")
    n = 0
    for f in syn.fns:
        if f.file != "src/api/text.rs" or f.body is None or f.name != "next":
            continue
        # a reset to the whole text is legitimate only together with the move to the next resource
        resets_ok = set()
        for blk in walk(f.body):
            if blk.get("k") == "block":
                srcs = [unparse(st_.get("e")) if st_.get("k") == "exprstmt" else "" for st_ in blk["stmts"]]
                if any(re.fullmatch(r"\(?self\.resourcecursor\+=1\)?", x_) for x_ in srcs):
                    for st_ in blk["stmts"]:
                        if st_.get("k") == "exprstmt" and st_["e"].get("k") == "assign" and unparse(st_["e"]["left"]) == "self.offset" and unparse(strip(st_["e"]["right"])) == "Offset::whole()":
                            resets_ok.add(id(st_["e"]))
        # ... and the converse: moving on to the next resource starts that resource from the beginning again
        for blk in walk(f.body):
            if blk.get("k") == "block":
                srcs = [unparse(st_.get("e")) if st_.get("k") == "exprstmt" else "" for st_ in blk["stmts"]]
                if any(re.fullmatch(r"\(?self\.resourcecursor\+=1\)?", x_) for x_ in srcs):
                    n += 1
                    r.hit("%s|next-resource#%d" % (f.qual, n))
                    if not any(re.fullmatch(r"self\.offset=Offset::whole\(\)", x_) for x_ in srcs):
                        ctx.report(r, "%s|next-resource-without-reset" % f.qual, "%s moves on to the next resource without resetting its search window to the whole text: the next resource is searched only from where the last hit in the previous one ended (hits before that position are lost, a shorter resource is skipped entirely)" % f.qual, f.file, blk["stmts"][0].get("l"))
        for a in find(f.body, "assign"):
            if unparse(a["left"]) != "self.offset":
                continue
            if id(a) in resets_ok:
                r.hit("%s|reset-with-next-resource" % f.qual)
                continue
            n += 1
            rhs = strip(a["right"])
            end = None
            if rhs.get("k") == "structlit":
                for fl in rhs["fields"]:
                    if fl["name"] == "end":
                        end = unparse(strip(fl["e"]))
                if end is None and rhs.get("rest") is not None:
                    end = unparse(strip(rhs["rest"])) + ".end"
            elif rhs.get("k") == "call" and unparse(rhs["func"]) in ("Offset::new",) and len(rhs["args"]) == 2:
                end = unparse(strip(rhs["args"][1]))
            key = "%s|offset#%d" % (f.qual, n)
            r.hit(key, sample={"iterator": f.qual, "new_end": end})
            ctx.functions_analysed.add(f.qual)
            # ... and the begin moves strictly forward after a hit: `newend` alone does not when the fragment is empty
            # (str::find("") answers 0, so the same empty match is yielded for ever)
            begin = None
            if rhs.get("k") == "structlit":
                for fl in rhs["fields"]:
                    if fl["name"] == "begin":
                        begin = strip(fl["e"])
            if begin is not None and "fragment" in unparse(f.body):
                inner = begin
                while inner.get("k") == "call" and len(inner["args"]) == 1:
                    inner = strip(inner["args"][0])
                src_b = unparse(inner)
                if not re.search(r"is_empty\(\)|\+1\b|max\(", src_b) and "fragment.is_empty()" not in unparse(f.body).replace("self.", ""):
                    ctx.report(r, "%s|begin" % f.qual, "%s continues its search from `%s` after a hit, which is where the hit began when the fragment is empty: find_text(\"\") yields the same empty match for ever instead of one match per position (the iterator never ends)" % (f.qual, src_b), f.file, a.get("l"))
            if end not in ("self.offset.end", "self.offset.end.clone()"):
                ctx.report(r, "%s|end" % f.qual, "%s re-assigns its search window with end `%s` instead of keeping `self.offset.end`: after the first hit the search continues to the end of the resource, beyond the selection it was asked to search" % (f.qual, end), f.file, a.get("l"))
    ctx.floor(r, n, 2, "offset re-assignments in the search iterators")


def idxspace_rule(ctx, syn):
    """a list of selected indices (a Vec<usize> field) is walked by value; a counter over its *length* is a
    position in the selection, not a selected index, and must not index the collection the list selects from"""
    from synq import find, unparse, strip, walk, pat_names
    r = ctx.rule("C07.IDXSPACE", "a counter over the length of an index list indexes only that list, never the collection its entries point into")
    idxlists = {}
    for sname, sd in syn.structs.items():
        if sd.get("_file") != "src/api/text.rs":
            continue
        for fl in sd.get("fields") or []:
            if re.sub(r"\s+", "", fl["ty"]["s"]) in ("Vec<usize>", "SmallVec<[usize;4]>", "&[usize]"):
                idxlists.setdefault(sname, set()).add(fl["name"])
    n = 0
    for f in syn.fns:
        if f.file != "src/api/text.rs" or f.body is None:
            continue
        owner = (f.self_ty or "").split("<")[0]
        lists = idxlists.get(owner, set())
        if not lists:
            continue
        lens = {}
        for nd in walk(f.body):
            if nd.get("k") == "let" and nd.get("init") is not None:
                m = re.fullmatch(r"self\.(\w+)\.len\(\)", unparse(strip(nd["init"])))
                if m and m.group(1) in lists:
                    for nm in pat_names(nd["pat"]):
                        lens[nm] = m.group(1)
        for lp in find(f.body, "for"):
            it = strip(lp["iter"])
            if it.get("k") != "range" or it.get("end") is None:
                continue
            endsrc = unparse(strip(it["end"]))
            lst = None
            m = re.fullmatch(r"self\.(\w+)\.len\(\)", endsrc)
            if m and m.group(1) in lists:
                lst = m.group(1)
            elif endsrc in lens:
                lst = lens[endsrc]
            if lst is None:
                continue
            ctrs = pat_names(lp["pat"])
            n += 1
            r.hit("%s|%s" % (f.qual, lst))
            for ix in find(lp["body"], "index"):
                base = unparse(strip(ix["base"]))
                idx = unparse(strip(ix["index"]))
                if idx in ctrs and base != "self." + lst:
                    ctx.report(r, "%s|%s[%s]" % (f.qual, base, lst), "%s indexes `%s` with a counter that runs over the length of the index list `self.%s`: the counter is a position in the selection, the selected indices are the list's *values* - items the selection skipped are used instead of the selected ones" % (f.qual, base, lst), f.file, ix.get("l"))
    r.notes.append("index lists: %s; counter loops over them: %d" % (dict((k, sorted(v)) for k, v in idxlists.items()), n))
    ctx.floor(r, sum(len(v) for v in idxlists.values()), 1, "index-list fields in api/text.rs")


def trim_rule(ctx, syn):
    """trim_text / trim_text_with evaluated from their syntax trees on every text of up to four characters over a
    trimmable and a non-trimmable character: the offset they compute denotes exactly what str::trim_matches yields"""
    import itertools
    from formula import Evaluator, Unknown, Panic, StructVal, EnumVal
    from props.c10 import closure_call
    r = ctx.rule("C07.TRIM", "trim_text / trim_text_with compute an offset that is well-formed (begin <= end) and selects exactly the text that str::trim_matches returns, for every text of up to four characters (including texts that consist of trimmable characters only)")
    n = 0
    for name in ("trim_text", "trim_text_with"):
        fs = [f for f in syn.fns if f.name == name and f.in_trait == "FindText" and f.body is not None]
        if len(fs) != 1:
            ctx.anchor_missing(r, "FindText::" + name)
            continue
        fn = fs[0]
        ctx.functions_analysed.add(fn.qual)
        # type inference the evaluator does not do: a counter that ends up in Cursor::EndAligned(..) is an isize
        import copy
        body = copy.deepcopy(fn.body)
        signed = set()
        for c_ in walk(body):
            if c_.get("k") == "call" and unparse(c_["func"]).endswith("Cursor::EndAligned") and c_["args"] and strip(c_["args"][0]).get("k") == "path":
                signed.add(strip(c_["args"][0])["path"][0])
        for l_ in walk(body):
            if l_.get("k") == "let" and l_.get("init") is not None and strip(l_["init"]).get("k") == "lit" and set(pat_names(l_["pat"])) & signed:
                l_["init"] = {"k": "cast", "e": l_["init"], "ty": {"s": "isize"}, "l": l_.get("l")}
        hooks = {}
        hooks["text"] = lambda ev, recv, args, node, env: recv["text"] if isinstance(recv, StructVal) else NotImplemented
        hooks["textlen"] = lambda ev, recv, args, node, env: len(recv["text"]) if isinstance(recv, StructVal) else NotImplemented
        hooks["chars"] = lambda ev, recv, args, node, env: list(recv) if isinstance(recv, str) else NotImplemented
        hooks["rev"] = lambda ev, recv, args, node, env: list(reversed(recv)) if isinstance(recv, list) else NotImplemented
        hooks["contains"] = lambda ev, recv, args, node, env: (args[0] in recv) if isinstance(recv, list) else NotImplemented
        hooks["call:Offset::new"] = lambda ev, recv, args, node, env: ("offset", args[0], args[1])
        hooks["textselection"] = lambda ev, recv, args, node, env: args[0]
        bad = None
        try:
            for k in range(0, 5):
                for t in itertools.product(" a", repeat=k):
                    text = "".join(t)
                    me = StructVal("Text", {"text": text})
                    if name == "trim_text":
                        env = {"self": me, "chars": [" "]}
                    else:
                        env = {"self": me, "f": ("pyfn",)}
                        hooks["call:f"] = lambda ev, recv, args, node, env: args[0] == " "
                    res = Evaluator(hooks=hooks).run_body(body, env)
                    n += 1
                    if not (isinstance(res, tuple) and res and res[0] == "offset"):
                        raise Unknown("result %r" % (res,))
                    b_, e_ = res[1], res[2]
                    bpos = int(b_.args[0]) if b_.name == "BeginAligned" else len(text) + int(b_.args[0])
                    epos = int(e_.args[0]) if e_.name == "BeginAligned" else len(text) + int(e_.args[0])
                    want = text.strip(" ")
                    if not (0 <= bpos <= epos <= len(text)) and bad is None:
                        bad = "%s on %r computes the offset %s:%s, i.e. %d..%d: not a range of the text (the call fails with InvalidOffset instead of returning the empty text)" % (name, text, b_, e_, bpos, epos)
                    elif text[bpos:epos] != want and bad is None:
                        bad = "%s on %r selects %r, str::trim_matches gives %r" % (name, text, text[bpos:epos], want)
            r.hit(name, sample={"function": fn.qual, "texts_evaluated": n})
            if bad:
                ctx.report(r, name, bad, fn.file, fn.line)
        except (Unknown, Panic) as e:
            ctx.report(r, "unevaluated:" + name, "%s could not be evaluated (%s): that trimming agrees with str::trim_matches is not established" % (fn.qual, e), fn.file, fn.line)
    ctx.floor(r, n, 60, "texts evaluated")


def case_rule(ctx, syn):
    """case-insensitive search compares a case-mapped copy of the text with the needle: both must go through the same
    mapping (str::to_lowercase is full Unicode, to_ascii_lowercase leaves É, Ö, Θ alone)"""
    r = ctx.rule("C07.CASE", "every constructor of FindNoCaseTextIter normalises the needle with the same case mapping that the iterator applies to the text it searches")
    nx = [f for f in syn.fns if f.name == "next" and "FindNoCaseTextIter" in (f.self_ty or "") and f.body is not None]
    if len(nx) != 1:
        ctx.anchor_missing(r, "FindNoCaseTextIter::next")
        return
    MAPS = ("to_lowercase", "to_ascii_lowercase", "to_uppercase", "to_ascii_uppercase")
    text_maps = set(m["method"] for m in walk(nx[0].body) if m.get("k") == "mcall" and m["method"] in MAPS)
    r.hit("iterator", sample={"text_mapping": sorted(text_maps)})
    if len(text_maps) != 1:
        ctx.report(r, "iterator-mapping", "FindNoCaseTextIter::next applies %s to the text: the reference mapping is not unique" % sorted(text_maps), nx[0].file, nx[0].line)
        return
    tm = sorted(text_maps)[0]
    n = 0
    for fn in syn.fns:
        if not fn.body:
            continue
        for lit in walk(fn.body):
            if lit.get("k") == "structlit" and lit["path"][-1] == "FindNoCaseTextIter":
                for fl in lit["fields"]:
                    if fl["name"] == "fragment":
                        n += 1
                        ms = [m["method"] for m in walk(fl["e"]) if m.get("k") == "mcall" and m["method"] in MAPS]
                        r.hit("%s#%d" % (fn.qual, n), sample={"constructor": fn.qual, "needle_mapping": ms})
                        if ms != [tm]:
                            ctx.report(r, "%s|needle" % fn.qual, "%s normalises the needle with %s while the iterator maps the text with %s: a needle with a non-ASCII upper-case letter (É, Ö, Θ) never matches although the plain lower-cased search finds it" % (fn.qual, ms or "nothing", tm), fn.file, fl["e"].get("l"))
    ctx.floor(r, n, 4, "constructors of FindNoCaseTextIter")


# ---------------------------------------------------------------------- REGEXBASE
def regexbase_rule(ctx, rid="C07.REGEXBASE"):
    """FindRegexIter adds `beginbytepos` to every match position before converting it to codepoints with the resource's
    conversion: it has to be the byte offset of the searched text *in the resource*.  0 is right only when the whole
    resource is searched (begincharpos 0); otherwise it must come from subslice_utf8_offset asked of the TextResource -
    the same call on the selection itself answers relative to the selection, i.e. always 0."""
    import mirq
    r = ctx.rule(rid, "every FindRegexIter is built with a beginbytepos that is 0 together with begincharpos 0 (whole resource) or the result of subslice_utf8_offset on the TextResource (never on the selection itself)")
    prog = mirq.Program(ctx.facts.mir())
    n = 0
    for bid, b in sorted(prog.bodies.items()):
        for bi, blk in enumerate(b.blocks):
            for s_ in blk["s"]:
                rv = s_.get("rv") or {}
                if rv.get("r") != "agg" or not (rv.get("adt") or "").endswith("FindRegexIter") or "beginbytepos" not in (rv.get("fields") or []):
                    continue
                n += 1
                fl = rv["fields"]
                byte_op = rv["ops"][fl.index("beginbytepos")]
                char_op = rv["ops"][fl.index("begincharpos")] if "begincharpos" in fl else None
                kb = str(b.key_of_operand(byte_op))
                kc = str(b.key_of_operand(char_op)) if char_op is not None else "?"
                key = mirq.short_fn(bid) + "|" + re.sub(r"^.* for ", "", re.sub(r">::find_text_regex$", "", bid))[-40:]
                r.hit(key, sample={"built_in": bid[-90:], "begincharpos": kc[:40], "beginbytepos": kb[:60]})
                if kb == "const:0":
                    if kc != "const:0":
                        ctx.report(r, key + "|zero-base", "%s builds a FindRegexIter with beginbytepos 0 but begincharpos `%s`: match positions are converted as if the searched text began at byte 0 of the resource" % (bid, kc[:40]), b.file, s_.get("line"))
                    continue
                prov = b.provenance(byte_op)
                asks = [(mirq.callee_of(t)[1] or "", (t.get("at") or [""])[0]) for _, t in b.calls() if (mirq.callee_of(t)[0] or "").endswith("subslice_utf8_offset")]
                if not any(p_.endswith("subslice_utf8_offset") for p_ in prov) or not asks:
                    ctx.report(r, key + "|base-not-from-subslice", "%s builds a FindRegexIter whose beginbytepos (`%s`) is not the result of subslice_utf8_offset" % (bid, kb[:50]), b.file, s_.get("line"))
                elif not all("resources::TextResource" in a_[1] or "resources::TextResource" in a_[0] for a_ in asks):
                    ctx.report(r, key + "|relative-base", "%s takes the beginbytepos of its FindRegexIter from subslice_utf8_offset on %s instead of on the TextResource: that offset is relative to the selection itself (always 0), so every match of a selection that does not begin at byte 0 is reported at the wrong place" % (bid, [a_[1] for a_ in asks if "resources::TextResource" not in a_[1]][0][:50]), b.file, s_.get("line"))
    ctx.floor(r, n, 3, "FindRegexIter constructions")



# ---------------------------------------------------------------------- REGEXFLAGS
def regexflags_rule(ctx, prog, rid="C07.REGEXFLAGS"):
    """a compiled Regex carries the flags it was built with (case-insensitive, multi-line ..); its pattern text
    (`as_str()`) does not.  A RegexSet rebuilt from the pattern texts of compiled expressions therefore matches
    something else than the expressions do, and a preselection through it drops expressions that would have matched.
    Type-directed: no body builds a RegexSet (RegexSet::new) from Regex::as_str, directly or through a closure it
    creates."""
    r = ctx.rule(rid, "no RegexSet is rebuilt from the pattern text of compiled expressions (Regex::as_str loses the flags of the expression)")
    n = 0
    for bid, b in sorted(prog.bodies.items()):
        if b.d.get("derived") or "::{closure" in bid:
            continue
        calls = [(bi, t, mirq.callee_of(t)[0] or "") for bi, t in b.calls() if not b.blocks[bi].get("cleanup")]
        if not any(re.search(r"^regex::", d) for _, _, d in calls) and not any("regex::" in str(l_.get("ty")) for l_ in b.d.get("locals", [])[: b.argc + 1]):
            continue
        n += 1
        ctx.functions_analysed.add(bid)
        news = [(bi, t) for bi, t, d in calls if re.search(r"RegexSet::new$", d)]
        if not news:
            r.hit(bid)
            continue
        own = [prog.bodies[k] for k in prog.bodies if k.startswith(bid + "::{closure")] + [b]
        texts = [x.id for x in own if any((mirq.callee_of(t)[0] or "").endswith("Regex::as_str") for _, t in x.calls())]
        r.hit(bid, sample={"body": bid, "RegexSet::new": len(news), "pattern_text_taken_in": texts})
        if texts:
            ctx.report(r, "%s|set-from-pattern-text" % mirq.short_fn(bid), "%s builds a RegexSet from Regex::as_str() of compiled expressions: the set matches the bare patterns, without the flags the expressions were built with - an expression built case-insensitively is dropped by the preselection although it matches (the result of a search changes when a third expression is added)" % bid, b.file, news[0][1].get("line"))
    ctx.floor(r, n, 6, "bodies that handle regular expressions")



# ---------------------------------------------------------------------- OVERLAP
def overlap_rule(ctx, prog, rid="C07.OVERLAP"):
    """FindRegexIter keeps one buffered match per expression.  With allow_overlap=false, after a match is chosen every
    buffered match of the other expressions that begins inside it has to go - as many as there are, so the refill of a
    buffer sits in a loop of its own inside the walk over the buffers (MIR: the Matches::next call inside that walk can
    reach itself without returning to the head of the walk)."""
    r = ctx.rule(rid, "in FindRegexIter::next the buffered matches that begin inside the chosen match are skipped in a loop (the refill can repeat without leaving the current buffer)")
    bs = prog.find_bodies(r"FindRegexIter<'store, 'regex> as std::iter::Iterator>::next$")
    if len(bs) != 1:
        ctx.anchor_missing(r, "<FindRegexIter as Iterator>::next")
        return
    b = bs[0]
    ctx.functions_analysed.add(b.id)
    nexts = [(bi, t, (t.get("at") or [""])[0]) for bi, t in b.calls() if not b.blocks[bi].get("cleanup") and (mirq.callee_of(t)[0] or "").endswith("Iterator::next")]
    walks = [bi for bi, t, at in nexts if re.search(r"Enumerate<std::slice::IterMut<", at)]
    if len(walks) != 1:
        ctx.anchor_missing(r, "the walk over the buffered matches (enumerate over iter_mut) in FindRegexIter::next (found %d)" % len(walks))
        return
    L = walks[0]
    refills = [bi for bi, t, at in nexts if re.search(r"api::text::Matches<", at) and b.can_reach(L, bi) and b.can_reach(bi, L)]
    r.hit(b.id, sample={"walk_head": L, "refills_inside_the_walk": refills})
    if not refills:
        ctx.report(r, "no-refill", "FindRegexIter::next no longer refills the buffers of other expressions inside the walk over the buffered matches: with allow_overlap=false overlapping matches are returned", b.file, b.line)
        return
    for x in refills:
        if not b.can_reach(x, x, avoid={L}):
            ctx.report(r, "single-refill", "FindRegexIter::next refills the buffer of another expression once per chosen match: when the refilled match still begins inside the chosen one (`abcdef` chosen, `[a-z]` buffered) it stays buffered and is returned next, overlapping the previous result although allow_overlap is false", b.file, b.blocks[x]["t"].get("line"))
