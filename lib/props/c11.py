"""C11 CBOR round trip: the wire schema is the derive attribute text plus five helper
functions; the rules decide schema-level symmetry, not value equality."""
import re
from synq import Syn, walk, unparse, norm_ty, find, strip, block_tail

# run-time dirty flags: the only fields that may be left out of the binary format
SKIP_OK = {
    ("AnnotationStore", "changed"): "dirty flag, reset on load",
    ("TextResource", "changed"): "dirty flag, reset on load",
    ("AnnotationDataSet", "changed"): "dirty flag, reset on load",
}
# settings copied from the caller's Config after decoding (documented in from_cbor_file)
POST_FIELDS_OK = {"config.debug", "config.shrink_to_fit"}
POST_CALLS_OK = {"shrink_to_fit"}


def derives(item):
    out = set()
    for a in item.get("attrs", []):
        if a["path"] == "derive":
            for t in re.split(r"[,\s]+", a.get("tokens", "")):
                if t:
                    out.add(t.split("::")[-1])
    return out


def cbor_attrs(attrs):
    """returns dict: n/b index, skip, encode_with, decode_with, transparent, other keys"""
    r = {"idx": [], "skip": False, "encode_with": None, "decode_with": None, "with": None, "keys": set()}
    for a in attrs or []:
        if a["path"] in ("n", "b"):
            m = re.match(r"\s*(\d+)\s*$", a.get("tokens", ""))
            if m:
                r["idx"].append(int(m.group(1)))
        elif a["path"] == "cbor":
            tk = a.get("tokens", "")
            for m in re.finditer(r"\b([nb])\s*\(\s*(\d+)\s*\)", tk):
                r["idx"].append(int(m.group(2)))
            for m in re.finditer(r"\b(encode_with|decode_with|with|cbor_len)\s*=\s*\"([^\"]+)\"", tk):
                r[m.group(1)] = m.group(2)
            for m in re.finditer(r"\b([a-z_]+)\b", re.sub(r"\"[^\"]*\"", "", tk)):
                r["keys"].add(m.group(1))
            if re.search(r"\bskip\b", tk):
                r["skip"] = True
    return r


def run(ctx):
    syn = Syn(ctx.facts.syn())
    ctx.not_decided += ["minicbor's own encoder/decoder correctness (trusted)",
                        "value-level equality of the loaded store",
                        "compatibility with files written by other versions"]
    ctx.assumptions += ["derive(Encode)/derive(Decode) of minicbor generate symmetric code for the same attribute text"]

    order_rule(ctx, syn)
    write_rule(ctx)
    name_rule(ctx)
    r_both = ctx.rule("C11.BOTH", "every type that derives or implements Encode also derives or implements Decode and vice versa")
    r_idx = ctx.rule("C11.IDX", "every field/variant of an encoded type has a distinct index or is in the skip list")
    r_skip = ctx.rule("C11.SKIP", "#[cbor(skip)] only on the frozen list of run-time dirty flags (indices are stored, not rebuilt)")
    r_pair = ctx.rule("C11.PAIR", "encode_with/decode_with come in pairs and the two functions are wire-symmetric")
    r_post = ctx.rule("C11.POST", "from_cbor_file changes nothing after decoding except the two copied settings and shrink_to_fit; to_cbor_file encodes self")

    # hand-written impls
    hand = {"Encode": set(), "Decode": set()}
    for im in syn.impls:
        t = im.get("trait")
        if not t:
            continue
        last = re.sub(r"<.*", "", norm_ty(t)).split("::")[-1]
        if last in hand:
            hand[last].add(norm_ty(im["self_ty"]["s"]))

    types = list(syn.structs.values()) + list(syn.enums.values())
    n_types = 0
    n_fields = 0
    helper_pairs = []
    for it in types:
        d = derives(it)
        name = it["name"]
        enc = "Encode" in d or name in hand["Encode"]
        dec = "Decode" in d or name in hand["Decode"]
        if not (enc or dec):
            continue
        n_types += 1
        ctx.functions_analysed.add("type " + name)
        r_both.hit(name)
        if enc != dec:
            ctx.report(r_both, name, "type %s has %s but not %s" % (name, "Encode" if enc else "Decode", "Decode" if enc else "Encode"),
                       it["_file"], it["l"])
        transparent = "transparent" in cbor_attrs(it.get("attrs"))["keys"]
        groups = []
        if it["k"] == "struct":
            groups.append((name, it["fields"]))
        else:
            vidx = {}
            for v in it["variants"]:
                ca = cbor_attrs(v["attrs"])
                r_idx.hit("%s::%s" % (name, v["name"]))
                if len(ca["idx"]) != 1:
                    ctx.report(r_idx, "%s::%s:variant-index" % (name, v["name"]), "variant %s::%s has %d index attributes" % (name, v["name"], len(ca["idx"])), it["_file"], v["l"])
                else:
                    if ca["idx"][0] in vidx:
                        ctx.report(r_idx, "%s::%s:variant-dup" % (name, v["name"]), "variant index %d used by %s and %s" % (ca["idx"][0], vidx[ca["idx"][0]], v["name"]), it["_file"], v["l"])
                    vidx[ca["idx"][0]] = v["name"]
                groups.append(("%s::%s" % (name, v["name"]), v["fields"]))
        for gname, flds in groups:
            seen = {}
            for f in flds:
                n_fields += 1
                ca = cbor_attrs(f["attrs"])
                fk = "%s.%s" % (gname, f["name"])
                r_idx.hit(fk, sample={"field": fk, "index": ca["idx"], "skip": ca["skip"]})
                if ca["skip"]:
                    r_skip.hit(fk)
                    if (gname, f["name"]) not in SKIP_OK:
                        ctx.report(r_skip, fk, "field %s is skipped in the binary format but is not a run-time dirty flag: it is lost (or rebuilt differently) on reload" % fk, it["_file"], f["l"])
                    continue
                if len(ca["idx"]) == 0:
                    if not (transparent and len(flds) == 1):
                        ctx.report(r_idx, fk + ":no-index", "field %s has no CBOR index and is not skipped" % fk, it["_file"], f["l"])
                elif len(ca["idx"]) > 1:
                    ctx.report(r_idx, fk + ":multi-index", "field %s has several CBOR indices" % fk, it["_file"], f["l"])
                else:
                    if ca["idx"][0] in seen:
                        ctx.report(r_idx, fk + ":dup-index", "index %d used by %s and %s" % (ca["idx"][0], seen[ca["idx"][0]], f["name"]), it["_file"], f["l"])
                    seen[ca["idx"][0]] = f["name"]
                if ca["encode_with"] or ca["decode_with"]:
                    r_pair.hit(fk)
                    if not (ca["encode_with"] and ca["decode_with"]):
                        ctx.report(r_pair, fk + ":unpaired", "field %s has %s but no %s" % (fk, "encode_with" if ca["encode_with"] else "decode_with", "decode_with" if ca["encode_with"] else "encode_with"), it["_file"], f["l"])
                    else:
                        helper_pairs.append((fk, ca["encode_with"], ca["decode_with"], it["_file"], f["l"], norm_ty(f["ty"]["s"])))
    ctx.floor(r_both, n_types, 29, "encoded types")
    ctx.floor(r_idx, n_fields, 60, "encoded fields")
    # every frozen skip still exists (else the table is stale: harmless, note only)
    # required indices: the reverse indices and id maps of the store must be encoded
    must = {"AnnotationStore": ["annotations", "annotationsets", "resources", "annotation_idmap", "resource_idmap", "dataset_idmap",
                                "dataset_data_annotation_map", "textrelationmap", "resource_annotation_metamap", "dataset_annotation_metamap",
                                "annotation_annotation_map", "key_annotation_metamap", "data_annotation_metamap"],
            "TextResource": ["text", "textlen", "textselections", "positionindex", "byte2charmap"],
            "AnnotationDataSet": ["keys", "data", "key_idmap", "data_idmap", "key_data_map"]}
    for sname, fl in must.items():
        st = syn.structs.get(sname)
        if not st:
            ctx.anchor_missing(r_skip, "struct " + sname)
            continue
        have = {f["name"]: f for f in st["fields"]}
        for fn in fl:
            if fn not in have:
                # renamed field: cannot match by name, not a violation by itself
                r_skip.notes.append("field %s.%s of the frozen inventory not found (renamed?)" % (sname, fn))

    # helper function symmetry
    pair_fns = 0
    for fk, ef, df, file, line, fty in helper_pairs:
        e = syn.find_fns(name=ef.split("::")[-1])
        d = syn.find_fns(name=df.split("::")[-1])
        if len(e) != 1 or len(d) != 1:
            ctx.anchor_missing(r_pair, "helper functions %s / %s" % (ef, df))
            continue
        pair_fns += 1
        shape_e = enc_shape(e[0])
        shape_d = dec_shape(d[0])
        r_pair.hit(fk + ":shape", sample={"field": fk, "encoder": ef, "enc_shape": shape_e, "decoder": df, "dec_shape": shape_d})
        ctx.functions_analysed.update([e[0].qual, d[0].qual])
        if shape_e["kind"] != shape_d["kind"]:
            ctx.report(r_pair, "%s:shape" % fk, "encoder %s writes %s but decoder %s reads %s" % (ef, shape_e["kind"], df, shape_d["kind"]), d[0].file, d[0].line,
                       {"enc": shape_e, "dec": shape_d})
        else:
            for prob in shape_e.get("problems", []) + shape_d.get("problems", []):
                ctx.report(r_pair, "%s:%s" % (fk, prob["key"]), prob["msg"], prob["file"], prob["line"])
            if shape_e["kind"] == "string" and shape_e.get("fmt") != shape_d.get("fmt"):
                ctx.report(r_pair, "%s:format" % fk, "encoder writes text with %s but decoder parses with %s" % (shape_e.get("fmt"), shape_d.get("fmt")), d[0].file, d[0].line)
    ctx.floor(r_pair, pair_fns, 3, "encode_with/decode_with pairs")

    shrink_rule(ctx)
    # file functions
    try:
        tf = syn.fn("to_cbor_file", self_ty="AnnotationStore")
        ff = syn.fn("from_cbor_file", self_ty="AnnotationStore")
    except Exception as e:
        ctx.anchor_missing(r_post, str(e))
        return
    ctx.functions_analysed.update([tf.qual, ff.qual])
    # to_cbor_file: a call minicbor::encode(self, ..)
    encs = [c for c in find(tf.body, "call") if unparse(c["func"]).endswith("minicbor::encode")]
    r_post.hit("to_cbor_file:encode-self")
    if len(encs) != 1 or unparse(strip(encs[0]["args"][0])) != "self":
        ctx.report(r_post, "to_cbor_file:encode-self", "to_cbor_file must pass the store itself to minicbor::encode exactly once", tf.file, tf.line)
    # from_cbor_file: find let <store> = minicbor::decode(..)...; then inspect the rest
    stmts = ff.body["stmts"]
    di = None
    var = None
    for i, s in enumerate(stmts):
        if s["k"] == "let" and s.get("init") and any(unparse(c["func"]).endswith("minicbor::decode") for c in find(s["init"], "call")):
            di = i
            names = [n["name"] for n in walk(s["pat"]) if n.get("k") == "pat" and n.get("p") == "ident"]
            var = names[0] if names else None
    if di is None or var is None:
        ctx.anchor_missing(r_post, "let <store> = minicbor::decode(..) in from_cbor_file")
        return
    # decode input must be the buffer that read_to_end filled (whole file)
    for s in stmts[di + 1:]:
        for n in walk(s):
            k = n.get("k")
            if k == "assign":
                lhs = unparse(n["left"])
                r_post.hit("assign:" + lhs)
                if lhs.startswith(var + "."):
                    if lhs[len(var) + 1:] not in POST_FIELDS_OK:
                        ctx.report(r_post, "from_cbor_file:assign:" + lhs[len(var) + 1:], "from_cbor_file overwrites %s after decoding (only %s may be copied from the caller's configuration)" % (lhs, sorted(POST_FIELDS_OK)), ff.file, n["l"])
                elif lhs == var:
                    ctx.report(r_post, "from_cbor_file:assign:store", "from_cbor_file replaces the decoded store", ff.file, n["l"])
            elif k == "mcall":
                base = unparse(strip(n["recv"]))
                if base == var or base.startswith(var + "."):
                    # a method call on the decoded store or a part of it
                    r_post.hit("call:%s.%s" % (base, n["method"]))
                    if base == var and n["method"] in POST_CALLS_OK:
                        continue
                    # read-only getters on config are fine: they take &self; decide by name table of mutators is impossible here,
                    # so anything that is not the sanctioned call is checked against the &mut-taking methods of the store
                    cands = syn.find_fns(name=n["method"])
                    if any(c.sig.get("recv") == "&mut self" for c in cands):
                        ctx.report(r_post, "from_cbor_file:call:%s" % n["method"], "from_cbor_file calls mutating method %s on the decoded store after decoding" % n["method"], ff.file, n["l"])
            elif k == "binary" and n["op"] in ("+=", "-=", "*=", "/="):
                lhs = unparse(n["left"])
                if lhs.startswith(var):
                    ctx.report(r_post, "from_cbor_file:assign:" + lhs, "from_cbor_file modifies %s after decoding" % lhs, ff.file, n["l"])
            elif k == "ref" and n.get("mut"):
                tgt = unparse(strip(n["e"]))
                if tgt == var or tgt.startswith(var + "."):
                    ctx.report(r_post, "from_cbor_file:mutborrow:" + tgt, "from_cbor_file takes &mut %s after decoding" % tgt, ff.file, n["l"])
    tail = block_tail(ff.body)
    r_post.hit("tail")
    if tail is None or unparse(tail) != "Ok(%s)" % var:
        ctx.report(r_post, "from_cbor_file:tail", "from_cbor_file must return the decoded store itself", ff.file, ff.line)
    # the callers hand the loaded store on as it is (MIR: the result of from_cbor_file flows into nothing but the return value)
    import mirq
    prog = mirq.Program(ctx.facts.mir())
    PASS = re.compile(r"(Try::branch|FromResidual::from_residual|From::from|Into::into)$")
    ncall = 0
    for bid, b in sorted(prog.bodies.items()):
        sites = [bi for bi, t in b.calls() if (mirq.callee_of(t)[0] or "").endswith("AnnotationStore::from_cbor_file")]
        if not sites:
            continue
        ncall += len(sites)
        ctx.functions_analysed.add(bid)
        r_post.hit("caller:" + bid, sample={"caller": bid, "call_sites": len(sites)})
        for bi, t in b.calls():
            d = mirq.callee_of(t)[0] or ""
            if d.endswith("AnnotationStore::from_cbor_file") or PASS.search(d):
                continue
            for a in t.get("args", []):
                if any(x.endswith("AnnotationStore::from_cbor_file") for x in b.provenance(a)):
                    ctx.report(r_post, "caller:%s|%s" % (bid, mirq.short_fn(d)), "%s passes the store it loaded with from_cbor_file on to %s before returning it: the binary format is a dump of the memory model (handles, gaps, indices) and anything done to it after decoding makes the loaded store differ from the saved one" % (bid, mirq.short_fn(d)), b.file, t.get("line"))
                    break
    ctx.floor(r_post, ncall, 1, "call sites of from_cbor_file")


SHRINK_OK = {"shrink_to_fit", "iter_mut", "into_iter", "next", "as_mut", "deref_mut", "values_mut", "get_mut", "index_mut", "as_mut_slice", "iter", "deref", "as_ref", "borrow_mut", "write", "unwrap", "len", "is_empty", "capacity"}


def shrink_rule(ctx):
    """C11.SHRINK: the post-load compaction only releases spare capacity"""
    import mirq
    r = ctx.rule("C11.SHRINK", "everything reachable from AnnotationStore::shrink_to_fit (run after every CBOR load) mutates containers only through shrink_to_fit")
    prog = mirq.Program(ctx.facts.mir())
    roots = [b.id for b in prog.find_bodies(r"annotationstore::AnnotationStore::shrink_to_fit$")]
    if len(roots) != 1:
        ctx.anchor_missing(r, "AnnotationStore::shrink_to_fit")
        return
    reach, parent = prog.reachable(roots)
    n = 0
    for bid in sorted(reach):
        b = prog.bodies[bid]
        ctx.functions_analysed.add(bid)
        if not bid.split("::")[-1].startswith("shrink_to_fit") and "{closure" not in bid:
            ctx.report(r, "reach:" + bid, "shrink_to_fit reaches %s, which is not a shrink_to_fit function" % bid, b.file, b.line)
        # direct writes to fields
        for bi, blk in enumerate(b.blocks):
            for s in blk["s"]:
                if "rv" in s and any(isinstance(e, dict) and "f" in e for e in s["p"]["p"]):
                    n += 1
                    fld = [e.get("n") for e in s["p"]["p"] if isinstance(e, dict) and "f" in e]
                    r.hit("%s|assign:%s" % (bid, ".".join(str(x) for x in fld)))
                    ctx.report(r, "%s|assign:%s" % (bid, ".".join(str(x) for x in fld)), "%s assigns field %s during compaction" % (bid, ".".join(str(x) for x in fld)), b.file, s.get("line"))
        for bi, t in b.calls():
            decl, res, info = mirq.callee_of(t)
            if info is None:
                continue
            at = t.get("at", [])
            if not at or not at[0].startswith("&mut "):
                continue
            name = decl.split("::")[-1]
            n += 1
            r.hit("%s|%s" % (bid, name), sample={"in": bid, "call": decl})
            if info.get("rlocal") and name.startswith("shrink_to_fit"):
                continue
            if name in SHRINK_OK:
                continue
            ctx.report(r, "%s|call:%s" % (bid, mirq.short_fn(decl)), "%s calls %s on a mutable container during compaction: only shrink_to_fit may change a loaded store" % (bid, decl), b.file, t.get("line"))
    ctx.floor(r, n, 20, "mutable calls under shrink_to_fit")


def enc_shape(fn):
    """top-level wire shape written by an encode helper"""
    calls = [n for n in walk(fn.body) if n.get("k") == "mcall"]
    names = [c["method"] for c in calls]
    probs = []
    if "array" in names:
        # e.array(v.len()) then each element encoded in a for loop over v, unconditionally
        arr = [c for c in calls if c["method"] == "array"][0]
        lenarg = unparse(strip(arr["args"][0], casts=True)) if arr["args"] else ""
        loops = list(find(fn.body, "for"))
        ok = False
        for lp in loops:
            body = lp["body"]["stmts"]
            it = unparse(strip(lp["iter"]))
            var = lp["pat"]["s"]
            # loop body must be a single unconditional encode of the loop variable
            if len(body) == 1 and body[0]["k"] == "exprstmt":
                e = body[0]["e"]
                while e.get("k") == "try":
                    e = e["e"]
                if e.get("k") == "mcall" and e["method"] == "encode" and unparse(strip(e["recv"])) == var.strip():
                    ok = True
                    if not lenarg.startswith(it + ".len()"):
                        probs.append({"key": "array-len", "msg": "array header length %s is not the length of the encoded sequence %s" % (lenarg, it), "file": fn.file, "line": arr["l"]})
        if not ok:
            probs.append({"key": "array-elems", "msg": "encoder %s does not encode every element of the sequence unconditionally" % fn.name, "file": fn.file, "line": fn.line})
        return {"kind": "array", "problems": probs}
    if "encode" in names:
        enc = [c for c in calls if c["method"] == "encode"][0]
        recv = enc["recv"]
        fmt = None
        if recv.get("k") == "mcall":
            fmt = recv["method"]  # e.g. to_rfc3339
            m = re.match(r"to_(\w+)", fmt)
            fmt = m.group(1) if m else fmt
        return {"kind": "string" if fmt else "value", "fmt": fmt}
    # writes nothing?
    if not any(n in names for n in ("str", "u8", "u16", "u32", "u64", "i64", "bytes", "map", "bool", "null", "tag", "f64")):
        return {"kind": "nothing"}
    return {"kind": "scalar:" + ",".join(n for n in names)}


def dec_shape(fn):
    calls = [n for n in walk(fn.body) if n.get("k") == "mcall"]
    names = [c["method"] for c in calls]
    probs = []
    if any(n.startswith("array_iter") for n in names):
        loops = list(find(fn.body, "for"))
        ok = False
        for lp in loops:
            body = lp["body"]["stmts"]
            var = lp["pat"]["s"].strip()
            if len(body) == 1 and body[0]["k"] == "exprstmt":
                e = body[0]["e"]
                if e.get("k") == "mcall" and e["method"] == "push" and len(e["args"]) == 1:
                    a = e["args"][0]
                    while a.get("k") == "try":
                        a = a["e"]
                    if unparse(strip(a)) == var:
                        ok = True
        if not ok:
            probs.append({"key": "array-elems", "msg": "decoder %s does not keep every decoded element in order (loop body must push each element unconditionally)" % fn.name, "file": fn.file, "line": fn.line})
        return {"kind": "array", "problems": probs}
    if "decode" in names:
        fmt = None
        for c in find(fn.body, "call"):
            f = unparse(c["func"])
            m = re.search(r"parse_from_(\w+)$", f)
            if m:
                fmt = m.group(1)
        return {"kind": "string" if fmt else "value", "fmt": fmt}
    dnames = [n for n in names if n in ("str", "u8", "u16", "u32", "u64", "i64", "bytes", "map", "bool", "null", "tag", "f64", "skip")]
    if not dnames:
        return {"kind": "nothing"}
    return {"kind": "scalar:" + ",".join(dnames)}


# ---------------------------------------------------------------------- ORDER
def order_rule(ctx, syn):
    """the hand-written CBOR helpers write a collection in its in-memory order and read it back in the order
    read: order carries meaning (position-index lists are in insertion order), so a helper that sorts,
    reverses, filters or de-duplicates on either side changes the model across a round trip"""
    from synq import find, unparse, strip, walk
    r = ctx.rule("C11.ORDER", "custom CBOR encoders iterate the collection they are given, custom decoders push in reading order: no sort / reverse / dedup / filter on either side")
    FORBID = {"sort", "sort_unstable", "sort_by", "sort_by_key", "sort_unstable_by", "sort_unstable_by_key", "reverse", "rev", "dedup", "dedup_by_key", "retain", "filter", "filter_map", "skip", "take", "step_by", "swap", "rotate_left", "rotate_right"}
    n = 0
    for f in syn.fns:
        if f.file != "src/cbor.rs" or f.body is None or not re.match(r"cbor_(encode|decode)_", f.name):
            continue
        n += 1
        ctx.functions_analysed.add(f.qual)
        bad = sorted(set(c["method"] for c in find(f.body, "mcall") if c["method"] in FORBID))
        r.hit(f.name, sample={"helper": f.name, "reordering_calls": bad})
        if bad:
            ctx.report(r, "%s|%s" % (f.name, bad[0]), "%s calls .%s(): the collection is not written / read in its own order, so the reloaded model differs from the saved one (iteration order of the position index is observable)" % (f.name, bad[0]), f.file, f.line)
        if f.name.startswith("cbor_encode_"):
            params = [p_["pat"].get("name") for p_ in f.sig["inputs"]]
            loops = [lp for lp in find(f.body, "for")]
            for lp in loops:
                it = unparse(strip(lp["iter"]))
                if params and not re.fullmatch(r"%s(\.iter\(\))?" % re.escape(params[0]), it):
                    ctx.report(r, "%s|iterates:%s" % (f.name, re.sub(r"\W+", "_", it)[:30]), "%s encodes the items of `%s`, not of the collection it was given (`%s`)" % (f.name, it, params[0]), f.file, lp.get("l"))
    ctx.floor(r, n, 4, "custom CBOR helpers")


# ---------------------------------------------------------------------- WRITE
WRITE_CHAIN = [
    # (function, what every successful path must pass through, description)
    (r"^annotationstore::AnnotationStore::to_file$", r"annotationstore::AnnotationStore::save$", "AnnotationStore::save"),
    (r"^annotationstore::AnnotationStore::save$", r"(::to_json_file|::to_cbor_file|::to_csv_files)$", "one of the format writers (to_json_file / to_cbor_file / to_csv_files)"),
    (r"^annotationstore::AnnotationStore::to_cbor_file$", r"^minicbor::encode$", "minicbor::encode"),
]


def write_rule(ctx):
    """`the store I wrote is the store I read` presupposes that a write that reports success wrote: to_file -> save ->
    to_cbor_file -> minicbor::encode, on every path that does not end in an error.  (The change markers are all
    #[cbor(skip)] and only track some kinds of change; 'nothing to do' is not something these functions can know.)"""
    import mirq
    r = ctx.rule("C11.WRITE", "every path through to_file, save and to_cbor_file that does not return an error passes through the next writer in the chain, down to minicbor::encode of the store")
    prog = mirq.Program(ctx.facts.mir())
    n = 0
    for pat, through, desc in WRITE_CHAIN:
        bs = prog.find_bodies(pat)
        if len(bs) != 1:
            ctx.anchor_missing(r, pat)
            continue
        b = bs[0]
        n += 1
        ctx.functions_analysed.add(b.id)
        thr = set(bi for bi, t in b.calls() if re.search(through, mirq.callee_of(t)[0] or ""))
        errs = set(bi for bi, blk in enumerate(b.blocks) if any((s_.get("rv") or {}).get("r") == "agg" and (s_["rv"].get("variant") == "Err") and s_["p"]["l"] == 0 and not s_["p"]["p"] for s_ in blk["s"]))
        errs |= set(bi for bi, t in b.calls() if (mirq.callee_of(t)[0] or "").endswith("FromResidual::from_residual"))
        rets = [bi for bi, blk in enumerate(b.blocks) if blk["t"]["t"] == "return"]
        avoid_ = thr | errs
        bypass = not thr or any(rt == 0 or b.can_reach(0, rt, avoid=avoid_) for rt in rets if 0 not in avoid_)
        r.hit(b.id, sample={"fn": b.id, "must_pass": desc, "sites": len(thr), "bypass": bool(bypass)})
        if bypass:
            ctx.report(r, "%s|bypass" % mirq.short_fn(b.id), "%s can return success without going through %s: a write that is skipped (an 'up to date' shortcut, a format without a writer) leaves the previous generation of the store on disk while the caller is told it was saved" % (b.id, desc), b.file, b.line)
        if pat.endswith("to_cbor_file$"):
            # what is encoded is the store itself
            for bi in thr:
                t = b.blocks[bi]["t"]
                prov = b.provenance(t["args"][0]) if t.get("args") else ""
                key0 = b.key_of_operand(t["args"][0]) if t.get("args") else "?"
                r.hit("encode-arg", sample={"encoded": key0})
                if not re.search(r"\bself\b|_1\b", str(key0) + " " + str(prov)):
                    ctx.report(r, "to_cbor_file|encodes-other", "to_cbor_file encodes `%s`, not the store it was called on" % key0, b.file, t.get("line"))
    ctx.floor(r, n, 3, "functions of the write chain")


# ---------------------------------------------------------------------- NAME
def name_rule(ctx, rid="C11.NAME"):
    """to_file(name) sets the file name, save() writes it, from_file(name) reads it: the round trip starts with the name
    being the one that was given.  set_filename switches the data format by the extension, and set_dataformat derives a
    canonical name (`x.store.stam.cbor`) of its own: after any such call the given name has to be restored."""
    import mirq
    r = ctx.rule(rid, "in AnnotationStore::set_filename every path from a call of set_dataformat to the return passes through an assignment of self.filename that derives from the filename argument (the file written is the file asked for)")
    prog = mirq.Program(ctx.facts.mir())
    bs = prog.find_bodies(r"^<annotationstore::AnnotationStore as file::AssociatedFile>::set_filename$")
    if len(bs) != 1:
        ctx.anchor_missing(r, "<AnnotationStore as AssociatedFile>::set_filename")
        return
    b = bs[0]
    ctx.functions_analysed.add(b.id)
    calls = [bi for bi, t in b.calls() if (mirq.callee_of(t)[0] or "").endswith("AnnotationStore::set_dataformat")]
    assigns = set()
    for bi, blk in enumerate(b.blocks):
        for s_ in blk["s"]:
            p = s_.get("p") or {}
            if p.get("l") == 1 and any(isinstance(x, dict) and x.get("n") == "filename" for x in p.get("p", [])):
                rv = s_.get("rv") or {}
                ops = [o for o in ([rv.get("o")] if rv.get("o") else []) + list(rv.get("ops") or []) if o]
                if any("arg2" in b.provenance(o) for o in ops):
                    assigns.add(bi)
    rets = [bi for bi, blk in enumerate(b.blocks) if blk["t"]["t"] == "return"]
    r.hit("set_filename", sample={"set_dataformat_calls": len(calls), "assignments_from_argument": len(assigns)})
    if not calls:
        r.notes.append("set_filename no longer calls set_dataformat: nothing can rename the store behind its back")
    for c in calls:
        succ = b.blocks[c]["t"].get("target")
        starts = [succ] if isinstance(succ, int) else [x for x in (b.blocks[c]["t"].get("targets") or []) if isinstance(x, int)]
        bad = any(st not in assigns and any(st == rt or b.can_reach(st, rt, avoid=assigns) for rt in rets) for st in starts) if starts else True
        if bad:
            ctx.report(r, "renamed-after-set_dataformat", "AnnotationStore::set_filename can return after set_dataformat (line %s) without restoring self.filename from its argument: set_dataformat replaces the name by a canonical one (x.cbor -> x.store.stam.cbor), so to_file(\"x.cbor\") writes another file than it was given and from_file(\"x.cbor\") finds nothing" % b.blocks[c]["t"].get("line"), b.file, b.blocks[c]["t"].get("line"))
            break
    ctx.floor(r, len(rets), 1, "returns of set_filename")
