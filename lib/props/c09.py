"""C09 STAMQL parsing is total; print/parse keyword tables agree.

C09.TOTAL: every panic source reachable (over-approximated call graph) from the parser
entry points is either discharged by a semantic idiom (lib/panics.py), or listed with a
reason in rules/panic_safe.json (reviewed by reading), or it is a finding.
C09.KW: every keyword the printers can emit is accepted by the parser."""
import json
import os
import re
import mirq
import panics
from synq import Syn, walk, find, unparse
from core import VERIF

ENTRY_RX = r"api::query::Query::<'a>::parse$|api::query::Constraint::<'a>::parse$|api::query::Assignment::<'a>::parse$|<api::query::Query<'a> as std::convert::TryFrom<&'a str>>::try_from$"


def load_safe(pid):
    with open(os.path.join(VERIF, "rules", "panic_safe.json")) as fh:
        return json.load(fh).get(pid, {})


def total_rule(ctx, rule, prog, roots, safe, min_bodies, min_sources, skip_body=None):
    reach, parent = prog.reachable(roots)
    n_src = 0
    n_dis = 0
    n_tab = 0
    used = set()
    for bid in sorted(reach):
        b = prog.bodies[bid]
        if b.d.get("derived"):
            continue
        if skip_body and skip_body(b):
            continue
        ctx.functions_analysed.add(bid)
        ss = panics.sources(b)
        if not ss:
            continue
        facts_ = panics.cmp_facts(b)
        for s in ss:
            n_src += 1
            d = panics.discharged(b, s, facts_, prog)
            if d:
                n_dis += 1
                rule.hit(s["key"], sample={"source": s["key"], "discharged_by": d})
                continue
            if s["key"] in safe:
                n_tab += 1
                used.add(s["key"])
                rule.hit(s["key"], sample={"source": s["key"], "table": safe[s["key"]]})
                continue
            rule.hit(s["key"])
            path = prog.path_to(parent, bid)
            ctx.report(rule, s["key"], "reachable panic source %s:%s in %s is not discharged by any idiom and not in the reviewed table (call path: %s)" % (
                s["kind"], s["what"], bid, " -> ".join(mirq.short_fn(x) for x in path[-4:])), b.file, s["line"],
                {"path": path, "kind": s["kind"], "what": s["what"]})
    rule.notes.append("reachable bodies: %d; panic sources: %d; discharged by idiom: %d; by reviewed table: %d" % (len(reach), n_src, n_dis, n_tab))
    stale = [k for k in safe if k not in used]
    if stale:
        rule.notes.append("table lines without a matching source on this tree (harmless): %d" % len(stale))
    ctx.floor(rule, len(reach), min_bodies, "reachable bodies")
    ctx.floor(rule, n_src, min_sources, "panic sources")
    return reach


def leading_kw(s):
    m = re.match(r"^([A-Z]{2,})\b", s)
    return m.group(1) if m else None


def run(ctx):
    prog = mirq.Program(ctx.facts.mir())
    syn = Syn(ctx.facts.syn())
    ctx.not_decided += ["that parse(print(q)) has the same meaning as q (only keyword-table agreement is decided)",
                        "panics inside foreign crates (regex, chrono) on arguments the parser passes them",
                        "escaping of quotes inside printed string literals"]
    ctx.assumptions += ["lengths and counters never reach usize::MAX (x + small constant cannot overflow)",
                        "rules/panic_safe.json lines were reviewed by reading the pinned source; each names one panic source"]

    r_total = ctx.rule("C09.TOTAL", "no undischarged panic source is reachable from Query::parse / Constraint::parse / Assignment::parse / TryFrom<&str> for Query")
    roots = [b.id for b in prog.find_bodies(ENTRY_RX)]
    if len(roots) < 4:
        ctx.anchor_missing(r_total, "parser entry points (found %d of 4)" % len(roots))
    total_rule(ctx, r_total, prog, roots, load_safe("C09"), 40, 40)

    # ---------------- keyword tables
    r_kw = ctx.rule("C09.KW", "every keyword a printer can emit is accepted by the parser")
    cparse = syn.fn("parse", self_ty="Constraint")
    cprint = syn.fn("to_string", self_ty="Constraint")
    ctx.functions_analysed.update([cparse.qual, cprint.qual])
    parsed = set()
    for n in walk(cparse.body):
        if n.get("k") == "arm":
            for p in walk(n["pat"]):
                if p.get("k") == "pat" and p.get("p") == "tuplestruct" and p["path"][-1] == "Some":
                    for q in walk(p):
                        if q.get("k") == "lit" and q.get("t") == "str":
                            parsed.add(q["v"])
    printed = {}
    for n in walk(cprint.body):
        if n.get("k") == "lit" and n.get("t") == "str":
            kw = leading_kw(n["v"])
            if kw:
                printed.setdefault(kw, n["l"])
    for kw, line in sorted(printed.items()):
        r_kw.hit("constraint:" + kw)
        if kw not in parsed:
            ctx.report(r_kw, "constraint:" + kw, "Constraint::to_string prints keyword %s but Constraint::parse has no arm for it" % kw, cprint.file, line)
    ctx.floor(r_kw, len(printed), 9, "constraint keywords printed")

    # relation operators
    opstr = syn.fn("as_str", self_ty="TextSelectionOperator")
    op_printed = {}
    for n in walk(opstr.body):
        if n.get("k") == "arm" and n["body"].get("k") == "lit":
            op_printed[n["body"]["v"]] = n["l"]
    op_parsed = set()
    for n in walk(cparse.body):
        if n.get("k") == "match":
            lits = [a["pat"]["lit"]["v"] for a in n["arms"] if a["pat"].get("p") == "lit" and a["pat"]["lit"].get("t") == "str"]
            if "EMBEDS" in lits or "OVERLAPS" in lits:
                op_parsed.update(lits)
    if not op_parsed:
        ctx.anchor_missing(r_kw, "relation operator table in Constraint::parse")
    for kw, line in sorted(op_printed.items()):
        r_kw.hit("relation:" + kw)
        if kw not in op_parsed:
            ctx.report(r_kw, "relation:" + kw, "TextSelectionOperator::as_str prints %s but the RELATION parser does not accept it" % kw, opstr.file, line)
    ctx.floor(r_kw, len(op_printed), 12, "relation keywords printed")

    # query types
    qt = syn.fn("as_str", self_ty="QueryType")
    pwa = syn.fn("parse_with_attributes", self_ty="Query")
    qparsed = set()
    for n in walk(pwa.body):
        if n.get("k") == "pat" and n.get("p") == "tuplestruct" and n["path"][-1] == "Some":
            for q in walk(n):
                if q.get("k") == "lit" and q.get("t") == "str":
                    qparsed.add(q["v"])
    for n in walk(qt.body):
        if n.get("k") == "arm" and n["body"].get("k") == "lit":
            kw = n["body"]["v"]
            r_kw.hit("querytype:" + kw)
            if kw not in qparsed:
                ctx.report(r_kw, "querytype:" + kw, "QueryType::as_str prints %s but Query::parse does not accept it" % kw, qt.file, n["l"])

    # data operators: symbols printed by DataOperator::to_string vs first element of the tuple patterns of parse_dataoperator
    dto = syn.find_fns(name="to_string", self_ty="DataOperator")
    pdo = syn.find_fns(name="parse_dataoperator")
    if len(dto) == 1 and len(pdo) == 1:
        accepted = set()
        for n in walk(pdo[0].body):
            if n.get("k") == "pat" and n.get("p") == "tuple" and n["elems"] and n["elems"][0].get("p") == "lit":
                accepted.add(n["elems"][0]["lit"]["v"])
        syms = {}
        for n in walk(dto[0].body):
            if n.get("k") == "lit" and n.get("t") == "str":
                m = re.match(r"^\s*(!=|<=|>=|=|<|>)\s", n["v"] + " ")
                if m:
                    syms.setdefault(m.group(1), n["l"])
        for sym, line in sorted(syms.items()):
            r_kw.hit("dataoperator:" + sym)
            if sym not in accepted:
                ctx.report(r_kw, "dataoperator:" + sym, "DataOperator::to_string prints operator %s but parse_dataoperator has no arm for it" % sym, dto[0].file, line)
        ctx.functions_analysed.update([dto[0].qual, pdo[0].qual])
    else:
        ctx.anchor_missing(r_kw, "DataOperator::to_string / parse_dataoperator")

    # selection qualifiers: " AS METADATA" etc. must be parseable by parse_qualifiers
    sq = syn.find_fns(name="as_str", self_ty="SelectionQualifier")
    pq = syn.find_fns(name="parse_qualifiers")
    if len(sq) == 1 and len(pq) == 1:
        qlits = set()
        for n in walk(pq[0].body):
            if n.get("k") == "lit" and n.get("t") == "str":
                qlits.update(re.findall(r"[A-Z]{2,}", n["v"]))
        for n in walk(sq[0].body):
            if n.get("k") == "arm" and n["body"].get("k") == "lit" and n["body"]["v"].strip():
                words = re.findall(r"[A-Z]{2,}", n["body"]["v"])
                r_kw.hit("qualifier:" + " ".join(words))
                missing = [w for w in words if w not in qlits]
                if missing:
                    ctx.report(r_kw, "qualifier:" + " ".join(words), "SelectionQualifier::as_str prints '%s' but parse_qualifiers does not mention %s" % (n["body"]["v"], missing), sq[0].file, n["l"])
