"""C09 STAMQL parsing is total; print/parse keyword tables agree.

C09.TOTAL: every panic source reachable (over-approximated call graph) from the parser
entry points is either discharged by a semantic idiom (lib/panics.py), or listed with a
reason in rules/panic_safe.json (reviewed by reading), or it is a finding.
C09.KW: every keyword the printers can emit is accepted by the parser."""
import json
import os
import re
import mirq
import panics
from synq import Syn, walk, find, unparse, pat_names, strip
from core import VERIF

ENTRY_RX = r"api::query::Query::<'a>::parse$|api::query::Constraint::<'a>::parse$|api::query::Assignment::<'a>::parse$|<api::query::Query<'a> as std::convert::TryFrom<&'a str>>::try_from$"


def load_safe(pid):
    with open(os.path.join(VERIF, "rules", "panic_safe.json")) as fh:
        return json.load(fh).get(pid, {})


def total_rule(ctx, rule, prog, roots, safe, min_bodies, min_sources, skip_body=None):
    reach, parent = prog.reachable(roots)
    n_src = 0
    n_dis = 0
    n_tab = 0
    used = set()
    for bid in sorted(reach):
        b = prog.bodies[bid]
        if b.d.get("derived"):
            continue
        if skip_body and skip_body(b):
            continue
        ctx.functions_analysed.add(bid)
        ss = panics.sources(b)
        if not ss:
            continue
        facts_ = panics.cmp_facts(b)
        for s in ss:
            n_src += 1
            d = panics.discharged(b, s, facts_, prog)
            if d:
                n_dis += 1
                rule.hit(s["key"], sample={"source": s["key"], "discharged_by": d})
                continue
            if s["key"] in safe:
                n_tab += 1
                used.add(s["key"])
                rule.hit(s["key"], sample={"source": s["key"], "table": safe[s["key"]]})
                continue
            rule.hit(s["key"])
            path = prog.path_to(parent, bid)
            ctx.report(rule, s["key"], "reachable panic source %s:%s in %s is not discharged by any idiom and not in the reviewed table (call path: %s)" % (
                s["kind"], s["what"], bid, " -> ".join(mirq.short_fn(x) for x in path[-4:])), b.file, s["line"],
                {"path": path, "kind": s["kind"], "what": s["what"]})
    rule.notes.append("reachable bodies: %d; panic sources: %d; discharged by idiom: %d; by reviewed table: %d" % (len(reach), n_src, n_dis, n_tab))
    stale = [k for k in safe if k not in used]
    if stale:
        rule.notes.append("table lines without a matching source on this tree (harmless): %d" % len(stale))
    ctx.floor(rule, len(reach), min_bodies, "reachable bodies")
    ctx.floor(rule, n_src, min_sources, "panic sources")
    return reach


def recur_rule(ctx, prog, reach, syn):
    """a stack overflow is not a syntax error: it aborts the process.  Every cycle of the call graph among the functions
    the parser can reach (a function that calls itself, or several that call each other) either has a reviewed reason
    why it is not a recursion on the input, or is bounded by a depth counter: some member refuses to go on when
    `depth` reaches a constant, and every call that closes the cycle hands on `depth` or `depth + 1`."""
    from synq import walk, unparse, strip
    r = ctx.rule("C09.RECUR", "every call-graph cycle reachable from the query parser is bounded by a depth counter (a guard `depth >= CONST` that returns an error, and depth or depth + 1 passed on every call inside the cycle) or has a reviewed reason")
    table = load_safe("C09.RECUR")
    edges = prog.edges()
    members = sorted(b for b in reach if not prog.bodies[b].d.get("derived"))
    inreach = set(members)
    # strongly connected components (iterative Tarjan)
    index, low, stack, onstack, comps, counter = {}, {}, [], set(), [], [0]
    for root in members:
        if root in index:
            continue
        work = [(root, iter(sorted(w for w in edges.get(root, ()) if w in inreach)))]
        index[root] = low[root] = counter[0]
        counter[0] += 1
        stack.append(root)
        onstack.add(root)
        while work:
            v, it = work[-1]
            adv = False
            for w in it:
                if w not in index:
                    index[w] = low[w] = counter[0]
                    counter[0] += 1
                    stack.append(w)
                    onstack.add(w)
                    work.append((w, iter(sorted(x for x in edges.get(w, ()) if x in inreach))))
                    adv = True
                    break
                elif w in onstack:
                    low[v] = min(low[v], index[w])
            if adv:
                continue
            work.pop()
            if work:
                low[work[-1][0]] = min(low[work[-1][0]], low[v])
            if low[v] == index[v]:
                comp = []
                while True:
                    w = stack.pop()
                    onstack.discard(w)
                    comp.append(w)
                    if w == v:
                        break
                if len(comp) > 1 or v in edges.get(v, ()):
                    comps.append(sorted(comp))
    by_pos = dict(((f.file, f.line), f) for f in syn.fns if f.body is not None)
    by_qual = dict(((f.file, f.qual), f) for f in syn.fns if f.body is not None)
    n = 0
    for comp in sorted(comps):
        key = "|".join(mirq.short_fn(x) for x in comp)
        n += 1
        if "|".join(comp) in table:
            r.hit("cycle:" + key[:80], sample={"cycle": comp, "reason": table["|".join(comp)][:100]})
            continue
        fns = [by_pos.get((prog.bodies[x].file, prog.bodies[x].line)) or by_qual.get((prog.bodies[x].file, mirq.short_fn(x))) for x in comp]
        why = None
        if any(f is None for f in fns):
            why = "its functions could not be matched to their syntax trees"
        else:
            names = set(f.name for f in fns)
            guard = False
            plus = False
            bad_call = None
            for f in fns:
                for nd in walk(f.body):
                    if nd.get("k") == "if" and re.search(r"\bdepth\s*(>=|>)\s*[A-Z_0-9]+", unparse(nd["cond"])) and any(x.get("k") == "return" and "Err" in unparse(x) for x in walk(nd["then"])):
                        guard = True
                    if nd.get("k") == "call" and nd["func"].get("k") == "path" and nd["func"]["path"][-1] in names and (len(nd["func"]["path"]) == 1 or nd["func"]["path"][-2] in ("Self", "Query", "Constraint", "Assignment")):
                        args = [unparse(strip(a)).replace(" ", "") for a in nd["args"]]
                        if any(a in ("depth+1", "(depth+1)") for a in args):
                            plus = True
                        elif "depth" not in args:
                            bad_call = "%s calls %s without handing on its depth (line %s)" % (f.name, nd["func"]["path"][-1], nd.get("l"))
            if not guard:
                why = "no member refuses to go on when a depth counter reaches a constant"
            elif not plus:
                why = "no call inside the cycle increases the depth counter"
            elif bad_call:
                why = bad_call
        r.hit("cycle:" + key[:80], sample={"cycle": comp, "bounded_by_depth_counter": why is None})
        if why:
            ctx.report(r, "cycle:" + key, "the parser functions %s can call each other in a cycle that follows the nesting of the input, and %s: a query text with enough nested blocks recurses until the stack overflows, which aborts the process instead of returning a syntax error" % ([mirq.short_fn(x) for x in comp], why), prog.bodies[comp[0]].file, prog.bodies[comp[0]].line)
    ctx.floor(r, n, 2, "call-graph cycles reachable from the parser")


def constraint_parser_nodes(syn):
    """the syntax-tree nodes of Constraint::parse and of the functions of the same impl it hands on to (`Self::name(..)`):
    a depth-carrying helper holds the arms since the nesting bound"""
    cparse = syn.fn("parse", self_ty="Constraint")
    impl_fns = dict((f.name, f) for f in syn.fns if (f.self_ty or "").split("<")[0] == "Constraint" and f.file == cparse.file and f.body is not None and f.trait is None)
    bodies, todo = [], [cparse]
    while todo:
        f = todo.pop()
        if any(f is g for g in bodies):
            continue
        bodies.append(f)
        for c in walk(f.body):
            if c.get("k") == "call" and c["func"].get("k") == "path" and len(c["func"]["path"]) == 2 and c["func"]["path"][0] in ("Self", "Constraint") and c["func"]["path"][1] in impl_fns:
                todo.append(impl_fns[c["func"]["path"][1]])
    return [n for f in bodies for n in walk(f.body)]


def leading_kw(s):
    m = re.match(r"^([A-Z]{2,})\b", s)
    return m.group(1) if m else None


def run(ctx):
    prog = mirq.Program(ctx.facts.mir())
    syn = Syn(ctx.facts.syn())
    ctx.not_decided += ["that parse(print(q)) has the same meaning as q (only keyword-table agreement is decided)",
                        "panics inside foreign crates (regex, chrono) on arguments the parser passes them",
                        "escaping of quotes inside printed string literals"]
    ctx.assumptions += ["lengths and counters never reach usize::MAX (x + small constant cannot overflow)",
                        "rules/panic_safe.json lines were reviewed by reading the pinned source; each names one panic source"]

    r_total = ctx.rule("C09.TOTAL", "no undischarged panic source is reachable from Query::parse / Constraint::parse / Assignment::parse / TryFrom<&str> for Query")
    roots = [b.id for b in prog.find_bodies(ENTRY_RX)]
    if len(roots) < 4:
        ctx.anchor_missing(r_total, "parser entry points (found %d of 4)" % len(roots))
    reach_total = total_rule(ctx, r_total, prog, roots, load_safe("C09"), 40, 40)
    recur_rule(ctx, prog, reach_total, syn)

    ws_rule(ctx, syn)
    limit_rule(ctx, syn)
    argtype_rule(ctx, syn)
    align_rule(ctx, syn)
    cursor_rule(ctx, syn)
    print_rule(ctx, syn)
    sep_rule(ctx, syn)
    stopset_rule(ctx, syn)
    from c09rt import roundtrip_rule, query_roundtrip_rule
    roundtrip_rule(ctx, syn)
    query_roundtrip_rule(ctx, syn)
    lossless_rule(ctx, syn)
    verbatim_rule(ctx, syn)
    resulttype_rule(ctx, syn)

    # ---------------- keyword tables
    r_kw = ctx.rule("C09.KW", "every keyword a printer can emit is accepted by the parser")
    cparse = syn.fn("parse", self_ty="Constraint")
    cprint = syn.fn("to_string", self_ty="Constraint")
    ctx.functions_analysed.update([cparse.qual, cprint.qual])
    cparse_nodes = constraint_parser_nodes(syn)
    parsed = set()
    for n in cparse_nodes:
        if n.get("k") == "arm":
            for p in walk(n["pat"]):
                if p.get("k") == "pat" and p.get("p") == "tuplestruct" and p["path"][-1] == "Some":
                    for q in walk(p):
                        if q.get("k") == "lit" and q.get("t") == "str":
                            parsed.add(q["v"])
    printed = {}
    for n in walk(cprint.body):
        if n.get("k") == "lit" and n.get("t") == "str":
            kw = leading_kw(n["v"])
            if kw:
                printed.setdefault(kw, n["l"])
    for kw, line in sorted(printed.items()):
        r_kw.hit("constraint:" + kw)
        if kw not in parsed:
            ctx.report(r_kw, "constraint:" + kw, "Constraint::to_string prints keyword %s but Constraint::parse has no arm for it" % kw, cprint.file, line)
    ctx.floor(r_kw, len(printed), 9, "constraint keywords printed")

    # relation operators
    opstr = syn.fn("as_str", self_ty="TextSelectionOperator")
    op_printed = {}
    for n in walk(opstr.body):
        if n.get("k") == "arm" and n["body"].get("k") == "lit":
            op_printed[n["body"]["v"]] = n["l"]
    op_parsed = set()
    for n in cparse_nodes:
        if n.get("k") == "match":
            lits = [a["pat"]["lit"]["v"] for a in n["arms"] if a["pat"].get("p") == "lit" and a["pat"]["lit"].get("t") == "str"]
            if "EMBEDS" in lits or "OVERLAPS" in lits:
                op_parsed.update(lits)
    if not op_parsed:
        ctx.anchor_missing(r_kw, "relation operator table in Constraint::parse")
    for kw, line in sorted(op_printed.items()):
        r_kw.hit("relation:" + kw)
        if kw not in op_parsed:
            ctx.report(r_kw, "relation:" + kw, "TextSelectionOperator::as_str prints %s but the RELATION parser does not accept it" % kw, opstr.file, line)
    ctx.floor(r_kw, len(op_printed), 12, "relation keywords printed")

    # query types
    qt = syn.fn("as_str", self_ty="QueryType")
    pwa = syn.fn("parse_with_attributes", self_ty="Query")
    qparsed = set()
    for n in walk(pwa.body):
        if n.get("k") == "pat" and n.get("p") == "tuplestruct" and n["path"][-1] == "Some":
            for q in walk(n):
                if q.get("k") == "lit" and q.get("t") == "str":
                    qparsed.add(q["v"])
    for n in walk(qt.body):
        if n.get("k") == "arm" and n["body"].get("k") == "lit":
            kw = n["body"]["v"]
            r_kw.hit("querytype:" + kw)
            if kw not in qparsed:
                ctx.report(r_kw, "querytype:" + kw, "QueryType::as_str prints %s but Query::parse does not accept it" % kw, qt.file, n["l"])

    # data operators: symbols printed by DataOperator::to_string vs first element of the tuple patterns of parse_dataoperator
    dto = syn.find_fns(name="to_string", self_ty="DataOperator")
    pdo = syn.find_fns(name="parse_dataoperator")
    if len(dto) == 1 and len(pdo) == 1:
        accepted = set()
        for n in walk(pdo[0].body):
            if n.get("k") == "pat" and n.get("p") == "tuple" and n["elems"] and n["elems"][0].get("p") == "lit":
                accepted.add(n["elems"][0]["lit"]["v"])
        syms = {}
        for n in walk(dto[0].body):
            if n.get("k") == "lit" and n.get("t") == "str":
                m = re.match(r"^\s*(!=|<=|>=|=|<|>)\s", n["v"] + " ")
                if m:
                    syms.setdefault(m.group(1), n["l"])
        for sym, line in sorted(syms.items()):
            r_kw.hit("dataoperator:" + sym)
            if sym not in accepted:
                ctx.report(r_kw, "dataoperator:" + sym, "DataOperator::to_string prints operator %s but parse_dataoperator has no arm for it" % sym, dto[0].file, line)
        ctx.functions_analysed.update([dto[0].qual, pdo[0].qual])
    else:
        ctx.anchor_missing(r_kw, "DataOperator::to_string / parse_dataoperator")

    # selection qualifiers: " AS METADATA" etc. must be parseable by parse_qualifiers
    sq = syn.find_fns(name="as_str", self_ty="SelectionQualifier")
    pq = syn.find_fns(name="parse_qualifiers")
    if len(sq) == 1 and len(pq) == 1:
        qlits = set()
        for n in walk(pq[0].body):
            if n.get("k") == "lit" and n.get("t") == "str":
                qlits.update(re.findall(r"[A-Z]{2,}", n["v"]))
        for n in walk(sq[0].body):
            if n.get("k") == "arm" and n["body"].get("k") == "lit" and n["body"]["v"].strip():
                words = re.findall(r"[A-Z]{2,}", n["body"]["v"])
                r_kw.hit("qualifier:" + " ".join(words))
                missing = [w for w in words if w not in qlits]
                if missing:
                    ctx.report(r_kw, "qualifier:" + " ".join(words), "SelectionQualifier::as_str prints '%s' but parse_qualifiers does not mention %s" % (n["body"]["v"], missing), sq[0].file, n["l"])


# ---------------------------------------------------------------------- WS and LIMIT
def ws_rule(ctx, syn):
    """the parser has one notion of whitespace.  Several slices (`&querystring[1..]` after a test on
    `querystring.trim_start()`) are safe only because every remainder handed on was stripped with the
    same Unicode-aware trim_start(); stripping with an ASCII character set anywhere breaks that."""
    r = ctx.rule("C09.WS", "the parser strips whitespace with one definition of whitespace (str::trim_start / trim / trim_end) everywhere")
    consts = {}
    for name, c in syn.consts.items():
        if c.get("_file") == "src/api/query.rs":
            consts[name] = unparse(c.get("value") or c.get("e") or {}) if isinstance(c.get("value") or c.get("e"), dict) else str(c.get("value") or "")
    n_trim = 0
    for f in syn.fns:
        if f.file != "src/api/query.rs" or f.body is None:
            continue
        if not (f.name.startswith("parse") or f.name in ("get_arg", "try_from", "closed")):
            continue
        ctx.functions_analysed.add(f.qual)
        cnt = {}
        for c in find(f.body, "mcall"):
            if c["method"] in ("trim_start", "trim_end", "trim") and not c["args"]:
                n_trim += 1
                r.hit("%s|%s#%d" % (f.name, c["method"], n_trim))
            if c["method"] in ("trim_start_matches", "trim_end_matches", "trim_matches", "strip_prefix") and c["args"]:
                a = unparse(strip_(c["args"][0]))
                isws = False
                if a in consts and ("' '" in consts[a] or "\\n" in consts[a] or not consts[a]):
                    isws = True
                if re.search(r"' '|\" \"|char::is_whitespace|is_ascii_whitespace", a):
                    isws = True
                if a.isupper() and a in syn.consts:
                    isws = True
                cnt[c["method"]] = cnt.get(c["method"], 0) + 1
                if isws:
                    ctx.report(r, "%s|%s(%s)#%d" % (f.name, c["method"], a, cnt[c["method"]]), "%s strips whitespace with %s(%s), a different (narrower) notion of whitespace than the trim_start() the rest of the parser relies on: a remainder can keep a leading non-ASCII space and the next `[1..]` slice then cuts a character in two" % (f.qual, c["method"], a), f.file, c.get("l"))
    ctx.floor(r, n_trim, 25, "trim_start()/trim() sites in the parser")


def strip_(e):
    from synq import strip
    return strip(e)


def limit_rule(ctx, syn):
    """print/parse fixpoint of the LIMIT constraint: finite evaluation of the printer arm and of the
    parser arm on every (begin, end) in [-3, 3]^2"""
    from formula import Evaluator, Unknown, Panic, StructVal, EnumVal, SInt, ok, err, some
    r = ctx.rule("C09.LIMIT", "parse(print(LIMIT begin end)) == (begin, end) for every sign combination")
    cparse = syn.fn("parse", self_ty="Constraint")
    cprint = syn.fn("to_string", self_ty="Constraint")
    closed = syn.fn("closed", self_ty="Constraint")
    parm = None
    for n in constraint_parser_nodes(syn):
        if n.get("k") == "arm" and re.sub(r"\s+", "", n["pat"]["s"]) == 'Some("LIMIT")':
            parm = n
    prm = None
    for n in walk(cprint.body):
        if n.get("k") == "arm" and re.sub(r"\s+", "", n["pat"]["s"]).startswith("Self::Limit{"):
            prm = n
    if parm is None or prm is None:
        ctx.anchor_missing(r, "LIMIT arms of Constraint::parse / Constraint::to_string")
        return

    def fmt_hook(ev, node, env):
        args = node.get("args") or []
        if not args or args[0].get("k") != "lit":
            raise Unknown("format! without literal")
        out = args[0]["v"]
        for a in args[1:]:
            v = ev.eval(a, env)
            out = out.replace("{}", str(int(v)) if isinstance(v, int) and not isinstance(v, bool) else str(v), 1)
        return out.replace("{{", "{").replace("}}", "}")

    def get_arg(ev, recv, args, node, env):
        q = args[0]
        m = re.match(r"([^ ;\n\t\]]+)(.*)$", q, re.S)
        if not m:
            return err("syntax")
        return ok((m.group(1), m.group(2).lstrip(), EnumVal("Integer")))
    from props.c10 import base_hooks
    hooks = base_hooks()
    hooks["macro:format"] = fmt_hook
    hooks["call:get_arg"] = get_arg
    hooks["map_err"] = lambda ev, recv, args, node, env: recv
    hooks["trim_start"] = lambda ev, recv, args, node, env: recv.lstrip() if isinstance(recv, str) else NotImplemented

    def h_closed(ev, recv, args, node, env):
        sub = Evaluator(hooks=hooks)
        return sub.run_body(closed.body, {"querystring": args[0]})
    hooks["call:Self::closed"] = h_closed
    reported = set()
    n = 0
    for b in range(-3, 4):
        for e in range(-3, 4):
            try:
                ev = Evaluator(hooks=hooks)
                env = {"s": "", "begin": SInt(b), "end": SInt(e)}
                holder = {}

                def assign(name, val, env=env):
                    env[name] = val
                env["__assign__"] = assign
                ev.eval(prm["body"], env)
                text = env["s"]
                ev = Evaluator(hooks=hooks)
                val = ev.run_body({"k": "block", "stmts": [{"k": "exprstmt", "e": parm["body"], "semi": False}]}, {"querystring": text.strip()})
            except (Unknown, Panic) as ex:
                if "unevaluated" not in reported:
                    reported.add("unevaluated")
                    ctx.report(r, "unevaluated", "the LIMIT arms of the printer / parser could not be evaluated (%s): their agreement is not established" % ex, cparse.file, parm.get("l"))
                continue
            n += 1
            got = (val.get("begin"), val.get("end")) if isinstance(val, dict) else val
            r.hit("%d,%d" % (b, e), sample={"constraint": (b, e), "printed": text.strip(), "parsed": repr(got)} if (b, e) in ((0, -2), (1, 2), (-2, 0), (0, 2)) else None)
            if got != (b, e):
                sign = lambda x: "neg" if x < 0 else ("zero" if x == 0 else "pos")
                key = "begin-%s,end-%s" % (sign(b), sign(e))
                if key not in reported:
                    reported.add(key)
                    ctx.report(r, key, "Constraint::Limit{begin:%d,end:%d} prints as `%s`, which parses back as %r" % (b, e, text.strip(), got), cprint.file, prm.get("l"))
    ctx.floor(r, n, 49, "LIMIT print/parse evaluations")


def argtype_rule(ctx, syn):
    """get_arg_type classifies an argument and parse_dataoperator trusts the class (unreachable!/expect
    on the 'impossible' cases).  The two are evaluated together on a grid of argument texts: the
    composition must never reach a panic source, whatever the text."""
    from formula import Evaluator, Unknown, Panic, EnumVal, ok, err, some, is_some
    from props.c10 import base_hooks, closure_call
    r = ctx.rule("C09.ARGTYPE", "parse_dataoperator(op, text, get_arg_type(text, quoted)) reaches no panic source for any argument text: the classifier and its consumer agree on what each class guarantees")
    fns = {}
    for name in ("get_arg_type", "parse_dataoperator", "parse_int_arg", "parse_float_arg"):
        c = [f for f in syn.fns if f.name == name and f.file == "src/api/query.rs" and f.body is not None]
        if len(c) != 1:
            if name in ("get_arg_type", "parse_dataoperator"):
                ctx.anchor_missing(r, "fn " + name)
                return
            continue
        fns[name] = c[0]
        ctx.functions_analysed.add(c[0].qual)
    hooks = base_hooks()
    hooks["chars"] = lambda ev, recv, args, node, env: list(recv) if isinstance(recv, str) else NotImplemented
    hooks["is_ascii_digit"] = lambda ev, recv, args, node, env: (len(recv) == 1 and recv in "0123456789") if isinstance(recv, str) else NotImplemented
    hooks["to_ascii_lowercase"] = lambda ev, recv, args, node, env: recv.lower() if isinstance(recv, str) else NotImplemented
    hooks["eq_ignore_ascii_case"] = lambda ev, recv, args, node, env: recv.lower() == args[0].lower() if isinstance(recv, str) else NotImplemented
    hooks["call:Box::new"] = lambda ev, recv, args, node, env: args[0]
    hooks["map_err"] = lambda ev, recv, args, node, env: recv
    hooks["split"] = lambda ev, recv, args, node, env: recv.split(args[0]) if isinstance(recv, str) and isinstance(args[0], str) else NotImplemented
    hooks["collect"] = lambda ev, recv, args, node, env: recv if isinstance(recv, list) else NotImplemented
    hooks["macro:format"] = lambda ev, node, env: "<msg>"

    def h_map(ev, recv, args, node, env):
        if isinstance(recv, list) and args and isinstance(args[0], tuple) and args[0][0] == "closure":
            return [closure_call(ev, args[0], [x], env) for x in recv]
        return NotImplemented
    hooks["map"] = h_map

    def h_expect(ev, recv, args, node, env):
        if isinstance(recv, tuple) and recv and recv[0] == "ok":
            return recv[1]
        if isinstance(recv, tuple) and recv and recv[0] == "err":
            raise Panic("expect-on-err", node.get("l"))
        if is_some(recv):
            return recv[1]
        if recv is None:
            raise Panic("expect-on-none", node.get("l"))
        return NotImplemented
    hooks["expect"] = h_expect
    hooks["unwrap"] = h_expect
    for helper in ("parse_int_arg", "parse_float_arg"):
        if helper in fns:
            def mk(hf):
                out_ty = re.sub(r"\s+", "", (hf.sig.get("output") or {}).get("s", ""))
                want = "f64" if "f64" in out_ty else "isize"

                def h(ev, recv, args, node, env):
                    params = [p["pat"].get("name") for p in hf.sig["inputs"]]
                    hk = dict(hooks)
                    base_parse = hooks["parse"]

                    def parse2(ev2, recv2, args2, node2, env2):
                        if not (node2.get("turbofish") or "").strip():
                            node2 = dict(node2, turbofish="::<%s>" % want)   # inferred from the helper's return type
                        return base_parse(ev2, recv2, args2, node2, env2)
                    hk["parse"] = parse2
                    return Evaluator(hooks=hk).run_body(hf.body, dict(zip(params, args)))
                return h
            hooks["call:" + helper] = mk(fns[helper])
    texts = ["", "true", "false", "True", "FALSE", "tRuE", "null", "NULL", "Null", "any", "ANY", "0", "-1", "12", "-", "--1", "1-2", "1.5", "-2.5", "1.2.3", ".", "1.", "99999999999999999999999",
             "abc", "a|b", "1|2", "1|x|2.5", "|", "T10", "t10", "T10x", "yes", "é", "truee"]
    ops = ["=", "!=", ">", ">=", "<", "<=", "~"]
    reported = set()
    n = 0
    gat = fns["get_arg_type"]
    pdo = fns["parse_dataoperator"]
    for text in texts:
        for quoted in (False, True):
            try:
                vt = Evaluator(hooks=hooks).run_body(gat.body, {"s": text, "quoted": quoted})
            except Panic as p:
                k2 = "classifier-panic:%s" % p.kind
                if k2 not in reported:
                    reported.add(k2)
                    ctx.report(r, k2, "get_arg_type(%r, quoted=%s) reaches a panic source (%s, line %s)" % (text, quoted, p.kind, p.line), gat.file, p.line)
                continue
            except Unknown as u:
                if "unevaluated" not in reported:
                    reported.add("unevaluated")
                    ctx.report(r, "unevaluated", "get_arg_type could not be evaluated (%s) on %r: the agreement with parse_dataoperator is not established" % (u, text), gat.file, gat.line)
                continue
            for op in ops:
                n += 1
                try:
                    Evaluator(hooks=hooks).run_body(pdo.body, {"opstr": op, "value": text, "valuetype": vt})
                except Panic as p:
                    k2 = "%s:%s" % (vt.name if isinstance(vt, EnumVal) else "?", p.kind)
                    if k2 not in reported:
                        reported.add(k2)
                        ctx.report(r, k2, "the argument %r (quoted=%s) is classified as %r and parse_dataoperator(%r, ..) then reaches %s at line %s: a query text makes the parser panic" % (text, quoted, vt, op, p.kind, p.line), pdo.file, p.line, {"text": text, "quoted": quoted, "class": repr(vt)})
                except Unknown as u:
                    if "unevaluated" not in reported:
                        reported.add("unevaluated")
                        ctx.report(r, "unevaluated", "parse_dataoperator could not be evaluated (%s) on (%r, %r, %r): the agreement with get_arg_type is not established" % (u, op, text, vt), pdo.file, pdo.line)
            r.hit("text:%s/%s" % (text, quoted), sample={"text": text, "quoted": quoted, "class": repr(vt)} if text in ("True", "1.2.3", "T10", "a|b") else None)
    ctx.floor(r, n, 400, "classifier/consumer evaluations")
    # every class the consumer has arms for is reachable, and the literal the printer emits for a numeric operator is read
    # back in the class of that operator (C09.LOSSLESS pins the printer to a bare {}: Rust prints 2.5 as "2.5", 3.0 as "3")
    classes = {}
    for text in texts + ["0.5", "2.5", "-1.5", "10.25", "3", "-7"]:
        try:
            vt = Evaluator(hooks=hooks).run_body(gat.body, {"s": text, "quoted": False})
            if isinstance(vt, EnumVal):
                classes.setdefault(vt.name, text)
        except (Unknown, Panic):
            pass
    want = set(v["name"] for v in syn.enums["ArgType"]["variants"]) - {"List"} if "ArgType" in syn.enums else set()
    r.hit("classes", sample={"unquoted_classes_reached": dict(sorted(classes.items()))})
    for missing in sorted(want - set(classes)):
        ctx.report(r, "class-unreachable:" + missing, "no unquoted argument text is ever classified as ArgType::%s: the arms of parse_dataoperator for that class are dead, so e.g. the literal the printer emits for an operator of that kind is read back as another kind (or rejected)" % missing, gat.file, gat.line)
    for text, cls in (("0.5", "Float"), ("2.5", "Float"), ("-1.5", "Float"), ("10.25", "Float"), ("3", "Integer"), ("-7", "Integer")):
        try:
            vt = Evaluator(hooks=hooks).run_body(gat.body, {"s": text, "quoted": False})
        except (Unknown, Panic):
            continue
        r.hit("printed:" + text)
        if not (isinstance(vt, EnumVal) and vt.name == cls):
            ctx.report(r, "printed-literal:" + cls, "the numeric literal %s (what DataOperator::to_string prints for a %s operand) is classified as %r: `> %s` printed from a programmatic query is not parsed back as the same comparison" % (text, cls.lower(), vt, text), gat.file, gat.line)


def align_rule(ctx, syn):
    """fields that are consumed zipped together (`self.a.iter().zip(self.b.iter())`) run parallel: every
    function that grows one must grow the other, otherwise the zip silently drops the tail (the printer
    then omits constraints)"""
    from synq import strip
    r = ctx.rule("C09.ALIGN", "vectors that are zipped by the printer grow together in every function that grows one of them")
    pairs = set()
    for f in syn.fns:
        if f.file != "src/api/query.rs" or f.body is None:
            continue
        for c in find(f.body, "mcall"):
            if c["method"] == "zip" and c["args"]:
                a = re.fullmatch(r"self\.(\w+)\.iter\(\)", unparse(strip(c["recv"])))
                b = re.fullmatch(r"self\.(\w+)\.iter\(\)", unparse(strip(c["args"][0])))
                if a and b:
                    pairs.add((f.self_ty, tuple(sorted((a.group(1), b.group(1))))))
    for ty, (a, b) in sorted(pairs):
        for f in syn.fns:
            if f.file != "src/api/query.rs" or f.body is None or f.self_ty != ty:
                continue
            grow = {a: 0, b: 0}
            for c in find(f.body, "mcall"):
                if c["method"] in ("push", "extend", "insert", "append"):
                    m = re.fullmatch(r"self\.(\w+)", unparse(strip(c["recv"])))
                    if m and m.group(1) in grow:
                        grow[m.group(1)] += 1
            if grow[a] or grow[b]:
                ctx.functions_analysed.add(f.qual)
                r.hit("%s|%s/%s" % (f.qual, a, b), sample={"function": f.qual, "grows": grow})
                if grow[a] != grow[b]:
                    ctx.report(r, "%s|%s/%s" % (f.qual, a, b), "%s grows `%s` %d time(s) but `%s` %d time(s); the two are consumed zipped (to_string), so items beyond the shorter one are silently dropped" % (f.qual, a, grow[a], b, grow[b]), f.file, f.line)
    ctx.floor(r, len(pairs), 1, "zipped field pairs")


def cursor_rule(ctx, syn):
    """the parser threads one cursor: `let (arg, remainder, _) = get_arg(q)?` consumes q; the next argument must
    be read from `remainder` (or from q after `q = remainder`).  Reading from q again re-reads the same
    argument - the keyword just parsed is taken for the next argument."""
    from synq import walk, unparse, strip, pat_names
    r = ctx.rule("C09.CURSOR", "no parser function reads an argument twice from the same, already consumed input position (each get_arg/parse_name/... continues from the previous remainder)")
    READERS = ("get_arg", "parse_name", "parse_offset", "parse_attributes", "parse_qualifiers", "parse_text_qualifiers")
    n = 0

    def call_reader(e):
        e = strip(e)
        while e.get("k") == "try":
            e = strip(e["e"])
        if e.get("k") == "call":
            fn = unparse(e["func"]).split("::")[-1]
            if fn in READERS and e["args"]:
                a = strip(e["args"][-1])
                if a.get("k") == "path" and len(a["path"]) == 1:
                    return fn, a["path"][0]
        return None

    def scan(block, stale, f):
        nonlocal n
        stale = set(stale)
        for st in block["stmts"]:
            k = st.get("k")
            e = st.get("init") if k == "let" else (st.get("e") if k == "exprstmt" else None)
            if e is None:
                continue
            # nested control flow inherits the stale set (each branch separately)
            for sub in walk(e):
                if sub.get("k") in ("if", "match", "for", "while", "loop", "blockexpr") and sub is not e:
                    pass
            cr = call_reader(e) if k == "let" else None
            if cr:
                fn, src = cr
                n += 1
                r.hit("%s|%s(%s)#%d" % (f.qual, fn, src, n))
                if src in stale:
                    ctx.report(r, "%s|%s(%s)" % (f.qual, fn, src), "%s reads another argument with %s(%s) although `%s` was already consumed by an earlier read whose remainder was bound to a new name: the same text is read again (a qualifier keyword is then taken for the next argument)" % (f.qual, fn, src, src), f.file, st.get("l"))
                bound = pat_names(st["pat"])
                if src not in bound:
                    stale.add(src)
                for b_ in bound:
                    stale.discard(b_)
            elif k == "let":
                for b_ in pat_names(st["pat"]):
                    stale.discard(b_)
            ex = strip(e)
            if ex.get("k") == "assign" and ex["left"].get("k") == "path" and len(ex["left"]["path"]) == 1:
                stale.discard(ex["left"]["path"][0])
            # descend
            for sub in ([ex] if ex.get("k") in ("if", "match", "for", "while", "loop", "blockexpr") else []):
                descend(sub, stale, f)
        return stale

    def descend(e, stale, f):
        k = e.get("k")
        if k == "if":
            scan(e["then"], stale, f)
            if e.get("else") is not None:
                descend(strip(e["else"]), stale, f)
        elif k == "blockexpr":
            scan(e["block"], stale, f)
        elif k == "match":
            for a in e["arms"]:
                b = strip(a["body"])
                if b.get("k") == "blockexpr":
                    scan(b["block"], stale, f)
        elif k in ("for", "while", "loop"):
            scan(e["body"], stale, f)
    for f in syn.fns:
        if f.file != "src/api/query.rs" or f.body is None or not (f.name.startswith("parse") or f.name in ("try_from",)):
            continue
        ctx.functions_analysed.add(f.qual)
        scan(f.body, set(), f)
    ctx.floor(r, n, 25, "argument reads in the parser")


def print_rule(ctx, syn):
    """Query::to_string writes out every part of a query that the parser reads: a field of Query that the
    printer never touches is lost by print -> parse"""
    from synq import walk, find, unparse, strip
    r = ctx.rule("C09.PRINT", "Query::to_string uses every field of Query that the parser fills (directly or through its accessor), and separates sub-queries")
    st = syn.structs.get("Query")
    ts = [f for f in syn.fns if f.name == "to_string" and (f.self_ty or "").startswith("Query") and f.file == "src/api/query.rs" and f.body is not None]
    if st is None or len(ts) != 1:
        ctx.anchor_missing(r, "struct Query / Query::to_string")
        return
    ts = ts[0]
    ctx.functions_analysed.add(ts.qual)
    src = unparse(ts.body)
    # accessor -> field
    acc = {}
    for f in syn.fns:
        if (f.self_ty or "").startswith("Query") and f.file == "src/api/query.rs" and f.body is not None and not f.sig["inputs"]:
            m = re.findall(r"self\.(\w+)", unparse(f.body))
            if m and len(set(m)) == 1:
                acc.setdefault(f.name, m[0])
    used = set(re.findall(r"self\.(\w+)\b(?!\()", src))
    for name, fld in acc.items():
        if re.search(r"self\.%s\(\)" % name, src):
            used.add(fld)
    skip = {"contextvars": "bound programmatically, not part of the query text", "constraint_attributes": "printed through constraints_with_attributes()"}
    for fl in st["fields"]:
        nm = fl["name"]
        if nm in skip:
            continue
        r.hit("field:" + nm, sample={"field": nm, "printed": nm in used})
        if nm not in used:
            ctx.report(r, "field:" + nm, "Query::to_string never uses the field `%s` of Query: whatever the parser stores there is lost when a query is printed and parsed again" % nm, ts.file, ts.line)
    seps = [lp for lp in find(ts.body, "for") if "subqueries" in unparse(lp["iter"])]
    r.hit("subquery-separator")
    if not seps or not any("|" in (lit.get("v") or "") for lp in seps for lit in walk(lp["body"]) if lit.get("k") == "lit" and lit.get("t") in ("str", "char")):
        ctx.report(r, "subquery-separator", "Query::to_string writes several sub-queries without the `|` separator the parser requires between them", ts.file, ts.line)


# ---------------------------------------------------------------------- SEP
SEP_GLUE = {"?": "the variable sigil: `?` and the name that follows are one token"}
SEP_CHARWISE = {("}", "}"): "parse_subqueries reads a closing brace by character (chars().nth(0) == Some('}')), so `}}` closes two blocks"}


def sep_rule(ctx, syn):
    """The parser tokenises on whitespace only (QUERYSPLITCHARS): `?a{`, `RESOURCE{` or `?t}` are one token to it. So in
    the text Query::to_string builds, every piece that starts a new token has to follow whitespace. Decided by an abstract
    interpretation of the function over {start, whitespace, token} as the class of the last character written so far;
    a loop body is joined to a fixpoint (zero or more iterations), branches are joined, the recursive call for a
    sub-query ends in whatever this function can end in."""
    from synq import walk, unparse, strip
    r = ctx.rule("C09.SEP", "in Query::to_string every piece that starts a token (keyword, brace, `|`, a printed constraint or sub-query) is written after whitespace on every path; only the `?` sigil is glued to what follows")
    ts = [f for f in syn.fns if f.name == "to_string" and (f.self_ty or "").startswith("Query") and f.file == "src/api/query.rs" and f.body is not None]
    if len(ts) != 1:
        ctx.anchor_missing(r, "Query::to_string")
        return
    ts = ts[0]
    ctx.functions_analysed.add(ts.qual)
    buf = None
    for st in ts.body["stmts"]:
        if st.get("k") == "let" and st.get("init") is not None and unparse(st["init"]).replace(" ", "") == "String::new()":
            buf = st["pat"].get("name")
            break
    if buf is None:
        ctx.anchor_missing(r, "Query::to_string: `let mut s = String::new()`")
        return
    WS = "ws"
    self_end = {"tok:dyn"}       # what a printed sub-query can end in: grows to a fixpoint below
    problems = {}
    pieces = [0]

    def is_buf(e):
        e = strip(e)
        return e.get("k") == "path" and e.get("s") == buf

    def piece_of(e):
        """-> (first, last): 'ws' | 'tok:<c>' | 'tok:dyn' | 'tok:self' ; None for an empty literal"""
        e0 = e
        while isinstance(e0, dict) and e0.get("k") in ("ref", "paren", "try"):
            e0 = e0["e"]
        if e0.get("k") == "lit" and e0.get("t") in ("str", "char"):
            v = e0.get("v") or ""
            if not v:
                return None
            cls = lambda c: WS if c in " \n\r\t" else "tok:" + c
            return cls(v[0]), cls(v[-1])
        if e0.get("k") == "mcall" and e0["method"] == "to_string" and not e0["args"]:
            rv = unparse(e0["recv"])
            if "subquer" in rv:
                return "tok:dyn", "tok:self"
        return "tok:dyn", "tok:dyn"

    def append(state, e, node):
        pc = piece_of(e)
        if pc is None:
            return state
        pieces[0] += 1
        first, last = pc
        if first != WS:
            for prev in sorted(state):
                if prev.startswith("tok:"):
                    if first == "tok:dyn" and prev[4:] in SEP_GLUE:
                        continue
                    if (prev[4:], first[4:]) in SEP_CHARWISE:
                        continue
                    what = unparse(e)[:40].replace("\n", "\\n").replace("\t", "\\t")
                    problems.setdefault("%s after %s" % (what, "a printed sub-query / name / keyword" if prev == "tok:dyn" else "`%s`" % prev[4:]), (node.get("l"), what, prev))
        if last == "tok:self":
            return set(self_end)
        return {last}

    def cond_refines(cond):
        """`!s.ends_with(<ws char>)`: the fall-through (condition false) state is 'whitespace'"""
        c = strip(cond)
        if c.get("k") == "unary" and c.get("op") == "!":
            m = strip(c["e"])
            if m.get("k") == "mcall" and m["method"] == "ends_with" and is_buf(m["recv"]) and len(m["args"]) == 1:
                a = strip(m["args"][0])
                if a.get("k") == "lit" and (a.get("v") or "x") in (" ", "\n", "\t", "\r"):
                    return True
        return False

    def run_block(b, state):
        for st in b.get("stmts", []):
            state = run_stmt(st, state)
        return state

    def run_stmt(st, state):
        k = st.get("k")
        if k == "let":
            if st.get("init") is not None and any(is_buf(x) for x in walk(st["init"]) if isinstance(x, dict) and x.get("k") == "path") and unparse(st["init"]).replace(" ", "") != "String::new()":
                problems.setdefault("unmodelled:let", (st.get("l"), unparse(st["init"])[:40], ""))
            return state
        if k == "exprstmt":
            return run_expr(st["e"], state)
        return state

    def run_expr(e, state):
        k = e.get("k")
        if k == "binary" and e.get("op") == "+=" and is_buf(e["left"]):
            return append(state, e["right"], e)
        if k == "mcall" and is_buf(e["recv"]) and e["method"] in ("push", "push_str") and len(e["args"]) == 1:
            return append(state, e["args"][0], e)
        if k == "for" or k == "while" or k == "loop":
            cur = set(state)
            for _ in range(8):
                out = run_block(e["body"], set(cur))
                nxt = cur | out
                if nxt == cur:
                    break
                cur = nxt
            return cur
        if k == "if":
            then = run_block(e["then"], set(state))
            if e.get("else") is not None:
                other = run_expr(e["else"], set(state)) if e["else"].get("k") != "block" else run_block(e["else"], set(state))
            elif cond_refines(e["cond"]):
                other = {WS}
            else:
                other = set(state)
            return then | other
        if k == "iflet":
            then = run_block(e["then"], set(state))
            other = set(state)
            if e.get("else") is not None:
                other = run_expr(e["else"], set(state)) if e["else"].get("k") != "block" else run_block(e["else"], set(state))
            return then | other
        if k == "match":
            out = set()
            for arm in e["arms"]:
                body = arm["body"]
                out |= run_expr(body, set(state))
            return out or state
        if k == "block":
            return run_block(e, state)
        if k == "blockexpr":
            return run_block(e["block"], state)
        if k in ("return", "call", "mcall", "macro", "path", "lit", "try"):
            if k in ("mcall", "call", "macro") and any(is_buf(x) for x in walk(e) if isinstance(x, dict) and x.get("k") == "path") and not (k == "call" and unparse(e["func"]).replace(" ", "") == "Ok"):
                problems.setdefault("unmodelled:%s" % unparse(e)[:30], (e.get("l"), unparse(e)[:40], ""))
            return state
        return state

    final = set()
    for _ in range(6):
        problems.clear()
        pieces[0] = 0
        final = run_block(ts.body, {"start"})
        new_end = {x for x in final if x != "start"} | {"tok:dyn"}
        if new_end == self_end:
            break
        self_end = new_end
    r.hit("Query::to_string", sample={"pieces": pieces[0], "can_end_in": sorted(final)})
    for key, (line, what, prev) in sorted(problems.items()):
        if key.startswith("unmodelled:"):
            ctx.report(r, key, "Query::to_string changes its buffer in a way this rule does not model (`%s`): token separation is not established" % what, ts.file, line)
        else:
            ctx.report(r, "glued:" + key, "Query::to_string can write `%s` directly after %s, without whitespace in between: the parser splits on whitespace only, so the two read as one token (a name like `a{`, a result type like `RESOURCE{`) and the printed query no longer parses to the same query" % (what, "a token that ends in a name, keyword or printed sub-query" if prev == "tok:dyn" else "`%s`" % prev[4:]), ts.file, line)
    ctx.floor(r, pieces[0], 15, "pieces written by Query::to_string")


# ---------------------------------------------------------------------- STOPSET
def stopset_rule(ctx, syn):
    """parse_select is the parser of a sub-query too (parse_subqueries calls it), where `}` or `|` follows the query. Its
    constraint loop stops at `{`, `}` and `|`; the WHERE-or-nothing decision just before it has to accept the same
    tokens, or a sub-query without constraints - which the printer writes and the loop is ready for - is a syntax error."""
    from synq import walk, unparse, strip
    r = ctx.rule("C09.STOPSET", "in parse_select every token at which the constraint loop stops (`{`, `}`, `|`) is accepted by the WHERE-or-nothing match before it")
    fns = [f for f in syn.fns if f.name == "parse_select" and (f.self_ty or "").startswith("Query") and f.file == "src/api/query.rs" and f.body is not None]
    if len(fns) != 1:
        ctx.anchor_missing(r, "Query::parse_select")
        return
    fn = fns[0]
    ctx.functions_analysed.add(fn.qual)
    stops = set()
    for lp in walk(fn.body):
        if lp.get("k") == "while" and any(c.get("k") == "call" and "Constraint" in unparse(c["func"]) and "parse" in unparse(c["func"]) for c in walk(lp["body"])):
            for b in walk(lp["cond"]):
                if b.get("k") == "binary" and b.get("op") == "!=":
                    for side in (b["left"], b["right"]):
                        for lit in walk(side):
                            if lit.get("k") == "lit" and lit.get("t") == "char":
                                stops.add(lit["v"])
    arms = None
    for m in walk(fn.body):
        if m.get("k") == "match":
            pats = [a["pat"].get("s") or "" for a in m["arms"]]
            if any('"WHERE"' in p for p in pats):
                arms = set()
                for a in m["arms"]:
                    body = a["body"]["block"] if a["body"].get("k") == "blockexpr" else a["body"]
                    if body.get("k") == "block" and not body.get("stmts"):
                        arms |= set(re.findall(r'Some\s*\(\s*"([^"]*)"\s*\)', a["pat"].get("s") or ""))
    if not stops or arms is None:
        ctx.anchor_missing(r, "parse_select: the constraint loop with its stop characters / the match on WHERE")
        return
    for c in sorted(stops):
        r.hit("stop:" + c, sample={"stop": c, "accepted_without_where": c in arms})
        if c not in arms:
            ctx.report(r, "stop:" + c, "parse_select stops reading constraints at `%s` but does not accept `%s` where WHERE is optional: a sub-query without constraints followed by `%s` (as Query::to_string prints it) is rejected with 'Expected WHERE'" % (c, c, c), fn.file, fn.line)
    ctx.floor(r, len(stops), 3, "stop characters of the constraint loop")


# ---------------------------------------------------------------------- LOSSLESS
LOSSLESS_DT = "to_rfc3339() or to_rfc3339_opts(SecondsFormat::AutoSi | Nanos, _): the full instant, in the notation DateTime::parse_from_rfc3339 reads"


def lossless_rule(ctx, syn):
    """DataOperator::to_string prints the payload of each operator as a literal the parser reads back to the same value.
    For the numeric and datetime payloads that is a property of the formatter alone: `{}` of an integer or float is exact
    (shortest round-trip), a precision/width specifier is not; a datetime is exact through to_rfc3339() only."""
    r = ctx.rule("C09.LOSSLESS", "DataOperator::to_string renders integer payloads with a bare {}, float payloads through a helper of the crate (neither bare {} nor bare {:?} is read back as the same float for every value; ROUNDTRIP evaluates the helper) and datetime payloads with to_rfc3339() (or an equally exact to_rfc3339_opts), directly or through a crate function that does")
    fs = [f for f in syn.fns if f.name == "to_string" and f.file == "src/datavalue.rs" and "DataOperator" in (f.self_ty or "")]
    if len(fs) != 1 or "DataOperator" not in syn.enums:
        ctx.anchor_missing(r, "DataOperator::to_string")
        return
    fn = fs[0]
    ctx.functions_analysed.add(fn.qual)
    payload = {}
    for v in syn.enums["DataOperator"]["variants"]:
        if len(v["fields"]) == 1:
            t = re.sub(r"\s+", "", v["fields"][0]["ty"]["s"])
            payload[v["name"]] = "datetime" if t.startswith("DateTime<") else "float" if t in ("f64", "f32") else "number" if t in ("isize", "i64", "usize") else None
    ms = [n for n in walk(fn.body) if n.get("k") == "match" and unparse(n["e"]) == "self"]
    if len(ms) != 1:
        ctx.anchor_missing(r, "match self in DataOperator::to_string")
        return
    local_fns = dict((f.name, f) for f in syn.fns if f.file == fn.file and f.impl is None)

    def exact_dt(e, var, depth=0):
        """is expression e an exact RFC 3339 rendering of variable var? returns (True, how) / (False, why)"""
        e = strip(e)
        if e.get("k") == "mcall" and strip(e["recv"]).get("k") == "path" and strip(e["recv"])["path"] == [var]:
            if e["method"] == "to_rfc3339" and not e["args"]:
                return True, "to_rfc3339()"
            if e["method"] == "to_rfc3339_opts" and e["args"]:
                a0 = strip(e["args"][0])
                if a0.get("k") == "path" and a0["path"][-1] in ("AutoSi", "Nanos"):
                    return True, "to_rfc3339_opts(%s, ..)" % a0["path"][-1]
                return False, "to_rfc3339_opts(%s, ..) truncates the sub-second part" % unparse(a0)
            return False, "%s.%s(..) is not a known exact RFC 3339 rendering" % (var, e["method"])
        if e.get("k") == "call" and strip(e["func"]).get("k") == "path" and len(e["args"]) == 1 and depth < 3:
            g = local_fns.get(strip(e["func"])["path"][-1])
            a = strip(e["args"][0])
            if g is not None and g.body and a.get("k") == "path" and a["path"] == [var]:
                pn = g.sig["inputs"][0]["pat"].get("name")
                tail = None
                st = g.body["stmts"]
                if len(st) == 1 and st[0]["k"] == "exprstmt" and not st[0].get("semi"):
                    tail = st[0]["e"]
                if tail is None or pn is None:
                    return False, "helper %s is not a single expression" % g.name
                ok_, how = exact_dt(tail, pn, depth + 1)
                return ok_, "%s: %s" % (g.name, how)
        if e.get("k") == "path" and e["path"] == [var]:
            return False, "Display of DateTime is not RFC 3339"
        return False, "%s is not a known exact RFC 3339 rendering" % unparse(e)[:60]
    n = 0
    for a in ms[0]["arms"]:
        pat = a["pat"]
        if pat.get("p") != "tuplestruct" or not pat.get("path"):
            continue
        kind = payload.get(pat["path"][-1])
        names = pat_names(pat)
        if kind is None or len(names) != 1:
            continue
        var = names[0]
        fm = [m for m in walk(a["body"]) if m.get("k") == "macro" and m["name"] == "format" and m.get("args")]
        key = pat["path"][-1]
        n += 1
        r.hit(key, sample={"variant": key, "payload": kind, "rendered_by": unparse(a["body"])[:80]})
        if len(fm) != 1 or strip(fm[0]["args"][0]).get("k") != "lit":
            ctx.report(r, "shape:" + key, "the arm DataOperator::%s of to_string is not a single format!(literal, ..): how the payload is rendered is not established" % key, fn.file, a["l"])
            continue
        spec = re.findall(r"\{[^}]*\}", strip(fm[0]["args"][0])["v"].replace("{{", "").replace("}}", ""))
        # an integer is exact with a bare {}.  A float is not: {} drops the decimal point of an integral value (1.0 -> `1`, read
        # back as an integer) and {:?} switches to exponent notation below 1e-5 and from 1e16 (`1e-6`, which the parser reads
        # as a string), so a float has to go through a helper of the crate; what that helper prints is decided by ROUNDTRIP,
        # which evaluates it on integral, fractional, tiny and huge floats
        rest0 = fm[0]["args"][1:]
        via_helper = len(rest0) == 1 and strip(rest0[0]).get("k") == "call" and strip(strip(rest0[0])["func"]).get("k") == "path" and strip(strip(rest0[0])["func"])["path"][-1] in local_fns
        if kind == "float":
            if any(x not in ("{}", "{:?}") for x in spec):
                ctx.report(r, "spec:" + key, "DataOperator::%s is printed with the format specifier %s: a width/precision changes the literal, the parser reads back another value" % (key, [x for x in spec if x not in ("{}", "{:?}")]), fn.file, a["l"])
            elif not via_helper:
                ctx.report(r, "spec:" + key, "DataOperator::%s prints its float payload directly with %s: %s" % (key, spec[0] if spec else "?", "a float with an integral value is written without a decimal point (1.0 as `1`) and read back as an integer operator" if spec and spec[0] == "{}" else "very small and very large values come out in exponent notation (`1e-6`), which the query parser does not read as a number"), fn.file, a["l"])
        elif any(x != "{}" for x in spec):
            ctx.report(r, "spec:" + key, "DataOperator::%s is printed with the format specifier %s: a width/precision changes the literal, the parser reads back another value" % (key, [x for x in spec if x != "{}"]), fn.file, a["l"])
        rest = fm[0]["args"][1:]
        if kind == "float" and via_helper:
            inner = strip(rest[0])["args"]
            if not (len(inner) == 1 and unparse(strip(inner[0])).lstrip("*&") == var):
                ctx.report(r, "render:" + key, "DataOperator::%s prints %s instead of its payload" % (key, unparse(rest[0])), fn.file, a["l"])
        elif kind in ("number", "float"):
            if not (len(rest) == 1 and strip(rest[0]).get("k") == "path" and strip(rest[0])["path"] == [var]):
                ctx.report(r, "render:" + key, "DataOperator::%s prints %s instead of the payload itself" % (key, ",".join(unparse(x) for x in rest)), fn.file, a["l"])
        else:
            if len(rest) != 1:
                ctx.report(r, "render:" + key, "DataOperator::%s: unexpected format arguments" % key, fn.file, a["l"])
                continue
            ok_, how = exact_dt(rest[0], var)
            if not ok_:
                ctx.report(r, "render:" + key, "DataOperator::%s prints its datetime through %s; an exact rendering is %s" % (key, how, LOSSLESS_DT), fn.file, a["l"])
    ctx.floor(r, n, 15, "operator arms with a numeric or datetime payload")


# ---------------------------------------------------------------------- VERBATIM
TRANSFORMS = {"replace", "replacen", "escape_default", "escape_debug", "escape_unicode", "to_lowercase", "to_uppercase", "to_ascii_lowercase", "to_ascii_uppercase",
              "trim", "trim_start", "trim_end", "trim_matches", "trim_start_matches", "trim_end_matches", "strip_prefix", "strip_suffix"}


def verbatim_rule(ctx, syn):
    """The parser is zero-copy: get_arg hands out slices of the input (`&'a str`), so whatever stands between the quotes
    of a literal is the operand, backslashes included.  The printers must therefore put a string operand between the
    quotes exactly as it is; a printer that escapes, trims or re-cases it prints a literal that parses to another operand
    (and grows with every print/parse round)."""
    r = ctx.rule("C09.VERBATIM", "the query printers emit string operands verbatim (the parser reads the text between the quotes as it is, it never un-escapes): no string operand passes through an escaping / trimming / re-casing call or a crate function that rebuilds it on its way into the output")
    ga = [f for f in syn.fns if f.name == "get_arg" and f.file == "src/api/query.rs"]
    if len(ga) != 1:
        ctx.anchor_missing(r, "fn get_arg")
        return
    ret = re.sub(r"\s+", "", (ga[0].sig.get("output") or {}).get("s", "") if isinstance(ga[0].sig.get("output"), dict) else str(ga[0].sig.get("output")))
    r.hit("get_arg:zero-copy", sample={"get_arg_returns": ret})
    if "&'astr" not in ret and "&str" not in ret:
        ctx.report(r, "parser-not-zero-copy", "get_arg no longer returns slices of the input (%s): whether the parser un-escapes literals has to be re-established before the printers can be judged" % ret, ga[0].file, ga[0].line)
        return
    local_string_fns = set(f.name for f in syn.fns if f.impl is None and f.file in ("src/api/query.rs", "src/datavalue.rs") and "String" in re.sub(r"\s+", "", str((f.sig.get("output") or {}).get("s", "") if isinstance(f.sig.get("output"), dict) else f.sig.get("output"))) and "Result" not in str(f.sig.get("output"))
                           # (a helper that renders a number - f64 -> String - does not touch a *string* operand)
                           and any(re.search(r"str|String|Cow", re.sub(r"\s+", "", (i_.get("ty") or {}).get("s", ""))) for i_ in f.sig["inputs"]))
    printers = [f for f in syn.fns if f.name == "to_string" and f.body is not None and ((f.file == "src/api/query.rs" and re.match(r"^(Constraint|Query|Assignment)", f.self_ty or "")) or (f.file == "src/datavalue.rs" and "DataOperator" in (f.self_ty or "")))]
    ctx.floor(r, len(printers), 3, "query printers")
    n = 0
    for fn in printers:
        ctx.functions_analysed.add(fn.qual)
        for mac in walk(fn.body):
            if mac.get("k") != "macro" or mac["name"] not in ("format", "write", "writeln") or not mac.get("args"):
                continue
            for a in mac["args"][1:]:
                n += 1
                bad = None
                for x in walk(a):
                    if x.get("k") == "mcall" and x["method"] in TRANSFORMS:
                        bad = "." + x["method"] + "(..)"
                    if x.get("k") == "call" and strip(x["func"]).get("k") == "path" and len(strip(x["func"])["path"]) == 1 and strip(x["func"])["path"][0] in local_string_fns:
                        bad = strip(x["func"])["path"][0] + "(..)"
                if bad:
                    ctx.report(r, "%s|%s" % (fn.qual, bad), "%s prints an operand through %s: the parser keeps the text between the quotes as it is, so the printed literal parses to a different operand and printing is no fixpoint" % (fn.qual, bad), fn.file, mac.get("l"))
    r.hit("format-arguments", sample={"format_arguments_examined": n})
    ctx.floor(r, n, 40, "format arguments in the query printers")


# ---------------------------------------------------------------------- RESULTTYPE
def resulttype_rule(ctx, syn, rid="C09.RESULTTYPE"):
    """the keyword table of the parser and that of the printer agree: every `Type` the parsers of SELECT / ADD / DELETE
    can put into Query.resulttype has a keyword in Query::resulttype_as_str.  A parser that takes the type by name from
    somewhere else (`Type::try_from`) accepts every type that conversion knows - a query `SELECT VALUE ?x` then parses,
    prints without a keyword and does not parse again."""
    r = ctx.rule(rid, "every result type the query parsers can produce has a keyword in the printer's table (resulttype_as_str)")
    pr = [f for f in syn.fns if f.name == "resulttype_as_str" and (f.self_ty or "").startswith("Query") and f.body is not None]
    parsers = [f for f in syn.fns if f.name in ("parse_select", "parse_add", "parse_delete", "parse_with_attributes") and (f.self_ty or "").startswith("Query") and f.body is not None]
    conv = [f for f in syn.fns if f.name == "try_from" and (f.self_ty or "") == "Type" and f.body is not None]
    if len(pr) != 1 or len(parsers) < 3:
        ctx.anchor_missing(r, "Query::resulttype_as_str / parse_select / parse_add / parse_delete")
        return
    printed = set()
    for n in walk(pr[0].body):
        if n.get("k") == "match":
            for a in n["arms"]:
                for q in walk(a["pat"]):
                    if q.get("k") == "pat" and q.get("p") == "path" and len(q.get("path", [])) == 2 and q["path"][0] == "Type":
                        # an arm that answers None prints nothing
                        if not (a["body"].get("k") == "path" and a["body"].get("path") == ["None"]):
                            printed.add(q["path"][1])
    by_name = set()
    for f in conv:
        for n in walk(f.body):
            if n.get("k") == "path" and len(n.get("path", [])) == 2 and n["path"][0] in ("Self", "Type"):
                by_name.add(n["path"][1])
    ctx.functions_analysed.update([pr[0].qual] + [f.qual for f in parsers])
    n_sites = 0
    for f in parsers:
        produced = {}
        for n in walk(f.body):
            if n.get("k") == "path" and len(n.get("path", [])) == 2 and n["path"][0] == "Type" and n["path"][1][:1].isupper():
                produced.setdefault(n["path"][1], n.get("l"))
            takes_name = (n.get("k") == "call" and n["func"].get("k") == "path" and n["func"]["path"][-2:] in (["Type", "try_from"], ["Type", "from"])) or \
                         (n.get("k") == "mcall" and n.get("method") in ("try_into", "parse") and "Type" in unparse(n))
            if takes_name:
                for v in sorted(by_name):
                    produced.setdefault(v, n.get("l"))
        n_sites += len(produced)
        r.hit(f.qual, sample={"parser": f.qual, "produces": sorted(produced), "printed": sorted(printed)})
        for v, line in sorted(produced.items()):
            if v not in printed:
                ctx.report(r, "%s|%s" % (f.name, v), "%s can produce the result type Type::%s, for which Query::resulttype_as_str has no keyword: such a query is printed as `SELECT  ?x ...`, which the parser refuses (the keyword tables of parser and printer differ)" % (f.qual, v), f.file, line)
    ctx.floor(r, n_sites, 6, "result types produced by the query parsers")
