"""C17 Web Annotation export is well-formed JSON: string-context discipline of the
hand-written exporter.

ESC    every `{}` inside a JSON string literal of a format string receives a number, a
       safe-charset value or the result of the complete escaper; every `{}` in value
       position receives the result of a JSON producer
TYPE   the value encoder has one explicit JSON producer per DataValue variant
SEP    separator typestate: along every path, a new member/element is appended only after
       `{`, `[` or `,`, a comma only after a value, and no object/array closes after a comma
TARGET every sub-selector is emitted (no skip/take/filter on the selector iterations); start/end
       come from begin()/end() of the same selection"""
import re
from synq import Syn, walk, find, unparse, strip, pat_names
import jsonsep
from jsonsep import placeholders

FILE = "src/api/webanno.rs"
# functions that return a JSON *value* (or member) - each is analysed itself
PRODUCERS = {"value_to_json": "value", "output_selector": "value*", "output_predicate_datavalue": "member", "serialize_context": "value", "serialize_context_namespaces": "members*"}
ESCAPERS = {"json_escape"}
SAFE_CALLS = {"to_rfc3339": "RFC 3339 timestamps use digits, letters and + - : . only", "begin": "number", "end": "number", "len": "number"}


def _placeholders_unused(fmt):
    """[(index, in_string)] for each {} of a format literal; None if quotes are unbalanced"""
    out = []
    instr = False
    i = 0
    n = 0
    while i < len(fmt):
        c = fmt[i]
        if c == "\\" and instr:
            i += 2
            continue
        if c == '"':
            instr = not instr
        elif c == "{":
            if i + 1 < len(fmt) and fmt[i + 1] == "{":
                i += 2
                continue
            j = fmt.find("}", i)
            if j < 0:
                return None
            out.append((n, instr))
            n += 1
            i = j + 1
            continue
        elif c == "}" and i + 1 < len(fmt) and fmt[i + 1] == "}":
            i += 2
            continue
        i += 1
    if instr:
        return None
    return out


def classify_arg(e, localdefs, depth=0):
    """('number'|'safe'|'escaped'|'producer:<name>'|'const'|'raw', description)"""
    e = strip(e)
    k = e.get("k")
    if k == "lit":
        return ("const", unparse(e))
    if k == "macro" and e["name"] == "nanoid":
        return ("safe", "nanoid!() (URL-safe alphabet)")
    if k == "macro" and e["name"] == "format":
        return ("raw", "nested format!")
    if k == "path" and len(e["path"]) == 1:
        nm = e["path"][0]
        if nm.isupper():
            return ("const", nm)
        if nm in localdefs and depth < 4:
            return classify_arg(localdefs[nm], localdefs, depth + 1)
        return ("raw", nm)
    if k == "call":
        f = unparse(e["func"]).split("::")[-1]
        if f in ESCAPERS:
            return ("escaped", f)
        if f in PRODUCERS:
            return ("producer:" + f, f)
        if f == "into_iri":
            return ("raw", "into_iri(..) (only replaces space/tab/newline/quote)")
        return ("raw", unparse(e)[:50])
    if k == "mcall":
        m = e["method"]
        if m in ("begin", "end", "len") and not e["args"]:
            return ("number", m + "()")
        if m == "to_rfc3339":
            return ("safe", SAFE_CALLS[m])
        if m in PRODUCERS:
            return ("producer:" + m, m)
        if m in ("as_str", "as_ref", "to_string", "clone", "deref", "unwrap", "expect"):
            return classify_arg(e["recv"], localdefs, depth + 1)
        if m in ("join", "collect") or (m in ("iter", "into_iter") and depth > 0):
            sub = classify_arg(e["recv"], localdefs, depth + 1) if m != "iter" and m != "into_iter" else ("list", "")
            return sub
        if m == "map" and e["args"]:
            fa = strip(e["args"][0])
            if fa.get("k") == "path" and fa["path"][-1] in PRODUCERS:
                return ("producer:" + fa["path"][-1], "list of " + fa["path"][-1])
            if fa.get("k") == "closure":
                body = strip(fa["body"])
                if body.get("k") == "macro" and body["name"] == "format" and body.get("args") and body["args"][0].get("k") == "lit":
                    st = jsonsep.feed_text(("open", ()), body["args"][0]["v"].replace("{{", "{").replace("}}", "}").replace("{}", "x"), lambda k: None)
                    if st == ("value", ()):
                        return ("producer:format", "list of format!(%r)" % body["args"][0]["v"])
                return classify_arg(body, localdefs, depth + 1)
            return ("raw", unparse(e)[:50])
        return ("raw", unparse(e)[:50])
    if k == "if":
        # both branches must be fine: classify the worst
        a = classify_arg(block_value(e["then"]), localdefs, depth + 1)
        b = classify_arg(e["else"] if e["else"].get("k") != "blockexpr" else block_value(e["else"]["block"]), localdefs, depth + 1) if e.get("else") else ("const", "")
        for x in (a, b):
            if x[0] == "raw":
                return x
        if a[0] == "const" and b[0] == "const":
            return ("const", "%s or %s" % (a[1], b[1]))
        return a
    return ("raw", unparse(e)[:50])


def block_value(b):
    if b.get("k") == "blockexpr":
        b = b["block"]
    if b.get("stmts"):
        last = b["stmts"][-1]
        if last["k"] == "exprstmt" and not last.get("semi"):
            return last["e"]
    return {"k": "lit", "t": "str", "v": ""}


NUMERIC = {"isize", "usize", "i64", "u64", "i32", "u32", "i16", "u16", "i8", "u8", "bool"}


def arm_render_problems(body, binds, ty):
    """how an arm of value_to_json turns its payload into JSON text: [(key, text)]"""
    out = []
    results = []

    def tails(e):
        e = strip(e)
        k = e.get("k")
        if k == "blockexpr":
            t = block_value(e)
            tails(t)
        elif k == "if":
            tails(block_value(e["then"]))
            if e.get("else") is not None:
                tails(e["else"])
        elif k == "match":
            for a in e["arms"]:
                tails(a["body"])
        else:
            results.append(e)
    tails(body)
    guarded_finite = "is_finite()" in unparse(body) or "is_nan()" in unparse(body)
    for r in results:
        src = unparse(r)
        k = r.get("k")
        if k == "mcall" and r["method"] in ("to_string", "to_owned", "into") and strip(r["recv"]).get("k") == "lit":
            lit = strip(r["recv"])["v"]
            if jsonsep.feed_text(("open", ()), lit, lambda x: None) != ("value", ()) or not re.fullmatch(r'\s*(null|true|false|-?\d+(\.\d+)?|"[^"\\]*")\s*', lit):
                out.append(("literal", "the literal %r, which is not a JSON value" % lit))
            continue
        if k == "mcall" and r["method"] == "to_string" and strip(r["recv"]).get("k") == "path" and strip(r["recv"])["path"][0] in binds:
            if ty in NUMERIC:
                continue
            if ty in ("f64", "f32"):
                if not guarded_finite:
                    out.append(("float", "Display without an is_finite() guard: NaN and infinity are not JSON"))
                continue
            out.append(("display", "Display (`%s`), which is not JSON for this payload type" % src))
            continue
        if k == "macro" and r["name"] == "format" and r.get("args") and r["args"][0].get("k") == "lit":
            fmt = r["args"][0]["v"]
            st = jsonsep.feed_text(("open", ()), fmt.replace("{{", "{").replace("}}", "}").replace("{}", "\x00") if '"{}"' not in fmt else fmt.replace("{}", "x"), lambda x: out.append(("format", "the format string %r, which is not one JSON value (%s)" % (fmt, x))))
            if st != ("value", ()):
                out.append(("format", "the format string %r, which is not one complete JSON value" % fmt))
            continue
        if "serde_json::to_string" in src:
            continue
        if k == "call" and unparse(r["func"]).split("::")[-1] in PRODUCERS:
            continue
        out.append(("other", "`%s`, which this checker does not recognise as a JSON producer" % src[:60]))
    return out


def run(ctx):
    syn = Syn(ctx.facts.syn())
    ctx.not_decided += ["faithfulness of the body beyond JSON types (which predicate carries which value)", "JSON-LD semantics (contexts, IRIs)", "selector-to-target mapping beyond 'every sub-selector is emitted, start/end from begin()/end()'"]
    fns = [f for f in syn.fns if f.file == FILE]
    byname = {}
    for f in fns:
        byname.setdefault(f.name, []).append(f)

    # ---------------- ESC
    r_esc = ctx.rule("C17.ESC", "JSON string contexts receive only numbers, safe-charset values or escaped text; value positions receive only JSON producers")
    nph = 0
    for f in fns:
        if f.name in ("into_iri", "is_iri", "invalid_in_iri", "uri_to_namespace") or f.name in ESCAPERS:
            continue  # IRI helpers build IRIs, not JSON; the escaper is judged as a whole below
        localdefs = {}
        for n in walk(f.body):
            if n.get("k") == "let" and n.get("init"):
                nm = [p["name"] for p in walk(n["pat"]) if p.get("k") == "pat" and p.get("p") == "ident"]
                if len(nm) == 1:
                    localdefs[nm[0]] = n["init"]
        count = {}
        for n in walk(f.body):
            if n.get("k") != "macro" or n["name"] != "format" or not n.get("args"):
                continue
            a0 = n["args"][0]
            if a0.get("k") != "lit" or a0.get("t") != "str":
                continue
            fmt = a0["v"]
            if '"' not in fmt and "{" not in fmt.replace("{}", ""):
                # no JSON punctuation at all: not JSON text (e.g. a number rendered for a template)
                if not re.search(r'[\[\]{}:"]', fmt.replace("{}", "")):
                    continue
            ph = placeholders(fmt)
            ctx.functions_analysed.add(f.qual)
            if ph is None:
                ctx.report(r_esc, "%s|unbalanced:%s" % (f.name, fmt[:30]), "format string %r in %s has unbalanced quotes: the JSON context of its placeholders cannot be determined" % (fmt, f.name), f.file, n["l"])
                continue
            for idx, instr in ph:
                if idx + 1 >= len(n["args"]):
                    continue
                kind, desc = classify_arg(n["args"][idx + 1], localdefs)
                nph += 1
                ctxname = "string" if instr else "value"
                shape = re.sub(r"\s+", "", desc)[:40]
                count[(ctxname, shape)] = count.get((ctxname, shape), 0) + 1
                key = "%s|%s:%s#%d" % (f.name, ctxname, shape, count[(ctxname, shape)])
                r_esc.hit(key, sample={"in": f.name, "context": ctxname, "argument": desc, "class": kind})
                if instr and kind not in ("number", "safe", "escaped", "const"):
                    ctx.report(r_esc, key, "%s interpolates `%s` into a JSON string literal without the JSON escaper: a quote, backslash or control character in it makes the output invalid JSON" % (f.name, desc), f.file, n["l"])
                if not instr and kind == "const" and re.fullmatch(r'(""|"[ ,]*")( or ""| or "[ ,]*")*', desc or '""'):
                    continue  # a separator literal: decided by C17.SEP
                if not instr and not (kind in ("number",) or kind.startswith("producer:")):
                    ctx.report(r_esc, key, "%s places `%s` in JSON value position although it is not produced by a JSON producer (%s)" % (f.name, desc, sorted(PRODUCERS)), f.file, n["l"])
    ctx.floor(r_esc, nph, 15, "format placeholders in JSON text")
    # the escaper must exist and be complete
    r_esc.hit("escaper")
    esc = byname.get("json_escape")
    if not esc:
        ctx.report(r_esc, "no-escaper", "api/webanno.rs has no complete JSON string escaper (json_escape): hand-written replace() chains miss backslashes and control characters", FILE, None)
    else:
        src = unparse(esc[0].body)
        ctx.functions_analysed.add(esc[0].qual)
        if "serde_json::to_string" not in src:
            # a hand-written escaper: must work on chars and cover quote, backslash and the control range
            missing = []
            if not re.search(r"'\\\\'|\"\\\\\\\\\"", src):
                missing.append("backslash")
            if "'\"'" not in src and '"\\""' not in src:
                missing.append("double quote")
            if not re.search(r"is_control\(\)|'\\u\{1[fF]\}'|<\s*' '|<\s*0x20|<\s*32\b|<=\s*0x1[fF]|<=\s*31\b", src):
                missing.append("control characters below U+0020")
            if missing:
                ctx.report(r_esc, "escaper-incomplete", "json_escape is hand-written and does not handle: %s" % ", ".join(missing), esc[0].file, esc[0].line)
        escaper_eval(ctx, r_esc, esc[0])
    # BYTES: text is never rebuilt from single bytes
    r_bytes = ctx.rule("C17.BYTES", "the exporter never rebuilds text from single UTF-8 bytes (`u8 as char`): content of non-ASCII values must survive")
    ncast = 0
    for f in fns:
        bytevars = set()
        for n in walk(f.body):
            if n.get("k") == "for" and re.search(r"\.(bytes|as_bytes)\(\)", unparse(n["iter"])):
                bytevars.update(pat_names(n["pat"]))
            if n.get("k") == "closure" :
                pass
        r_bytes.hit(f.name)
        for n in walk(f.body):
            if n.get("k") == "cast" and re.sub(r"\s+", "", n["ty"]["s"]) == "char":
                ncast += 1
                inner = strip(n["e"])
                nm = inner["path"][0] if inner.get("k") == "path" else None
                binds_bytes = nm in bytevars
                if not binds_bytes and nm:
                    # bound by a match arm over a byte variable
                    for m in find(f.body, "match"):
                        if unparse(strip(m["e"])) in bytevars:
                            for a in m["arms"]:
                                if nm in pat_names(a["pat"]) or re.sub(r"\s+", "", a["pat"]["s"]) == nm:
                                    binds_bytes = True
                if binds_bytes or re.search(r"\.(bytes|as_bytes)\(\)", unparse(inner)) or re.search(r"\bu8\b", unparse(inner)):
                    ctx.report(r_bytes, "%s|u8-as-char" % f.name, "%s pushes single bytes of a UTF-8 string as chars (`%s as char`): every non-ASCII character of the value is exported as mojibake" % (f.name, unparse(inner)), f.file, n["l"])
    # ---------------- TYPE
    r_type = ctx.rule("C17.TYPE", "value_to_json has an explicit arm with a JSON producer for every DataValue variant (no wildcard forwarding to Display)")
    dv = syn.enums.get("DataValue")
    vt = byname.get("value_to_json")
    if not dv or not vt:
        ctx.anchor_missing(r_type, "enum DataValue / fn value_to_json")
    else:
        ctx.functions_analysed.add(vt[0].qual)
        arms = [a for m in find(vt[0].body, "match") for a in m["arms"]]
        covered = set()
        for a in arms:
            names = [p["path"][-1] for p in walk(a["pat"]) if p.get("k") == "pat" and p.get("p") in ("tuplestruct", "path", "struct") and len(p.get("path", [])) >= 2]
            covered.update(names)
            if not names:
                r_type.hit("wildcard")
                ctx.report(r_type, "wildcard", "value_to_json has a catch-all arm `%s`: variants without an explicit JSON producer are rendered with Display, which is not JSON for lists (\", 1, 23\"), datetimes (unquoted) and non-finite floats" % a["pat"]["s"].strip(), vt[0].file, a["l"])
        for v in dv["variants"]:
            r_type.hit(v["name"])
            if v["name"] not in covered:
                ctx.report(r_type, "variant:" + v["name"], "value_to_json has no explicit arm for DataValue::%s" % v["name"], vt[0].file, vt[0].line)
        # each arm renders its payload with a producer fit for the payload's type
        vtypes = {}
        for v in dv["variants"]:
            fl = v.get("fields") or []
            vtypes[v["name"]] = re.sub(r"\s+", "", fl[0]["ty"]["s"]) if fl else None
        for a in arms:
            names = [p["path"][-1] for p in walk(a["pat"]) if p.get("k") == "pat" and p.get("p") in ("tuplestruct", "path", "struct") and len(p.get("path", [])) >= 2]
            if len(names) != 1 or names[0] not in vtypes:
                continue
            vn = names[0]
            ty = vtypes[vn]
            binds = pat_names(a["pat"])
            problems = arm_render_problems(a["body"], binds, ty)
            r_type.hit("render:" + vn, sample={"variant": vn, "payload": ty, "rendering": unparse(a["body"])[:80]})
            for pr in problems:
                ctx.report(r_type, "render:%s:%s" % (vn, pr[0]), "value_to_json renders DataValue::%s (%s) with %s" % (vn, ty, pr[1]), vt[0].file, a["l"])
        # Display of a DataValue must not be used as JSON anywhere in the exporter
        for f in fns:
            for n in walk(f.body):
                if n.get("k") == "macro" and n["name"] == "format" and n.get("args") and len(n["args"]) > 1:
                    for a in n["args"][1:]:
                        if unparse(strip(a)) in ("datavalue", "value") and f.name != "value_to_json":
                            r_type.hit("display:" + f.name)
                            ctx.report(r_type, "display:" + f.name, "%s formats a DataValue with Display inside JSON text" % f.name, f.file, n["l"])

    # ---------------- TARGET
    r_tgt = ctx.rule("C17.TARGET", "output_selector emits every sub-selector and takes start/end from begin()/end() of the same text selection")
    osel = byname.get("output_selector")
    if not osel:
        ctx.anchor_missing(r_tgt, "fn output_selector")
    else:
        o = osel[0]
        ctx.functions_analysed.add(o.qual)
        nit = 0
        for n in walk(o.body):
            if n.get("k") == "mcall" and n["method"] == "iter":
                recv = unparse(n["recv"])
                if recv in ("selectors", "selector", "subselectors"):
                    nit += 1
                    r_tgt.hit("iter:" + recv)
        for n in walk(o.body):
            if n.get("k") == "mcall" and n["method"] in ("skip", "take", "step_by", "filter", "skip_while", "take_while", "filter_map", "rev", "nth"):
                chain = unparse(n["recv"])
                if re.search(r"\b(selectors|selector|subselectors)\.iter\(", chain):
                    ctx.report(r_tgt, "narrowed:" + n["method"], "output_selector narrows the iteration over sub-selectors with .%s(): some targets of the annotation are not exported (or exported out of order)" % n["method"], o.file, n["l"])
        ctx.floor(r_tgt, nit, 4, "sub-selector iterations")
        for n in walk(o.body):
            if n.get("k") == "macro" and n["name"] == "format" and n.get("args") and "TextPositionSelector" in (n["args"][0].get("v") or ""):
                args = [unparse(strip(a)) for a in n["args"][1:]]
                r_tgt.hit("start-end")
                m1 = re.match(r"^(\w+)\.begin\(\)$", args[1]) if len(args) > 2 else None
                m2 = re.match(r"^(\w+)\.end\(\)$", args[2]) if len(args) > 2 else None
                if not (m1 and m2 and m1.group(1) == m2.group(1)):
                    ctx.report(r_tgt, "start-end", "the TextPositionSelector takes start/end from `%s` / `%s`, not from begin()/end() of one text selection" % tuple(args[1:3] if len(args) > 2 else ("?", "?")), o.file, n["l"])

    ns_rule(ctx, syn)
    once_rule(ctx, syn)
    from props.c01 import expand_rule
    expand_rule(ctx, syn, rid="C17.EXPAND")   # to_webannotation walks targets through this expansion
    prefix_rule(ctx)
    flags_rule(ctx, syn)
    iri_rule(ctx, syn)
    setlocal_rule(ctx)
    template_rule(ctx, syn)
    valueverbatim_rule(ctx, syn)

    # ---------------- SEP (separator / bracket typestate on the string accumulators)
    r_sep = ctx.rule("C17.SEP", "on every path through the exporter, members and elements are separated by exactly one comma, brackets are balanced and every function returns a complete JSON value (or member list)")
    one = {}
    for name, fl in byname.items():
        if len(fl) == 1 and fl[0].body is not None:
            one[name] = fl[0]
    kinds = dict((k, v) for k, v in PRODUCERS.items() if k in one)
    kinds["to_webannotation"] = "value*"   # empty string for the two selector kinds the exporter does not accept
    for k in ("output_subselectors",):
        if k in one:
            kinds[k] = "value*"
    an = jsonsep.Analysis(one, kinds)
    roots = [k for k in kinds if k in one and not any(re.sub(r"\s+", "", i["ty"]["s"]) in ("bool", "&mutbool") for i in one[k].sig.get("inputs", []))]
    for need in ("to_webannotation", "output_selector", "value_to_json", "output_predicate_datavalue", "serialize_context"):
        if need not in one:
            ctx.anchor_missing(r_sep, "fn %s in %s" % (need, FILE))
    errs = an.run(sorted(roots))
    for fn in sorted(an.stats["functions"]):
        ctx.functions_analysed.add(one[fn].qual)
        for c, arms in sorted(an.contexts.get(fn, ()), key=str):
            r_sep.hit("%s[%s]" % (fn, jsonsep.ctx_text(c, arms)), sample={"function": fn, "context": jsonsep.ctx_text(c, arms)})
    r_sep.notes.append("appends interpreted: %d; final states checked: %d" % (an.stats["appends"], an.stats["paths"]))
    ctx.floor(r_sep, len(an.stats["functions"]), 6, "exporter functions interpreted")
    if "output_selector" in an.contexts:
        ctx.floor(r_sep, len(an.contexts["output_selector"]), 3, "calling contexts of output_selector")
    for (fn, kind), (line, c) in sorted(errs.items()):
        ctx.report(r_sep, "%s:%s" % (fn, kind), "%s can produce malformed JSON: %s at line %s (calling context: %s)" % (fn, kind.replace("-", " "), line, c), one[fn].file, line)


def ns_rule(ctx, syn):
    """namespace compaction is reversible: a key IRI is written as `prefix:local` only if the namespace IRI
    declared for `prefix` in the exported @context, followed by `local`, is that key IRI again"""
    import formula
    from formula import Evaluator, Unknown, Panic, StructVal
    from props.c10 import closure_call
    r = ctx.rule("C17.NS", "uri_to_namespace compacts an IRI to prefix:local only when <declared namespace IRI> + local is the original IRI")
    fl = [f for f in syn.fns if f.name == "uri_to_namespace" and f.file == FILE and f.body is not None]
    if len(fl) != 1:
        ctx.anchor_missing(r, "fn WebAnnoConfig::uri_to_namespace")
        return
    f = fl[0]
    ctx.functions_analysed.add(f.qual)
    hooks = {}
    hooks["call:Cow::Owned"] = lambda ev, recv, args, node, env: args[0]
    hooks["call:Cow::Borrowed"] = lambda ev, recv, args, node, env: args[0]
    hooks["iter"] = lambda ev, recv, args, node, env: recv if isinstance(recv, list) else NotImplemented
    hooks["strip_prefix"] = lambda ev, recv, args, node, env: (formula.some(recv[len(args[0]):]) if recv.startswith(args[0]) else None) if isinstance(recv, str) and isinstance(args[0], str) else NotImplemented
    hooks["strip_suffix"] = lambda ev, recv, args, node, env: (formula.some(recv[:len(recv) - len(args[0])]) if recv.endswith(args[0]) else None) if isinstance(recv, str) and isinstance(args[0], str) else NotImplemented

    def trimmer(side):
        def h(ev, recv, args, node, env):
            if not isinstance(recv, str):
                return NotImplemented
            a = args[0]
            pred = (lambda ch: closure_call(ev, a, [ch], env)) if isinstance(a, tuple) and a and a[0] == "closure" else (lambda ch: ch == a if isinstance(a, str) and len(a) == 1 else (ch in a if isinstance(a, (list, str)) else False))
            s_ = recv
            if side in ("start", "both"):
                while s_ and pred(s_[0]):
                    s_ = s_[1:]
            if side in ("end", "both"):
                while s_ and pred(s_[-1]):
                    s_ = s_[:-1]
            return s_
        return h
    hooks["trim_end_matches"] = trimmer("end")
    hooks["trim_start_matches"] = trimmer("start")
    hooks["trim_matches"] = trimmer("both")

    def fmt_(ev, node, env):
        a = node.get("args") or []
        out = a[0]["v"]
        for x in a[1:]:
            out = out.replace("{}", str(ev.eval(x, env)), 1)
        return out
    hooks["macro:format"] = fmt_
    spaces = [[("http://ex.org/ns/", "ex")], [("http://ex.org/ns#", "ex")], [("http://ex.org/ns", "ex")], [("http://ex.org/ns/", "ex"), ("http://ex.org/ns/sub/", "sub")]]
    iris = ["http://ex.org/ns/label", "http://ex.org/ns#label", "http://ex.org/ns2/label", "http://ex.org/nslabel", "http://ex.org/ns", "http://ex.org/ns/", "http://ex.org/ns/sub/x", "http://other.org/x", "label"]
    n = 0
    for ns in spaces:
        for iri in iris:
            n += 1
            try:
                got = Evaluator(hooks=hooks).run_body(f.body, {"self": StructVal("WebAnnoConfig", {"context_namespaces": list(ns)}), "s": iri})
            except (Unknown, Panic) as e:
                ctx.report(r, "unevaluated", "uri_to_namespace could not be evaluated (%s) on %r with namespaces %s: that compaction is reversible is not established" % (e, iri, ns), f.file, f.line)
                return
            r.hit("%s|%s" % (ns[0][0], iri), sample={"namespaces": ns, "iri": iri, "written_as": got} if iri.endswith("ns2/label") or iri.endswith("ns/label") else None)
            if got == iri:
                continue
            ok_ = False
            for uri, pre in ns:
                if isinstance(got, str) and got.startswith(pre + ":") and uri + got[len(pre) + 1:] == iri:
                    ok_ = True
            if not ok_:
                ctx.report(r, "irreversible", "with the namespace(s) %s the key IRI %r is written as %r, which expands through the exported @context to a different IRI: the body member no longer names the annotation's key" % (ns, iri, got), f.file, f.line, {"namespaces": ns, "iri": iri, "written": got})
                return
    ctx.floor(r, n, 30, "compaction evaluations")


# ---------------------------------------------------------------------- ONCE
def once_rule(ctx, syn):
    """escaping is not idempotent (a backslash becomes two): text that holds an escaped part must not be escaped again.
    Per function: E = names whose value may contain escaped text (result of the escaper, or built from such a name by
    replace / format! / push_str / += / clone / to_string); a call of the escaper on an expression that mentions a name
    in E escapes that part twice."""
    r = ctx.rule("C17.ONCE", "no text is passed through the JSON escaper twice: an argument of json_escape never contains a value that was already escaped")
    n = 0
    for f in syn.fns:
        if f.file != FILE or not f.body or f.name in ESCAPERS:
            continue

        def is_esc_call(e):
            return e.get("k") == "call" and strip(e["func"]).get("k") == "path" and strip(e["func"])["path"][-1] in ESCAPERS

        def names_in(e):
            return set(x["path"][0] for x in walk(e) if x.get("k") == "path" and len(x["path"]) == 1)

        def tainted_expr(e, E):
            """may the value of e contain escaped text?"""
            for x in walk(e):
                if is_esc_call(x):
                    return True
            return bool(names_in(e) & E)
        E = set()
        changed = True
        guard = 0
        while changed and guard < 10:
            changed = False
            guard += 1
            for x in walk(f.body):
                k = x.get("k")
                tgt = None
                src = None
                if k == "let" and x.get("init") is not None:
                    nm = pat_names(x["pat"])
                    if len(nm) == 1:
                        tgt, src = nm[0], x["init"]
                elif k == "assign":
                    l = strip(x["left"])
                    if l.get("k") == "path" and len(l["path"]) == 1:
                        tgt, src = l["path"][0], x["right"]
                elif k == "binary" and x.get("op") == "+=":
                    l = strip(x["left"])
                    if l.get("k") == "path" and len(l["path"]) == 1:
                        tgt, src = l["path"][0], x["right"]
                elif k == "mcall" and x["method"] in ("push_str", "push", "insert_str", "extend"):
                    l = strip(x["recv"])
                    if l.get("k") == "path" and len(l["path"]) == 1 and x["args"]:
                        tgt, src = l["path"][0], x["args"][-1]
                if tgt and tgt not in E and tainted_expr(src, E):
                    E.add(tgt)
                    changed = True
        for x in walk(f.body):
            if is_esc_call(x) and x["args"]:
                n += 1
                arg = x["args"][0]
                r.hit("%s#%d" % (f.name, n), sample={"in": f.name, "escapes": unparse(arg)[:60]})
                inner = [y for y in walk(arg) if y is not x and is_esc_call(y)]
                hit = sorted(names_in(arg) & E)
                if inner or hit:
                    ctx.report(r, "%s|%s" % (f.name, (hit or ["nested"])[0]), "%s escapes `%s`, which already contains escaped text (%s): a backslash, quote or control character in it is escaped twice and the exported string names something else" % (f.name, unparse(arg)[:60], ", ".join(hit) if hit else "a nested json_escape"), f.file, x.get("l"))
    ctx.floor(r, n, 15, "calls of the JSON escaper")


# ---------------------------------------------------------------------- ESC: the escaper, evaluated
ESC_SAMPLES = ["", "plain", 'a"b', '"lead', 'trail"', '"', '""', '"both"', "back\\slash", "trail\\", '\\"', "line\nbreak", "tab\t", "\u0001", "h\u00e9\U0001F600", 'Quoth: "Nevermore"']


def escaper_eval(ctx, r_esc, fn):
    """json_escape(s) between two quotes must be a JSON string literal that reads back as s.  The function is evaluated
    from its syntax tree (serde_json::to_string is modelled by the JSON string grammar itself) on strings with quotes,
    backslashes and control characters at the beginning, in the middle and at the end.  A hand-written escaper this
    evaluator cannot follow is left to the textual completeness test above."""
    import json as _json
    from formula import Evaluator, Unknown, Panic, ok, some, is_some

    def h_to_string(ev, recv, args, node, env):
        if len(args) == 1 and isinstance(args[0], str):
            return ok(_json.dumps(args[0], ensure_ascii=False))
        return NotImplemented

    def h_expect(ev, recv, args, node, env):
        if isinstance(recv, tuple) and len(recv) == 2 and recv[0] in ("ok", "some"):
            return recv[1]
        if recv is None or (isinstance(recv, tuple) and recv and recv[0] == "err"):
            raise Panic("expect", node.get("l"))
        return NotImplemented

    def h_trim(ev, recv, args, node, env):
        if isinstance(recv, str) and len(args) == 1 and isinstance(args[0], str) and len(args[0]) == 1:
            m = node["method"]
            out = recv
            if m in ("trim_matches", "trim_start_matches"):
                out = out.lstrip(args[0])
            if m in ("trim_matches", "trim_end_matches"):
                out = out.rstrip(args[0])
            return out
        return NotImplemented

    def h_strip(ev, recv, args, node, env):
        if isinstance(recv, str) and len(args) == 1 and isinstance(args[0], str):
            m = node["method"]
            if m == "strip_prefix":
                return some(recv[len(args[0]):]) if recv.startswith(args[0]) else None
            return some(recv[:len(recv) - len(args[0])]) if recv.endswith(args[0]) and args[0] else None
        return NotImplemented

    hooks = {"call:serde_json::to_string": h_to_string, "expect": h_expect, "unwrap": h_expect, "trim_matches": h_trim, "trim_start_matches": h_trim, "trim_end_matches": h_trim,
             "strip_prefix": h_strip, "strip_suffix": h_strip, "to_string": lambda ev, recv, args, node, env: recv if isinstance(recv, str) else NotImplemented,
             "into": lambda ev, recv, args, node, env: recv if isinstance(recv, str) else NotImplemented}
    params = [(p.get("pat") or {}).get("name") for p in fn.sig["inputs"] if (p.get("pat") or {}).get("name") != "self"]
    if len(params) != 1:
        return
    n = 0
    for smp in ESC_SAMPLES:
        ev = Evaluator(hooks=hooks)
        try:
            got = ev.run_body(fn.body, {params[0]: smp})
        except Unknown:
            return      # hand-written: the completeness test decides
        except Panic as ex:
            ctx.report(r_esc, "escaper-panics", "json_escape(%r) panics (%s)" % (smp, ex), fn.file, fn.line)
            return
        n += 1
        good = False
        if isinstance(got, str):
            try:
                good = _json.loads('"' + got + '"') == smp
            except ValueError:
                good = False
        if not good:
            ctx.report(r_esc, "escaper-wrong", "json_escape(%s) gives %s: between the quotes the caller adds this is not a JSON string literal that reads back as the input (a quote or backslash at the edge of the text is lost or left dangling), so the exported Web Annotation is not valid JSON" % (_json.dumps(smp), _json.dumps(got) if isinstance(got, str) else repr(got)), fn.file, fn.line, {"input": smp, "got": got if isinstance(got, str) else repr(got)})
            return
    r_esc.hit("escaper-evaluated", sample={"samples": n})


# ---------------------------------------------------------------------- PREFIX
PREFIX_KIND = {"dataset": "default_set_iri", "resource": "default_resource_iri", "annotation": "default_annotation_iri"}


def prefix_rule(ctx, rid="C17.PREFIX"):
    """identifiers without a scheme are turned into IRIs with a configurable prefix per kind of item.  The same item
    has to get the same IRI wherever it is named (a dataset in the target and in the body keys), so the prefix handed to
    into_iri must be the one for the kind of item whose id is being converted.  Type-directed: the item is recognised by
    the store accessor its id derives from (MIR provenance), the prefix by the config field."""
    import mirq
    r = ctx.rule(rid, "every into_iri(id, &config.default_X_iri) in the exporter converts the id of an item of kind X (dataset ids with default_set_iri, resource ids with default_resource_iri, annotation ids with default_annotation_iri)")
    prog = mirq.Program(ctx.facts.mir())
    n = 0
    for bid, b in sorted(prog.bodies.items()):
        if "webanno" not in bid or b.d.get("derived"):
            continue
        for bi, t in b.calls():
            if not (mirq.callee_of(t)[0] or "").endswith("webanno::into_iri") or len(t.get("args", [])) != 2:
                continue
            pre = str(b.key_of_operand(t["args"][1]))
            m = re.search(r"config\.(default_\w+_iri)", pre)
            if not m:
                continue
            prov = b.provenance(t["args"][0])
            kinds = sorted(k for k in PREFIX_KIND if any(re.search(r"AnnotationStore>::%s$" % k, p_) for p_ in prov))
            n += 1
            r.hit("%s:%s" % (mirq.short_fn(bid), t.get("line")), sample={"function": mirq.short_fn(bid), "prefix": m.group(1), "id_of": kinds or ["(generated / annotation id)"]})
            for k in kinds:
                if PREFIX_KIND[k] != m.group(1):
                    ctx.report(r, "%s|%s-id-with-%s" % (mirq.short_fn(bid), k, m.group(1)), "%s turns the id of a %s into an IRI with config.%s: the same %s is named under %s elsewhere in the export (its keys in the body), so one item gets two different IRIs" % (mirq.short_fn(bid), k, m.group(1), k, PREFIX_KIND[k]), b.file, t.get("line"))
    ctx.floor(r, n, 5, "into_iri calls with a configured prefix")


# ---------------------------------------------------------------------- FLAGS
def flags_rule(ctx, syn, rid="C17.FLAGS"):
    """`suppress_auto_generated` / `suppress_auto_generator` remember that the annotation's own data already supplied the
    member the exporter would otherwise add (a second "generated" would make the object carry the key twice, and a
    last-wins reader takes the wrong one).  They are raised when such a data item is seen and must never fall again."""
    r = ctx.rule(rid, "the suppress_* flags of to_webannotation are only ever raised: every assignment to them is the constant true")
    fns = [f for f in syn.fns if f.name == "to_webannotation" and f.file == FILE and f.body is not None]
    if len(fns) != 1:
        ctx.anchor_missing(r, "to_webannotation")
        return
    fn = fns[0]
    flags = set()
    for nd in walk(fn.body):
        if nd.get("k") == "let" and nd["pat"].get("name", "").startswith("suppress_"):
            flags.add(nd["pat"]["name"])
    n = 0
    for nd in walk(fn.body):
        if nd.get("k") == "assign" and strip(nd["left"]).get("k") == "path" and strip(nd["left"])["path"][-1] in flags:
            n += 1
            rhs = strip(nd["right"])
            nm = strip(nd["left"])["path"][-1]
            r.hit("%s#%d" % (nm, n), sample={"flag": nm, "assigned": unparse(nd["right"])[:30]})
            if not (rhs.get("k") == "lit" and rhs.get("t") == "bool" and rhs.get("v") is True) and unparse(rhs) != "true":
                ctx.report(r, "%s|lowered" % nm, "to_webannotation assigns `%s` to %s: a later data item can reset the flag an earlier explicit `%s` raised, and the exporter then adds its automatic member next to the explicit one (the key occurs twice in the object)" % (unparse(nd["right"])[:40], nm, nm.replace("suppress_auto_", "")), fn.file, nd.get("l"))
    ctx.floor(r, len(flags), 2, "suppress_* flags")
    ctx.floor(r, n, 2, "assignments to suppress_* flags")


# ---------------------------------------------------------------------- VALUEVERBATIM
VALUE_TRANSFORMS = {"trim", "trim_start", "trim_end", "trim_matches", "trim_start_matches", "trim_end_matches", "to_lowercase", "to_uppercase", "to_ascii_lowercase", "to_ascii_uppercase",
                    "replace", "replacen", "strip_prefix", "strip_suffix", "split_whitespace", "normalize"}


def valueverbatim_rule(ctx, syn, rid="C17.VALUE"):
    """the body carries each data value with the same content: the only thing that may happen to the payload of a string
    value on its way into the output is JSON escaping (and the IRI test that picks the shape of the member)."""
    r = ctx.rule(rid, "in the exporter no string payload of a DataValue passes through a trimming / re-casing / replacing call: the exported content is the stored content")
    n = 0
    for fn in syn.fns:
        if fn.file != FILE or not fn.body:
            continue
        bound = set()
        for nd in walk(fn.body):
            if nd.get("k") == "pat" and nd.get("p") == "tuplestruct" and nd.get("path") and nd["path"][-1] == "String" and len(nd["path"]) >= 2 and nd["path"][-2] == "DataValue":
                for q in walk(nd):
                    if q.get("k") == "pat" and q.get("p") == "ident":
                        bound.add(q["name"])
        if not bound:
            continue
        n += 1
        r.hit(fn.qual, sample={"fn": fn.qual, "string_payloads": sorted(bound)})
        for c in walk(fn.body):
            if c.get("k") == "mcall" and c["method"] in VALUE_TRANSFORMS:
                rv_ = strip(c["recv"])
                while rv_.get("k") in ("mcall",) and rv_["method"] in ("as_str", "as_ref", "clone", "to_string", "deref"):
                    rv_ = strip(rv_["recv"])
                if rv_.get("k") == "path" and len(rv_["path"]) == 1 and rv_["path"][0] in bound:
                    ctx.report(r, "%s|%s" % (fn.name, c["method"]), "%s applies .%s() to the payload `%s` of a string value: what is exported (or the decision how to export it) is no longer the stored value - e.g. a string that is an IRI only after trimming is exported as an {\"id\": ..} object without its whitespace" % (fn.name, c["method"], rv_["path"][0]), fn.file, c.get("l"))
    ctx.floor(r, n, 1, "functions that take a string payload apart")


# ---------------------------------------------------------------------- IRI
def iri_rule(ctx, syn, rid="C17.IRI"):
    """into_iri() prepends the configured prefix to everything is_iri() does not recognise.  An identifier that *is* an
    IRI must be left alone whatever it contains after its scheme - more colons (urn:isbn:.., a port, a colon in the
    path) included - or the target names another resource than the annotation does.  is_iri is evaluated from its
    syntax tree (invalid_in_iri through its own body) on a grid of identifiers."""
    from formula import Evaluator, Unknown, Panic, some
    r = ctx.rule(rid, "is_iri() recognises an identifier by the scheme before its *first* colon (http, https, urn, file, _) and refuses whitespace and quotes; evaluated on a grid of identifiers with one and several colons")
    fns = dict((f.name, f) for f in syn.fns if f.file == FILE and f.body is not None and f.self_ty is None)
    if "is_iri" not in fns:
        ctx.anchor_missing(r, "is_iri")
        return
    fn = fns["is_iri"]
    ctx.functions_analysed.add(fn.qual)

    def pred_of(a):
        if isinstance(a, tuple) and a and a[0] == "fnpath":
            return fns.get(a[1].split("::")[-1])
        return None

    def call_pred(ev, p_, c):
        return Evaluator(hooks=hooks).run_body(p_.body, {(p_.sig["inputs"][0]["pat"].get("name")): c})

    def h_find(ev, recv, args, node, env):
        if isinstance(recv, str) and len(args) == 1:
            a = args[0]
            if isinstance(a, str):
                i = recv.find(a)
                return some(len(recv[:i].encode("utf8"))) if i >= 0 else None
        return NotImplemented

    def h_contains(ev, recv, args, node, env):
        if isinstance(recv, str) and len(args) == 1 and isinstance(args[0], str):
            return args[0] in recv
        return NotImplemented

    def h_split_once(rev):
        def h(ev, recv, args, node, env):
            if isinstance(recv, str) and len(args) == 1 and isinstance(args[0], str) and args[0]:
                i = recv.rfind(args[0]) if rev else recv.find(args[0])
                return some((recv[:i], recv[i + len(args[0]):])) if i >= 0 else None
            return NotImplemented
        return h
    hooks = {"find": h_find, "contains": h_contains, "split_once": h_split_once(False), "rsplit_once": h_split_once(True),
             "starts_with": lambda ev, recv, args, node, env: recv.startswith(args[0]) if isinstance(recv, str) and isinstance(args[0], str) else NotImplemented}

    # a predicate function passed by name (s.find(invalid_in_iri) / s.contains(invalid_in_iri)): resolve the path to the local fn
    class Ev2(Evaluator):
        def e_path(self, e, env):
            p_ = e["path"]
            if len(p_) == 1 and p_[0] not in env and p_[0] in fns:
                return ("localfn", fns[p_[0]])
            return Evaluator.e_path(self, e, env)

    def with_pred(base):
        def h(ev, recv, args, node, env):
            if isinstance(recv, str) and len(args) == 1 and isinstance(args[0], tuple) and args[0] and args[0][0] == "localfn":
                f2 = args[0][1]
                pn = f2.sig["inputs"][0]["pat"].get("name")
                hits = [i for i, c in enumerate(recv) if Ev2(hooks=hooks).run_body(f2.body, {pn: c}) is True]
                if node["method"] == "find":
                    return some(len(recv[:hits[0]].encode("utf8"))) if hits else None
                return bool(hits)
            return base(ev, recv, args, node, env)
        return h
    hooks["find"] = with_pred(h_find)
    hooks["contains"] = with_pred(h_contains)
    grid = [("http://example.org/x", True), ("https://example.org/x", True), ("https://host:8443/path", True), ("urn:isbn:0451450523", True), ("urn:uuid:6e8b", True), ("file:///tmp/a:b.txt", True),
            ("_:b1", True), ("http://example.org/a:b#c", True), ("plain", False), ("my id", False), ("mailto:x@y", False), ("foo:bar", False), ("x:http", False), ("http://a b", False), ("", False), ("a\"b:c", False)]
    pn = fn.sig["inputs"][0]["pat"].get("name")
    n = 0
    seen_kinds = set()
    for ident, want in grid:
        try:
            got = Ev2(hooks=hooks).run_body(fn.body, {pn: ident})
        except (Unknown, Panic) as ex:
            ctx.report(r, "unevaluated", "is_iri could not be evaluated on %r (%s): which identifiers keep their own IRI is not established" % (ident, ex), fn.file, fn.line)
            break
        n += 1
        if got is not want:
            kind = "several-colons" if want and ident.count(":") > 1 else "scheme" if want else "accepted"
            if kind in seen_kinds:
                continue
            seen_kinds.add(kind)
            ctx.report(r, kind, "is_iri(%r) is %s, expected %s: %s" % (ident, got, want, "the identifier is an IRI already, but into_iri() now puts the configured prefix in front of it, so the exported target names another resource (`_:urn:isbn:..`)" if want else "something that is not an IRI is exported as one"), fn.file, fn.line, {"identifier": ident})
    r.hit("is_iri", sample={"identifiers_evaluated": n})
    ctx.floor(r, n, 10, "identifiers")



# ---------------------------------------------------------------------- SETLOCAL
def setlocal_rule(ctx, rid="C17.SETLOCAL", files=("src/api/webanno.rs",)):
    """DataKeyHandle and AnnotationDataHandle number the keys / data of *one* dataset from 0.  The exporter walks the
    data of an annotation, which may come from several sets, so a std map or set keyed by such a handle alone (a cache
    of predicate IRIs per key, a `seen` set) confuses the first key of one set with the first key of another.
    Type-directed: no local of the exporter's bodies is a BTreeMap / HashMap / BTreeSet / HashSet keyed by a
    set-local handle."""
    import mirq
    r = ctx.rule(rid, "no collection of the exporter is keyed by a set-local handle (DataKeyHandle / AnnotationDataHandle) alone: the data of one annotation comes from several sets")
    prog = mirq.Program(ctx.facts.mir())
    rx = re.compile(r"(BTreeMap|HashMap|BTreeSet|HashSet)<(datakey::DataKeyHandle|annotationdata::AnnotationDataHandle)\s*[,>]")
    n = 0
    for bid, b in sorted(prog.bodies.items()):
        if b.file not in files or b.d.get("derived"):
            continue
        n += 1
        ctx.functions_analysed.add(bid)
        bad = sorted(set(m.group(0).rstrip(",> ") for l_ in b.d.get("locals", []) for m in [rx.search(str(l_.get("ty")))] if m))
        r.hit(bid, sample={"body": bid, "locals": len(b.d.get("locals", []))})
        for ty in bad:
            ctx.report(r, "%s|%s" % (mirq.short_fn(bid), ty), "%s keeps a `%s..>`: the handle is only unique within one dataset, and an annotation can carry data of several sets - entries of different sets with the same handle number are taken for one another (a value exported under the key of another set)" % (bid, ty), b.file, b.line)
    ctx.floor(r, n, 8, "bodies of the exporter")



# ---------------------------------------------------------------------- TEMPLATE
def template_rule(ctx, syn, rid="C17.TEMPLATE"):
    """placeholders of a template are filled in one after the other with str::replace.  A replacement that is free
    text (an identifier, an IRI) may itself contain the text of a later placeholder, so it has to be the last one to go
    in; the replacements before it must be numbers.  Decided on the order of the replace() calls on one string in the
    exporter's functions."""
    r = ctx.rule(rid, "when placeholders are substituted one after the other, a free-text replacement (an IRI, an id) is the last substitution into that string: whatever it contains is not substituted again")
    n = 0

    TEXTY = ("id", "iri", "as_str", "to_str", "filename", "text", "name", "temp_id")

    def free_text(e, lets, depth=0):
        """the replacement is known to be free text: it is computed from an identifier / IRI / name (directly, or
        through a local whose initialiser is)"""
        for nd in walk(e):
            if nd.get("k") == "mcall" and nd.get("method") in TEXTY:
                return True
            if nd.get("k") == "call" and nd["func"].get("k") == "path" and nd["func"]["path"][-1] in ("into_iri", "json_escape", "uri_to_namespace"):
                return True
            if nd.get("k") == "path" and len(nd.get("path", [])) == 1 and nd["path"][0] in lets and depth < 2:
                if free_text(lets[nd["path"][0]], lets, depth + 1):
                    return True
        return False
    for f in syn.fns:
        if f.file != "src/api/webanno.rs" or f.body is None:
            continue
        chains = {}
        lets = {}
        for nd in walk(f.body):
            if nd.get("k") == "let" and nd.get("init") is not None and (nd.get("pat") or {}).get("name"):
                lets[nd["pat"]["name"]] = nd["init"]
        for nd in walk(f.body):
            if nd.get("k") == "mcall" and nd.get("method") == "replace" and len(nd.get("args") or []) == 2 and nd["args"][0].get("k") == "lit" and re.match(r"^\{\w+\}$", str(nd["args"][0].get("v"))):
                chains.setdefault(unparse(nd["recv"]), []).append(nd)
        for var, calls in chains.items():
            calls.sort(key=lambda c: (c.get("l") or 0, c.get("c") or 0))
            n += len(calls)
            ctx.functions_analysed.add(f.qual)
            r.hit("%s:%s" % (f.qual, var), sample={"function": f.qual, "string": var, "placeholders": [c["args"][0]["v"] for c in calls]})
            for i, c in enumerate(calls[:-1]):
                if free_text(c["args"][1], lets):
                    ctx.report(r, "%s|%s" % (f.name, c["args"][0]["v"]), "%s substitutes %s with free text (`%s`) and goes on to substitute %s in the same string: a %s that contains the text of a later placeholder is rewritten (an exported target that names another resource)" % (f.qual, c["args"][0]["v"], unparse(c["args"][1])[:60], ", ".join(x["args"][0]["v"] for x in calls[i + 1:]), c["args"][0]["v"].strip("{}")), f.file, c.get("l"))
                    break
    ctx.floor(r, n, 3, "placeholder substitutions in the exporter")
