"""C04 offsets resolve to exactly the addressed codepoints, or are rejected.

The constructor and reporting functions are loop-free guard trees over integer
positions; they are extracted from the syntax tree and decided on every cursor
combination over small texts (A7).  Structural rules tie every stored TextSelection to
those constructors."""
import re
import mirq
from synq import Syn, walk, find, unparse
from formula import Unknown, Panic, EnumVal, StructVal, Interval, SInt
from offsetmodel import OffsetModel, B, E, offset, resource, selection, resolve

# functions that may build a TextSelection value (struct literal); each is covered by a VAL obligation
# or builds from already validated selections
LITERAL_SITES = {
    "TextResource::textselection_by_offset": "validating constructor (C04.VAL obligation O1)",
    "TextResource::textselection_by_offset_unchecked": "validating constructor (C04.VAL obligation O1)",
    "TextSelection::textselection_by_offset": "validating constructor relative to a parent selection (C04.VAL obligation O2)",
    "TextSelection::intersection": "builds sub-ranges of two valid selections (max of begins .. min of ends, guarded non-empty)",
}


def cursors(L):
    cs = [B(x) for x in range(0, L + 3)]
    cs += [E(-x) for x in range(0, L + 3)]
    cs += [E(-(1 << 63))]   # the most negative cursor a file or a caller can hand in: out of bounds for every text
    return cs


def cname(c):
    return "%s(%d)" % ("B" if c.name == "BeginAligned" else "E", int(c.args[0]))


def run(ctx):
    syn = Syn(ctx.facts.syn())
    prog = mirq.Program(ctx.facts.mir())
    ctx.level = "proof"
    model = OffsetModel(syn)
    LMAX = 3 if ctx.tier == "quick" else 5
    ctx.extra["exhaustive"] = True
    ctx.extra["domain"] = "texts of length 0..%d; every pair of cursors B(0..L+2) / E(0..-(L+2)); every parent selection and relative offset inside such a text; all four offset modes" % LMAX
    ctx.extra["trusted_base"] = ["syn AST dump", "lib/formula.py evaluator (closed vocabulary, signed/unsigned arithmetic with underflow detection)", "lib/offsetmodel.py hooks: an empty position index (no known selection), Offset::simple/new as plain constructors",
                                 "piecewise-linear small-model argument: the guard trees compare sums of at most three positions, so texts up to length %d with cursors up to L+2 realise every branch combination" % LMAX]
    ctx.not_decided += ["that the text returned for a valid range is exactly those codepoints (byte/codepoint conversion is C12)", "positive end-aligned cursors given as *input* (malformed; the library treats them by absolute value)", "nesting depth beyond one parent (the relative constructor is decided against an arbitrary parent range, which composes)"]
    for f in model.fns.values():
        ctx.functions_analysed.add(f.qual)

    r_val = ctx.rule("C04.VAL", "an offset is accepted exactly when it denotes 0 <= begin <= end <= length of the addressed text, and then resolves to those positions")
    r_rep = ctx.rule("C04.REPORT", "every reported offset is well-formed (end-aligned cursors <= 0) and re-resolves to the same absolute range in all four modes")
    r_mode = ctx.rule("C04.MODE", "the (begin kind, end kind) -> OffsetMode map is the identity table")
    r_store = ctx.rule("C04.STORE", "every TextSelection that is stored comes from a validating constructor; TextSelection values are built only in the reviewed constructor functions")

    def guarded(rule, key, fn, thunk):
        """run one obligation; Unknown -> not discharged (reported), Panic -> reported"""
        rule.obligations += 1
        try:
            bad = thunk()
        except Unknown as u:
            rule.unknown += 1
            ctx.report(rule, "uninterpretable:" + key, "%s is outside the evaluator's vocabulary (%s): obligation not discharged" % (fn.qual, u), fn.file, fn.line)
            return
        rule.hit(key)
        if bad:
            ctx.report(rule, key, bad[0], fn.file, bad[1] if len(bad) > 1 and bad[1] else fn.line, bad[2] if len(bad) > 2 else None)
        else:
            rule.discharged += 1

    # ---------------- O1: resource constructors
    def o1(fkey):
        fn = model.fns[fkey]

        def t():
            n = 0
            for L in range(0, LMAX + 1):
                res = resource(L)
                for c1 in cursors(L):
                    for c2 in cursors(L):
                        n += 1
                        b, e = resolve(c1, L), resolve(c2, L)
                        valid = b is not None and e is not None and 0 <= b <= e <= L
                        try:
                            r = model.run(fkey, res, [offset(c1, c2)])
                        except Panic as p:
                            return ("%s panics (%s) for offset (%s, %s) on a text of length %d" % (fn.qual, p.kind, cname(c1), cname(c2), L), p.line, {"L": L})
                        accepted = isinstance(r, tuple) and r[0] == "ok"
                        if accepted != valid:
                            return ("%s %s offset (%s, %s) on a text of length %d, which %s a range 0 <= begin <= end <= length" % (
                                fn.qual, "accepts" if accepted else "rejects", cname(c1), cname(c2), L, "does not denote" if not valid else "denotes"), None, {"L": L, "begin": cname(c1), "end": cname(c2)})
                        if accepted and (r[1]["begin"], r[1]["end"]) != (b, e):
                            return ("%s resolves (%s, %s) on length %d to %s..%s instead of %s..%s" % (fn.qual, cname(c1), cname(c2), L, r[1]["begin"], r[1]["end"], b, e), None)
            r_val.sample({"function": fn.qual, "cursor_pairs_evaluated": n})
            return None
        guarded(r_val, "resource:" + fkey.split(".")[1], fn, t)

    o1("res.textselection_by_offset")
    o1("res.textselection_by_offset_unchecked")

    # ---------------- O2: relative constructor
    def o2():
        fn = model.fns["sel.textselection_by_offset"]
        n = 0
        for L in range(0, LMAX + 1):
            for pb in range(0, L + 1):
                for pe in range(pb, L + 1):
                    parent = selection(pb, pe)
                    plen = pe - pb
                    for c1 in cursors(plen):
                        for c2 in cursors(plen):
                            n += 1
                            b, e = resolve(c1, plen), resolve(c2, plen)
                            valid = b is not None and e is not None and 0 <= b <= e <= plen
                            try:
                                r = model.run("sel.textselection_by_offset", parent, [offset(c1, c2)])
                            except Panic as p:
                                return ("%s panics (%s) for relative offset (%s, %s) in parent %d..%d" % (fn.qual, p.kind, cname(c1), cname(c2), pb, pe), p.line)
                            accepted = isinstance(r, tuple) and r[0] == "ok"
                            if accepted != valid:
                                return ("%s %s relative offset (%s, %s) inside a parent selection %d..%d (length %d): %s" % (
                                    fn.qual, "accepts" if accepted else "rejects", cname(c1), cname(c2), pb, pe, plen,
                                    "it reaches outside the parent or is inverted" if not valid else "it is a valid sub-range"), None, {"parent": [pb, pe]})
                            if accepted and (r[1]["begin"], r[1]["end"]) != (pb + b, pb + e):
                                return ("%s resolves relative (%s, %s) in parent %d..%d to %s..%s instead of %d..%d" % (fn.qual, cname(c1), cname(c2), pb, pe, r[1]["begin"], r[1]["end"], pb + b, pb + e), None)
        r_val.sample({"function": fn.qual, "cases": n})
        return None
    guarded(r_val, "relative:textselection_by_offset", model.fns["sel.textselection_by_offset"], o2)

    # ---------------- O0: the cursor resolution every offset API of the Text trait goes through
    def o0():
        fn = model.fns["res.beginaligned_cursor"]
        for L in range(0, LMAX + 1):
            res = resource(L)
            for c in cursors(L):
                want = resolve(c, L)
                if want is not None and not (0 <= want <= L):
                    want = None
                try:
                    r = model.run("res.beginaligned_cursor", res, [c])
                except Panic as p:
                    return ("%s panics (%s) for cursor %s on a text of length %d" % (fn.qual, p.kind, cname(c), L), p.line)
                got = r[1] if isinstance(r, tuple) and r[0] == "ok" else None
                if got != want:
                    return ("%s resolves the cursor %s on a text of length %d to %s; %s" % (fn.qual, cname(c), L, "position %s" % got if got is not None else "an error", "it lies outside the text and must be refused (text_by_offset / absolute_offset / textselection on a sub-selection otherwise reach beyond the selection, up to a slice panic)" if want is None else "expected position %d" % want), None, {"L": L, "cursor": cname(c)})
        return None
    guarded(r_val, "cursor:beginaligned_cursor", model.fns["res.beginaligned_cursor"], o0)

    # ---------------- O2b: relative -> absolute conversion used by <selection>.textselection(offset) / STAMQL OFFSET
    def o2b():
        fn = model.fns["sel.absolute_offset"]
        n = 0
        for L in range(0, LMAX + 1):
            for pb in range(0, L + 1):
                for pe in range(pb, L + 1):
                    parent = selection(pb, pe)
                    plen = pe - pb
                    for c1 in cursors(plen):
                        for c2 in cursors(plen):
                            n += 1
                            b, e = resolve(c1, plen), resolve(c2, plen)
                            inside = b is not None and e is not None and 0 <= b <= plen and 0 <= e <= plen
                            try:
                                r = model.run("sel.absolute_offset", parent, [offset(c1, c2)])
                            except Panic as p:
                                return ("%s panics (%s) for relative offset (%s, %s) in a selection %d..%d" % (fn.qual, p.kind, cname(c1), cname(c2), pb, pe), p.line)
                            accepted = isinstance(r, tuple) and r[0] == "ok"
                            if accepted and not inside:
                                return ("%s accepts the relative offset (%s, %s) for a selection %d..%d (length %d) although a cursor lies outside that text: <selection>.textselection(offset) then returns text beyond the selection instead of an error" % (
                                    fn.qual, cname(c1), cname(c2), pb, pe, plen), None, {"parent": [pb, pe], "begin": cname(c1), "end": cname(c2)})
                            if not accepted and inside:
                                return ("%s rejects the relative offset (%s, %s) for a selection %d..%d (length %d) although both cursors lie inside it" % (fn.qual, cname(c1), cname(c2), pb, pe, plen), None)
                            if accepted:
                                o = r[1]
                                if not (isinstance(o, StructVal) and o["begin"] == B(pb + b) and o["end"] == B(pb + e)):
                                    return ("%s turns relative (%s, %s) in %d..%d into %r instead of B(%d):B(%d)" % (fn.qual, cname(c1), cname(c2), pb, pe, o, pb + b, pb + e), None)
        r_val.sample({"function": fn.qual, "cases": n})
        return None
    guarded(r_val, "relative:absolute_offset", model.fns["sel.absolute_offset"], o2b)

    # ---------------- O3: reporting in all four modes (resource level)
    owm = syn.fn("offset_with_mode", self_ty="Selector")
    ctx.functions_analysed.add(owm.qual)
    arm = None
    for m_ in find(owm.body, "match"):
        for a in m_["arms"]:
            ps = a["pat"]
            if ps.get("p") == "tuplestruct" and ps["path"][-1] == "TextSelector" and len(ps["elems"]) == 3 and all(e_.get("p") == "ident" for e_ in ps["elems"]):
                arm = a
        if arm:
            break
    modes = ["BeginBegin", "BeginEnd", "EndBegin", "EndEnd"]

    def wellformed(c):
        return c.name == "BeginAligned" or int(c.args[0]) <= 0

    def o3():
        if arm is None:
            raise Unknown("arm `Selector::TextSelector(res, tsel, mode)` of offset_with_mode not found")
        names = [e_["name"] for e_ in arm["pat"]["elems"]]
        params = [i["pat"].get("name") for i in owm.sig["inputs"]]
        for L in range(0, LMAX + 1):
            res = resource(L)
            for b in range(0, L + 1):
                for e in range(b, L + 1):
                    for md in modes:
                      for override in (False, True):
                        ev = model.evaluator()
                        sel_ = selection(b, e)

                        def h_get(ev_, recv, args, node, env_, res=res, sel_=sel_):
                            if recv == "STORE":
                                return ("ok", res)
                            if isinstance(recv, StructVal) and recv.tyname == "TextResource":
                                return ("ok", sel_)
                            return NotImplemented

                        def h_expect(ev_, recv, args, node, env_):
                            if isinstance(recv, tuple) and recv and recv[0] == "ok":
                                return recv[1]
                            return NotImplemented
                        ev.hooks["get"] = h_get
                        ev.hooks["expect"] = h_expect
                        env = {names[0]: "RESHANDLE", names[1]: "TSELHANDLE", names[2]: EnumVal("BeginBegin" if override else md),
                               params[0]: "STORE", params[1]: (("some", EnumVal(md)) if override else None)}
                        try:
                            r = ev.eval(arm["body"], env)
                        except Panic as p:
                            return ("offset_with_mode panics (%s) for %d..%d of %d in mode %s" % (p.kind, b, e, L, md), p.line)
                        if not (isinstance(r, tuple) and r[0] == "some" and isinstance(r[1], StructVal)):
                            return ("offset_with_mode returns %r for %d..%d of %d in mode %s" % (r, b, e, L, md), None)
                        o = r[1]
                        for which, c, want in (("begin", o["begin"], b), ("end", o["end"], e)):
                            if not wellformed(c):
                                return ("offset_with_mode reports a positive end-aligned %s cursor %s for %d..%d of %d in mode %s" % (which, cname(c), b, e, L, md), None)
                            back = model.run("res.beginaligned_cursor", res, [c])
                            if not (isinstance(back, tuple) and back[0] == "ok" and back[1] == want):
                                return ("offset_with_mode reports %s cursor %s for %d..%d of a text of length %d in mode %s, which re-resolves to %r instead of %d" % (which, cname(c), b, e, L, md, back, want), None, {"mode": md})
                        kinds = {"BeginBegin": ("BeginAligned", "BeginAligned"), "BeginEnd": ("BeginAligned", "EndAligned"), "EndBegin": ("EndAligned", "BeginAligned"), "EndEnd": ("EndAligned", "EndAligned")}[md]
                        if (o["begin"].name, o["end"].name) != kinds:
                            return ("offset_with_mode in mode %s reports cursor kinds (%s, %s)" % (md, o["begin"].name, o["end"].name), None)
        return None
    guarded(r_rep, "resource:offset_with_mode", owm, o3)

    # ---------------- O4: relative reporting
    def o4():
        fn = model.fns["sel.relative_offset"]
        for L in range(0, LMAX + 1):
            for cb in range(0, L + 1):
                for ce in range(cb, L + 1):
                    cont = selection(cb, ce)
                    for sb in range(0, L + 1):
                        for se in range(sb, L + 1):
                            me = selection(sb, se)
                            embedded = cb <= sb and se <= ce
                            for md in modes:
                                try:
                                    r = model.run("sel.relative_offset", me, [cont, EnumVal(md)])
                                except Panic as p:
                                    if not embedded:
                                        continue  # outside the documented domain; reported by the subtraction rule of C19/C04.SUB
                                    return ("%s panics (%s) for %d..%d inside %d..%d in mode %s" % (fn.qual, p.kind, sb, se, cb, ce, md), p.line)
                                if not embedded:
                                    continue
                                if not (isinstance(r, tuple) and r[0] == "some"):
                                    return ("%s returns None for %d..%d embedded in %d..%d (mode %s)" % (fn.qual, sb, se, cb, ce, md), None)
                                o = r[1]
                                for which, c, want in (("begin", o["begin"], sb), ("end", o["end"], se)):
                                    if not wellformed(c):
                                        return ("%s reports a positive end-aligned %s cursor %s for %d..%d inside %d..%d in mode %s" % (fn.qual, which, cname(c), sb, se, cb, ce, md), None, {"mode": md})
                                    back = model.run("sel.beginaligned_cursor", cont, [c])
                                    if not (isinstance(back, tuple) and back[0] == "ok" and cb + back[1] == want):
                                        return ("%s reports %s cursor %s for %d..%d inside %d..%d in mode %s, which re-resolves to %r (+%d) instead of %d" % (fn.qual, which, cname(c), sb, se, cb, ce, md, back, cb, want), None, {"mode": md})
        return None
    guarded(r_rep, "relative:relative_offset", model.fns["sel.relative_offset"], o4)

    # ---------------- O5: mode table
    def o5():
        fn = model.fns["offsetmode.from"]
        for k1, n1 in ((B(1), "Begin"), (E(-1), "End")):
            for k2, n2 in ((B(2), "Begin"), (E(0), "End")):
                r = model.run("offsetmode.from", None, [offset(k1, k2)], noself=True)
                want = n1 + n2
                if not (isinstance(r, EnumVal) and r.name == want):
                    return ("From<&Offset> for OffsetMode maps (%s, %s) to %r instead of %s" % (cname(k1), cname(k2), r, want), None)
        return None
    guarded(r_mode, "OffsetMode::from", model.fns["offsetmode.from"], o5)

    both_rule(ctx, prog)

    # ---------------- LEN: the length an offset reports
    r_len = ctx.rule("C04.LEN", "Offset::len answers end - begin for a well-ordered offset whose cursors have the same alignment, None for every other offset (mixed alignment, inverted, the most negative cursor), and never panics")
    lens = [f for f in syn.fns if f.name == "len" and (f.self_ty or "") == "Offset" and f.file == "src/selector.rs" and f.body is not None]
    if len(lens) != 1:
        ctx.anchor_missing(r_len, "Offset::len")
    else:
        from formula import Evaluator as _Ev, StructVal as _SV, some as _some
        fnl = lens[0]
        ctx.functions_analysed.add(fnl.qual)
        cs = [B(x) for x in range(0, 4)] + [E(-x) for x in range(0, 4)] + [E(-(1 << 63))]
        nl = 0
        badl = None
        for c1 in cs:
            for c2 in cs:
                nl += 1
                try:
                    got = _Ev(hooks={}).run_body(fnl.body, {"self": _SV("Offset", {"begin": c1, "end": c2})})
                except Panic as p_:
                    badl = badl or ("panics", "Offset::len panics (%s) on the offset (%s, %s): an inverted or extreme offset has no length, which is what None is for" % (p_.kind, cname(c1), cname(c2)), p_.line)
                    continue
                except Unknown as u_:
                    badl = badl or ("uninterpretable", "Offset::len is outside the evaluator's vocabulary (%s): not decided" % u_, None)
                    break
                a1, a2 = int(c1.args[0]), int(c2.args[0])
                if c1.name == c2.name and a2 >= a1 and a1 != -(1 << 63):
                    want = _some(a2 - a1)
                    if got != want and not (isinstance(got, tuple) and got and got[0] == "some" and int(got[1]) == a2 - a1):
                        badl = badl or ("value", "Offset::len gives %r for (%s, %s); expected Some(%d)" % (got, cname(c1), cname(c2), a2 - a1), None)
                elif c1.name != c2.name and got is not None:
                    badl = badl or ("mixed", "Offset::len gives %r for the mixed-alignment offset (%s, %s); its length is not defined without the text (documented: None)" % (got, cname(c1), cname(c2)), None)
            if badl and badl[0] == "uninterpretable":
                break
        r_len.hit("Offset::len", sample={"cursor_pairs_evaluated": nl})
        if badl:
            ctx.report(r_len, badl[0], badl[1], fnl.file, badl[2] or fnl.line)
        ctx.floor(r_len, nl, 80, "cursor pairs")

    # ---------------- STORE
    # (a) struct literal sites
    nlit = 0
    for fn in syn.fns:
        if not fn.body:
            continue
        lits = [s for s in find(fn.body, "structlit") if s["path"][-1] == "TextSelection"]
        if not lits:
            continue
        q = "%s::%s" % (fn.self_ty or fn.in_trait or fn.mod, fn.name)
        for s in lits:
            nlit += 1
            r_store.hit("literal:" + q, sample={"literal_in": q, "reviewed": LITERAL_SITES.get(q)})
            if q not in LITERAL_SITES:
                ctx.report(r_store, "literal:" + q, "%s builds a TextSelection value directly; only the validating constructors may do that (fields are pub(crate), so the invariant 0 <= begin <= end <= len rests on them)" % q, fn.file, s["l"])
    ctx.floor(r_store, nlit, 8, "TextSelection struct literals")
    # (b) what selector() stores
    sel = prog.one(r"^annotationstore::AnnotationStore::selector$")
    nins = 0
    for bi, t in sel.calls():
        decl, res, info = mirq.callee_of(t)
        if not decl or not decl.endswith("StoreFor::insert") or "textselection::TextSelection" not in info.get("ga", []):
            continue
        nins += 1
        prov = sel.provenance(t["args"][1])
        ctors = sorted(x for x in prov if x.endswith("textselection_by_offset") or x.endswith("textselection_by_offset_unchecked"))
        r_store.hit("selector:insert#%d" % nins, sample={"insert": nins, "constructed_by": ctors})
        if not ctors:
            ctx.report(r_store, "selector:insert#%d" % nins, "AnnotationStore::selector stores a TextSelection that does not come from a validating constructor (provenance: %s)" % sorted(prov)[:6], sel.file, t.get("line"))
    ctx.floor(r_store, nins, 2, "TextSelection insertions in selector()")


# ---------------------------------------------------------------------- BOTH
def both_rule(ctx, prog, rid="C04.BOTH"):
    """every function that turns an `offset` into positions resolves *both* of its cursors with beginaligned_cursor,
    the one place that refuses a cursor outside the text.  In the MIR of each such function the resolution of
    `offset.begin` and that of `offset.end` must each dominate every block that builds the Ok answer: a shortcut that
    derives the end from the begin and a length never looks at the end cursor, so an end beyond the text is accepted."""
    r = ctx.rule(rid, "a function that resolves a cursor of its offset argument resolves both cursors with beginaligned_cursor on every path to an Ok answer")
    n = 0
    for bid, b in sorted(prog.bodies.items()):
        if b.d.get("derived"):
            continue
        cs = [(bi, b.key_of_operand(t["args"][1]) if len(t.get("args", [])) > 1 else "") for bi, t in b.calls()
              if (mirq.callee_of(t)[0] or "").endswith("::beginaligned_cursor") and not b.blocks[bi].get("cleanup")]
        cs = [(bi, k) for bi, k in cs if re.search(r"(^|[&*(. ])offset\.(begin|end)$", k)]
        if not cs:
            continue
        n += 1
        ctx.functions_analysed.add(bid)
        oks = []
        for bi, blk in enumerate(b.blocks):
            if blk.get("cleanup"):
                continue
            for s_ in blk["s"]:
                rv = s_.get("rv") or {}
                if s_["p"]["l"] == 0 and not s_["p"]["p"] and rv.get("r") == "agg" and rv.get("variant") == "Ok":
                    oks.append((bi, s_.get("line")))
        r.hit(mirq.short_fn(bid), sample={"function": bid, "resolutions": [k for _, k in cs], "ok_blocks": len(oks)})
        for which in ("begin", "end"):
            mine = [bi for bi, k in cs if k.endswith("offset." + which)]
            for ob, line in oks:
                if not any(b.dominates(bi, ob) for bi in mine):
                    ctx.report(r, "%s|%s" % (mirq.short_fn(bid), which), "%s can answer Ok without having resolved `offset.%s` with beginaligned_cursor (%s): that cursor is never checked against the text, so an offset whose %s lies outside it is accepted (and clamped or sliced wrongly) where textselection() and annotate() refuse it" % (bid, which, "no such call" if not mine else "the call does not dominate the answer", which), b.file, line)
                    break
    ctx.floor(r, n, 5, "functions that resolve the cursors of an offset (8 counted on the pinned tree; some may come to delegate to another)")
