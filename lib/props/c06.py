"""C06 related-text search returns exactly the selections in the relation.

The iterator = choose position-index sub-ranges and directions per operator
(init_textseliters), walk them, keep what passes refset.test().  'Exactly' splits into
ITER   the enumeration semantics of TextResource::range / TextSelectionIter (structural)
RANGE  none missing: for every operator/modifier value, reference set and candidate, if
       the extracted relation holds then some chosen range contains the candidate's key
       (finite evaluation of the extracted arms against the extracted relation, A7)
FILTER no extras: every yielded handle passed refset.test with the iterator's operator
SELF   only Equals returns the reference itself: both directions exclude refset members
ONCE   per-reference iterators need de-duplication
DEDUP  Vec::dedup() is preceded by a total sort of the same vector
IDXGUARD a membership-guarded insertion tests the container it inserts into (position index halves)"""
import itertools
import re
from synq import Syn, walk, find, unparse, strip
from formula import Evaluator, Interval, OpVal, StructVal, Unknown, Panic, some, is_some, fmt
from relmodel import RelModel, top_match
from core import AnchorMissing


class PushList(list):
    pass


def run(ctx):
    syn = Syn(ctx.facts.syn())
    ctx.level = "proof"
    model = RelModel(syn)
    L = 4 if ctx.tier == "quick" else 6
    limits = (None, 0, 1, 2) if ctx.tier == "quick" else (None, 0, 1, 2, 3)
    # constants of the crate that are larger than the position domain (WHITESPACE_LIMIT = 10) could never
    # bind on texts of length L: they are scaled down, consistently in the search code and in the relation,
    # so that a bound applied on one side only becomes visible (parametric abstraction; stated in the evidence)
    scaled = dict((k, 1) for k, v in model.consts.items() if isinstance(v, int) and not isinstance(v, bool) and v >= L)
    model.consts.update(scaled)
    if scaled:
        ctx.assumptions.append("crate constants %s exceed the text domain and are evaluated as 1 in both the candidate search and the relation" % sorted(scaled))
    ctx.extra["exhaustive"] = True
    ctx.extra["domain"] = "texts of length %d; every reference selection (quick) / every reference set of up to two selections (thorough); every candidate selection; every operator value with limits %s; whitespace predicate both ways" % (L, list(limits))
    ctx.extra["trusted_base"] = ["syn AST dump", "lib/formula.py evaluator", "lib/relmodel.py (the relation itself is the extracted one, proved against its definitions by C13)",
                                 "model of TextResource::range: forward yields selections whose begin is in [lo,hi), backward those whose end is in [lo,hi) (checked structurally by C06.ITER)",
                                 "TextSelectionSet::begin()/end() modelled as min begin / max end (C13.EXTREME checks leftmost/rightmost)"]
    ctx.not_decided += ["order of the results", "reference sets with more than two members"]

    init = syn.fn("init_textseliters", self_ty="FindTextSelectionsIter")
    nxt = syn.fn("next_textselection", self_ty="FindTextSelectionsIter")
    rng = syn.fn("range", self_ty="TextResource")
    it_next = syn.fn("next", self_ty="TextSelectionIter", trait="Iterator")
    it_back = syn.fn("next_back", self_ty="TextSelectionIter", trait="DoubleEndedIterator")
    res_iter = syn.fn("iter", self_ty="TextResource")
    for f in (init, nxt, rng, it_next, it_back, res_iter):
        ctx.functions_analysed.add(f.qual)

    # ---------------- ITER
    r_iter = ctx.rule("C06.ITER", "TextResource::range is half-open [begin, end) on the position index; forward iteration enumerates by begin (begin2end), backward by end (end2begin)")
    src = unparse(rng.body).replace(" ", "")
    r_iter.hit("range-bounds")
    if "(Included(&begin),Excluded(&end))" not in src:
        ctx.report(r_iter, "range-bounds", "TextResource::range no longer uses (Included(begin), Excluded(end)): the range model of C06.RANGE does not describe the code", rng.file, rng.line)
    fsrc, bsrc = unparse(it_next.body), unparse(it_back.body)
    r_iter.hit("directions")
    if "begin2end" not in fsrc or "end2begin" in fsrc or ".next_back()" in fsrc:
        ctx.report(r_iter, "forward", "TextSelectionIter::next must walk the index forward over begin2end only", it_next.file, it_next.line)
    if "end2begin" not in bsrc or "begin2end" in bsrc or "self.iter.next_back()" not in bsrc:
        ctx.report(r_iter, "backward", "TextSelectionIter::next_back must walk the index backward over end2begin only", it_back.file, it_back.line)

    # ---------------- RANGE
    r_range = ctx.rule("C06.RANGE", "the candidate ranges chosen per operator contain every selection for which the relation holds")
    RES = StructVal("TextResource", {"textlen": L})
    ivs = [(b, e) for b in range(L + 1) for e in range(b, L + 1)]

    def ranges_for(op, refs):
        """evaluate init_textseliters: list of (lo, hi, forward)"""
        pushed = PushList()
        ev = model.evaluator()

        def h_begin(ev_, recv, args, node, env):
            if isinstance(recv, list) and not isinstance(recv, PushList):
                return some(min(i["begin"] for i in recv)) if recv else None
            return NotImplemented

        def h_end(ev_, recv, args, node, env):
            if isinstance(recv, list) and not isinstance(recv, PushList):
                return some(max(i["end"] for i in recv)) if recv else None
            return NotImplemented

        def h_range(ev_, recv, args, node, env):
            if isinstance(recv, StructVal) and recv.tyname == "TextResource" and len(args) == 2:
                return ("range", args[0], args[1])
            return NotImplemented

        def h_iter(ev_, recv, args, node, env):
            if isinstance(recv, StructVal) and recv.tyname == "TextResource":
                return ev_.run_body(res_iter.body, {"self": recv})
            if isinstance(recv, list):
                return recv
            return NotImplemented

        def h_push(ev_, recv, args, node, env):
            if isinstance(recv, PushList):
                recv.append(args[0])
                return ()
            return NotImplemented
        ev.hooks.update({"begin": h_begin, "end": h_end, "range": h_range, "iter": h_iter, "push": h_push})
        slf = StructVal("FindTextSelectionsIter", {"operator": op, "refset": [model.interval(*r) for r in refs], "resource": RES, "textseliters": pushed})
        ev.run_body(init.body, {"self": slf})
        out = []
        for item in pushed:
            if not (isinstance(item, tuple) and len(item) == 2 and isinstance(item[0], tuple) and item[0][0] == "range" and isinstance(item[1], bool)):
                raise Unknown("pushed iterator %r" % (item,))
            out.append((item[0][1], item[0][2], item[1]))
        return out

    refsets = [[r] for r in ivs]
    if ctx.tier == "thorough":
        refsets += [[a, b] for a in ivs for b in ivs if a < b]
    ops = model.opvalues(limits)
    groups = {}
    for op in ops:
        lim = op.fields.get("limit")
        gk = "%s{negate:%s%s%s}" % (op.variant, fmt(op.fields.get("negate")), ",limit" if is_some(lim) else "", ",ws" if op.fields.get("allow_whitespace") else "")
        groups.setdefault(gk, []).append(op)
    for gk, gops in sorted(groups.items()):
        if gk.startswith("Equals{negate:false"):
            continue  # handled by the exact look-up shortcut, not by ranges
        r_range.obligations += 1
        bad = None
        unknown = None
        n = 0
        for op in gops:
            for refs in refsets:
                try:
                    rs = ranges_for(op, refs)
                except Unknown as u:
                    unknown = str(u)
                    break
                except Panic as p:
                    bad = bad or ("panic", op, refs, p.kind, p.line)
                    continue
                refobjs = [model.interval(*r) for r in refs]
                for t in ivs:
                    if t in refs and op.variant != "Equals":
                        continue  # the reference itself is excluded by the iterator anyway (C06.SELF)
                    for ws in ((True, False) if op.fields.get("allow_whitespace") else (True,)):
                        try:
                            holds, _ = model.call(model.f_set_test, refobjs, [op, model.interval(*t), "RESOURCE"], ws)
                        except Panic:
                            continue  # reported by C13
                        except Unknown as u:
                            unknown = str(u)
                            break
                        n += 1
                        if holds is True:
                            covered = any((lo <= (t[0] if fwd else t[1]) < hi) for lo, hi, fwd in rs)
                            if not covered and bad is None:
                                bad = ("miss", op, refs, t, rs)
                    if unknown:
                        break
                if unknown:
                    break
            if unknown:
                break
        r_range.hit(gk, sample={"operator_group": gk, "evaluations": n})
        if unknown:
            r_range.unknown += 1
            ctx.report(r_range, "uninterpretable:" + gk, "init_textseliters / the relation cannot be evaluated for %s (%s): obligation not discharged" % (gk, unknown), init.file, init.line)
        elif bad and bad[0] == "miss":
            _, op, refs, t, rs = bad
            ctx.report(r_range, gk, "for %r with reference %s on a text of length %d the relation holds for the selection %s, but the chosen candidate ranges %s do not contain it (forward ranges enumerate by begin, backward by end): the search misses it" % (
                op, refs, L, t, [("%d..%d %s" % (lo, hi, "fwd" if f else "back")) for lo, hi, f in rs]), init.file, init.line, {"operator": repr(op), "reference": refs, "missed": t})
        elif bad:
            ctx.report(r_range, "panic:" + gk, "init_textseliters panics (%s) for %r with reference %s" % (bad[3], bad[1], bad[2]), init.file, bad[4])
        else:
            r_range.discharged += 1
    ctx.floor(r_range, len(groups), 30, "operator groups")

    # ---------------- FILTER / SELF
    r_filter = ctx.rule("C06.FILTER", "outside the Equals shortcut a handle is yielded only under refset.test(&self.operator, candidate, resource)")
    r_self = ctx.rule("C06.SELF", "both iteration directions exclude members of the reference set unconditionally")
    # the else-branch of the `if let Equals {..} = self.operator`
    # (the top-level `if let .. Equals .. = self.operator` with an else branch; guards that return early may precede it)
    top = [n for n in nxt.body["stmts"] if n["k"] == "exprstmt" and n["e"].get("k") == "if" and n["e"].get("else") and strip(n["e"]["cond"]).get("k") == "letexpr" and "Equals" in strip(n["e"]["cond"])["pat"]["s"]]
    if not top or not top[0]["e"].get("else"):
        ctx.anchor_missing(r_filter, "`if let Equals {..} = self.operator {..} else {..}` in next_textselection")
    else:
        normal = top[0]["e"]["else"]
        yields = 0

        def visit(node, conds):
            nonlocal yields
            k = node.get("k")
            if k in ("if", "while"):
                c = node["cond"]
                cs = unparse(c, strip_ref=True) if c.get("k") != "letexpr" else None
                body = node["then"] if k == "if" else node["body"]
                visit(body, conds + ([cs] if cs else []))
                if k == "if" and node.get("else"):
                    visit(node["else"], conds)
                return
            is_yield = (k == "return" and node.get("e") and unparse(node["e"]).startswith("Some(")) or \
                       (k == "mcall" and node["method"] in ("push_back", "push_front") and "buffer" in unparse(node["recv"]))
            if is_yield:
                yields += 1
                r_filter.hit("yield#%d" % yields, sample={"guards": [c[:90] for c in conds]})
                r_self.hit("yield#%d" % yields)
                conj = []
                for c in conds:
                    conj += split_and(c)
                if not any(re.match(r"^self\.refset\.test\(self\.operator,\w+,self\.resource\)$", a) for a in conj):
                    ctx.report(r_filter, "yield#%d" % yields, "a candidate is yielded without passing self.refset.test(&self.operator, candidate, self.resource) (guards: %s)" % conj, nxt.file, node["l"])
                if not any(re.match(r"^!self\.refset\.has_handle\(", a) for a in conj):
                    ctx.report(r_self, "yield#%d" % yields, "a candidate is yielded without the unconditional exclusion `!self.refset.has_handle(..)` (guards: %s): the reference selection can be returned by its own search" % conj, nxt.file, node["l"])
            for key, v in node.items():
                if isinstance(v, dict):
                    visit(v, conds)
                elif isinstance(v, list):
                    for e in v:
                        if isinstance(e, dict):
                            visit(e, conds)
        visit(normal, [])
        ctx.floor(r_filter, yields, 3, "yield sites")

    # ---------------- the Equals shortcut is the only way the reference itself is returned: it must serve every positive Equals
    import formula as _f
    eqs = [n for n in walk(nxt.body) if n.get("k") == "if" and strip(n["cond"]).get("k") == "letexpr" and "Equals" in strip(n["cond"])["pat"]["s"]]
    r_self.hit("equals-shortcut")
    if len(eqs) != 1:
        ctx.anchor_missing(r_self, "`if let TextSelectionOperator::Equals {..} = self.operator` in next_textselection")
    else:
        pat = strip(eqs[0]["cond"])["pat"]
        for allv in (False, True):
            for neg in (False, True):
                got = _f.match_pat(pat, OpVal("Equals", {"all": allv, "negate": neg}), {})
                if got != (not neg):
                    ctx.report(r_self, "equals-shortcut:all=%s,negate=%s" % (fmt(allv), fmt(neg)), "the Equals shortcut of next_textselection %s Equals{all:%s,negate:%s}: %s" % (
                        "does not take" if not got else "takes", fmt(allv), fmt(neg),
                        "that operator value goes through the general path, whose self-exclusion removes the one selection that is equal (the search returns nothing)" if not got else "a negated Equals must go through the general path"), nxt.file, eqs[0].get("l"))

    # ---------------- ONCE
    r_once = ctx.rule("C06.ONCE", "operators that open one candidate iterator per reference item de-duplicate what they yield")
    per_ref = []
    m = top_match(init)
    for a in m["arms"]:
        for lp in find(a["body"], "for"):
            if "refset" in unparse(lp["iter"]) and any(n.get("k") == "mcall" and n["method"] == "push" for n in walk(lp["body"])):
                per_ref.append(re.sub(r"\s+", "", a["pat"]["s"])[:60])
    outer = syn.fn("next", self_ty="FindTextSelectionsIter", trait="Iterator")
    ctx.functions_analysed.add(outer.qual)
    st = syn.structs.get("FindTextSelectionsIter")
    setfields = [f["name"] for f in (st["fields"] if st else []) if re.search(r"(BTreeSet|HashSet)<", f["ty"]["s"].replace(" ", ""))]
    dedup = False
    for fnode in (nxt, outer):
        for n in find(fnode.body, "if"):
            c = unparse(n["cond"])
            if any(re.search(r"self\.%s\.(insert|contains)\(" % sf, c) for sf in setfields):
                dedup = True
    # every value next() hands out passed the insertion into the seen-set on its way out: the gate must be
    # `if self.<set>.insert(v) { return Some(v) }`, not a membership test made when the value was buffered
    if per_ref:
        def gated(node, gates):
            k = node.get("k")
            if k == "if":
                c = node["cond"]
                g = None
                if c.get("k") != "letexpr":
                    m_ = re.fullmatch(r"self\.(\w+)\.insert\((\w+)\)", unparse(c, strip_ref=True))
                    if m_ and m_.group(1) in setfields:
                        g = m_.group(2)
                gated(node["then"], gates + ([g] if g else []))
                if node.get("else") is not None:
                    gated(node["else"], gates)
                return
            if k == "return" and node.get("e") is not None:
                src_ = unparse(strip(node["e"]))
                if src_ == "None":
                    return
                r_once.hit("return:" + src_[:30])
                m_ = re.fullmatch(r"Some\((\w+)\)", src_)
                if not (m_ and m_.group(1) in gates):
                    ctx.report(r_once, "ungated-return:" + re.sub(r"\W+", "_", src_)[:40], "FindTextSelectionsIter::next returns `%s` on a path that does not pass `if self.<seen-set>.insert(..)` for that value: a selection reachable through two candidate iterators is returned twice" % src_, outer.file, node.get("l"))
                return
            for ch in children(node):
                gated(ch, gates)
        from synq import children
        gated(outer.body, [])
    for p in per_ref:
        r_once.hit(p)
    if per_ref and not dedup:
        ctx.report(r_once, "per-reference-iterators", "arms %s push one iterator per reference item, and next_textselection yields from each without de-duplication: a selection related to two reference items is returned twice" % per_ref, init.file, init.line)

    # ---------------- DEDUP (whole crate)
    r_dd = ctx.rule("C06.DEDUP", "every Vec::dedup() is preceded by a total sort of the same vector (duplicates must be adjacent)")
    ndd = 0
    for fn in syn.fns:
        if not fn.body:
            continue

        def scan(blk):
            nonlocal ndd
            stmts = blk["stmts"]
            for i, s in enumerate(stmts):
                e = s.get("e") if s["k"] == "exprstmt" else None
                if e and e.get("k") == "mcall" and e["method"] == "dedup" and not e["args"]:
                    v = unparse(e["recv"])
                    ndd += 1
                    key = "%s|%s" % (fn.qual, v)
                    r_dd.hit(key)
                    ok = None
                    for p in reversed(stmts[:i]):
                        pe = p.get("e") if p["k"] == "exprstmt" else None
                        if pe and pe.get("k") == "mcall" and unparse(pe["recv"]) == v and pe["method"].startswith("sort"):
                            if pe["method"] in ("sort", "sort_unstable"):
                                ok = True
                            elif pe["method"] in ("sort_by", "sort_unstable_by") and pe["args"] and pe["args"][0].get("k") == "closure":
                                body = unparse(pe["args"][0]["body"], strip_ref=True)
                                body = re.sub(r"^\{(.*)\}$", r"\1", body.strip())
                                names = [q["s"].strip() for q in pe["args"][0]["inputs"]]
                                ok = bool(len(names) == 2 and re.match(r"^%s\.(cmp|partial_cmp)\(%s\)(\.unwrap\(\)|\.expect\(.*\))?$" % (names[0], names[1]), body))
                            else:
                                ok = False
                            break
                    if ok is not True:
                        ctx.report(r_dd, key, "%s calls %s.dedup() %s: equal elements are not guaranteed to be adjacent, duplicates survive" % (
                            fn.qual, v, "after sorting by a key/projection instead of the whole element" if ok is False else "without a preceding sort of that vector in the same block"), fn.file, e["l"])
            for n in walk(blk):
                if n is not blk and n.get("k") == "block":
                    pass
        for b in [n for n in walk(fn.body) if n.get("k") == "block"]:
            scan(b)
    ctx.floor(r_dd, ndd, 15, "dedup() calls")

    # ---------------- IDXGUARD (whole crate)
    r_g = ctx.rule("C06.IDXGUARD", "a membership-guarded insertion tests the container it inserts into: `if !X.contains(v) { Y.push(v) }` requires X == Y (the two halves of the position index are maintained independently)")
    ng = 0
    for fn in syn.fns:
        if not fn.body:
            continue
        for n in walk(fn.body):
            if n.get("k") != "if":
                continue
            c = strip(n["cond"])
            if not (c.get("k") == "unary" and c["op"] == "!"):
                continue
            c = strip(c["e"])
            if not (c.get("k") == "mcall" and c["method"] == "contains" and strip(c["recv"]).get("k") == "field"):
                continue
            x = unparse(strip(c["recv"]), True)
            pushes = []
            for s_ in n["then"]["stmts"]:
                e = s_.get("e") if s_["k"] == "exprstmt" else None
                e = strip(e) if e else None
                if e and e.get("k") == "mcall" and e["method"] in ("push", "push_back", "insert") and strip(e["recv"]).get("k") == "field":
                    pushes.append((unparse(strip(e["recv"]), True), e))
            if not pushes:
                continue
            ng += 1
            key = "%s|%s" % (fn.qual, x)
            r_g.hit(key, sample={"fn": fn.qual, "guard": x + ".contains", "inserts_into": [p_[0] for p_ in pushes]})
            for y, e in pushes:
                if y != x and y.rsplit(".", 1)[0] == x.rsplit(".", 1)[0]:
                    ctx.report(r_g, key + "->" + y, "%s inserts into %s under the guard !%s.contains(..): the guard looks at a different container, so the entry is skipped whenever the other container happens to hold an equal element (and duplicates are not prevented)" % (fn.qual, y, x), fn.file, e["l"])
    ctx.floor(r_g, ng, 4, "membership-guarded insertions")
    refset_rule(ctx, syn)
    shortcut_rule(ctx)
    refres_rule(ctx, syn)
    exhaust_rule(ctx, syn)


def split_and(c):
    """top-level conjuncts of an unparsed condition like ((a&&b)&&c)"""
    c = c.strip()
    while c.startswith("(") and matching(c) == len(c) - 1:
        inner = c[1:-1]
        # split at top-level &&
        depth = 0
        for i in range(len(inner) - 1):
            ch = inner[i]
            if ch in "([{":
                depth += 1
            elif ch in ")]}":
                depth -= 1
            elif depth == 0 and inner[i:i + 2] == "&&":
                return split_and(inner[:i]) + split_and(inner[i + 2:])
        c = inner
    return [c]


def matching(s):
    depth = 0
    for i, ch in enumerate(s):
        if ch == "(":
            depth += 1
        elif ch == ")":
            depth -= 1
            if depth == 0:
                return i
    return -1


def refset_rule(ctx, syn):
    """self-exclusion (C06.SELF) is by handle: refset.has_handle(candidate).  A reference set built from known selections
    must therefore carry their handles, i.e. hold the stored TextSelection values and not fresh ones made from offsets."""
    r = ctx.rule("C06.REFSET", "a reference set built from known text selections holds the stored selections themselves (with their handles): the conversions into TextSelectionSet never make a new TextSelection from the offsets")
    n = 0
    for fn in syn.fns:
        if fn.file != "src/textselection.rs" or not fn.body or (fn.self_ty or "") != "TextSelectionSet":
            continue
        tr = fn.trait or ""
        if not (re.match(r"^(From|FromIterator)<", tr) and ("TextSelection" in tr) and "ResultTextSelectionSet" not in tr):
            continue
        n += 1
        ctx.functions_analysed.add(fn.qual)
        r.hit(fn.qual, sample={"conversion": fn.qual})
        for lit in walk(fn.body):
            if lit.get("k") == "structlit" and lit["path"][-1] == "TextSelection":
                ctx.report(r, fn.qual, "%s builds a new TextSelection { .. } for the set instead of taking the known selection itself: the handle is lost, has_handle() no longer recognises the reference, and a search from a known selection returns that selection as related to itself" % fn.qual, fn.file, lit.get("l"))
    ctx.floor(r, n, 4, "conversions of known selections into TextSelectionSet")


# ---------------------------------------------------------------------- EMPTY / ALLORNONE
def shortcut_rule(ctx):
    """two path properties of FindTextSelectionsIter::next_textselection (MIR):
    EMPTY - a reference set without members (an annotation that has no text) has no extent: init_textseliters unwraps
    begin()/end() and the iterator vector is indexed at 0, so the emptiness of the reference must be tested before;
    ALLORNONE - the Equals shortcut answers only if every member of the reference is a known selection: the path on
    which known_textselection finds nothing must drop what was buffered for the earlier members."""
    import mirq
    prog = mirq.Program(ctx.facts.mir())
    r1 = ctx.rule("C06.EMPTY", "in next_textselection every path to init_textseliters passes through a test of TextSelectionSet::is_empty on the reference set (searching from no text gives nothing, not a panic)")
    r2 = ctx.rule("C06.ALLORNONE", "in the Equals shortcut every path from a failed known_textselection look-up to the return passes through buffer.clear(): members found before the miss are not returned")
    bs = prog.find_bodies(r"FindTextSelectionsIter::<'store>::next_textselection$")
    if len(bs) != 1:
        ctx.anchor_missing(r1, "FindTextSelectionsIter::next_textselection")
        return
    b = bs[0]
    ctx.functions_analysed.add(b.id)
    calls = dict((bi, mirq.callee_of(t)[0] or "") for bi, t in b.calls())
    inits = [bi for bi, c in calls.items() if c.endswith("init_textseliters")]
    empties = set(bi for bi, c in calls.items() if c.endswith("TextSelectionSet::is_empty"))
    rets = [bi for bi, blk in enumerate(b.blocks) if blk["t"]["t"] == "return"]
    r1.hit("next_textselection", sample={"init_calls": len(inits), "emptiness_tests": len(empties)})
    if not inits:
        ctx.anchor_missing(r1, "call of init_textseliters in next_textselection")
    for i_ in inits:
        if 0 not in empties and b.can_reach(0, i_, avoid=empties):
            ctx.report(r1, "unguarded-init", "next_textselection can reach init_textseliters without having tested whether the reference set is empty: with an annotation that has no text as reference, refset.begin().unwrap() / textseliters[0] panic", b.file, b.blocks[i_]["t"].get("line"))
            break
    known = [bi for bi, c in calls.items() if c.endswith("TextResource::known_textselection")]
    pushes = set(bi for bi, c in calls.items() if c.endswith("VecDeque::<T, A>::push_back"))
    clears = set(bi for bi, c in calls.items() if c.endswith("VecDeque::<T, A>::clear"))
    somes = set(bi for bi, blk in enumerate(b.blocks) if any((s_.get("rv") or {}).get("r") == "agg" and s_["rv"].get("variant") == "Some" and s_["p"]["l"] == 0 and not s_["p"]["p"] for s_ in blk["s"]))
    r2.hit("equals-shortcut", sample={"look_ups": len(known), "buffer_clears": len(clears)})
    if not known:
        ctx.anchor_missing(r2, "known_textselection look-up in next_textselection")
    for k_ in known:
        t = b.blocks[k_]["t"]
        nxt = t.get("target")
        # the miss path: from the look-up to a return without a success (push to the buffer / Some(handle) returned) - and without the clear
        avoid = pushes | clears | somes | set(inits)
        if isinstance(nxt, int) and nxt not in avoid and any(nxt == rt or b.can_reach(nxt, rt, avoid=avoid) for rt in rets):
            ctx.report(r2, "miss-keeps-buffer", "in the Equals shortcut of next_textselection the path on which known_textselection finds no selection for a member of the reference set reaches the return without clearing the buffer: the selections found for earlier members are returned although the comment (and the all-or-nothing meaning of EQUALS on a set) says none are", b.file, t.get("line"))
            break


# ---------------------------------------------------------------------- REFRES
def refres_rule(ctx, syn, rid="C06.REFRES"):
    """the search runs over the position index of `refset.resource()`.  A set collected from result selections is created
    with a dummy resource handle; FromIterator<ResultTextSelection> is evaluated on one- and two-member sequences of bound
    and unbound selections of resource 7: the set must end up on resource 7 whatever kind its first member is."""
    from formula import Evaluator, Unknown, Panic, StructVal, EnumVal, some
    r = ctx.rule(rid, "a TextSelectionSet collected from ResultTextSelections takes the resource of its first member whether that member is bound or unbound (evaluated on all one- and two-member sequences)")
    fns = [f for f in syn.fns if f.name == "from_iter" and f.file == "src/textselection.rs" and (f.self_ty or "") == "TextSelectionSet" and re.sub(r"<.store>", "", f.trait or "") == "FromIterator<ResultTextSelection>" and f.body is not None]
    if len(fns) != 1:
        ctx.anchor_missing(r, "FromIterator<ResultTextSelection> for TextSelectionSet")
        return
    fn = fns[0]
    ctx.functions_analysed.add(fn.qual)
    RES = StructVal("Resource", {"handle": some(7)})

    def is_rts(v):
        return isinstance(v, EnumVal) and v.name in ("Bound", "Unbound")

    def h_store(ev, recv, args, node, env):
        if is_rts(recv) or (isinstance(recv, StructVal) and recv.tyname == "ResultItem"):
            return RES
        return NotImplemented

    def h_handle(ev, recv, args, node, env):
        if isinstance(recv, StructVal) and recv.tyname == "Resource":
            return recv["handle"]
        return NotImplemented

    def h_expect(ev, recv, args, node, env):
        if isinstance(recv, tuple) and recv and recv[0] == "some":
            return recv[1]
        if recv is None:
            raise Panic("expect-on-none", node.get("l"))
        return NotImplemented

    def h_add(ev, recv, args, node, env):
        if isinstance(recv, StructVal) and "data" in recv and len(args) == 1:
            recv["data"].append(args[0])
            return ()
        return NotImplemented

    def h_as_ref(ev, recv, args, node, env):
        if isinstance(recv, StructVal) and recv.tyname == "ResultItem":
            return recv["item"]
        return NotImplemented

    def h_is_empty(ev, recv, args, node, env):
        if isinstance(recv, StructVal) and "data" in recv:
            return len(recv["data"]) == 0
        return NotImplemented
    hooks = {"store": h_store, "resource": h_store, "handle": h_handle, "expect": h_expect, "unwrap": h_expect, "add": h_add, "as_ref": h_as_ref, "is_empty": h_is_empty,
             "call:SmallVec::new": lambda ev, recv, args, node, env: [], "call:TextResourceHandle::new": lambda ev, recv, args, node, env: ("dummy", args[0]),
             "call:Self::new": lambda ev, recv, args, node, env: StructVal("Self", {"data": [], "resource": args[0], "sorted": False}),
             "call:TextSelectionSet::new": lambda ev, recv, args, node, env: StructVal("Self", {"data": [], "resource": args[0], "sorted": False})}
    B = lambda n_: EnumVal("Bound", [StructVal("ResultItem", {"item": ("sel", n_)})])
    U = lambda n_: EnumVal("Unbound", ["STORE", RES, ("sel", n_)])
    params = [(p_.get("pat") or {}).get("name") for p_ in fn.sig["inputs"]]
    n = 0
    for seq, label in (([B(1)], "bound"), ([U(1)], "unbound"), ([B(1), U(2)], "bound,unbound"), ([U(1), B(2)], "unbound,bound"), ([U(1), U(2)], "unbound,unbound"), ([B(1), B(2)], "bound,bound")):
        try:
            got = Evaluator(hooks=hooks).run_body(fn.body, {params[0]: list(seq)})
        except (Unknown, Panic) as ex:
            ctx.report(r, "unevaluated", "FromIterator<ResultTextSelection> for TextSelectionSet could not be evaluated (%s): which resource the collected set is searched in is not established" % ex, fn.file, fn.line)
            break
        n += 1
        res = got.get("resource") if isinstance(got, dict) else None
        r.hit(label, sample={"members": label, "resource": repr(res)})
        if res != 7:
            ctx.report(r, "dummy-resource:" + label.split(",")[0] + "-first", "a set collected from the selections (%s) of resource 7 ends up with resource %r: related_text() on it searches the position index of another resource (the dummy handle 0) with this set's offsets" % (label, res), fn.file, fn.line)
        if isinstance(got, dict) and len(got.get("data", [])) != len(seq):
            ctx.report(r, "members:" + label, "a set collected from %d selections holds %d members" % (len(seq), len(got.get("data", []))), fn.file, fn.line)
    ctx.floor(r, n, 6, "member sequences evaluated")


# ---------------------------------------------------------------------- EXHAUST
def exhaust_rule(ctx, syn, rid="C06.EXHAUST"):
    """RANGE shows that the candidate ranges contain every related selection; they are of use only if the search looks
    at all of them.  next_textselection moves on to the next candidate iterator (self.next_iterator()) when the current
    one is exhausted - never while it still yields: candidates come ordered by begin position only, so no property of
    the one just seen (its end, say) tells anything about the ones that follow."""
    from synq import children
    r = ctx.rule(rid, "in next_textselection, self.next_iterator() is called only where the current candidate iterator has returned None (the else of `if let Some(c) = ..next()`, or after a `while let Some(c) = ..next_back()` loop), never inside the branch that handles a candidate")
    fns = [f for f in syn.fns if f.name == "next_textselection" and (f.self_ty or "").startswith("FindTextSelectionsIter") and f.body is not None]
    if len(fns) != 1:
        ctx.anchor_missing(r, "FindTextSelectionsIter::next_textselection")
        return
    fn = fns[0]
    calls = []

    def yields(cond):
        c = strip(cond)
        return c.get("k") == "letexpr" and "Some" in (c["pat"].get("s") or "") and re.search(r"\.next(_back)?\(\)$", unparse(c["e"]).replace(" ", "")) is not None

    def visit(nd, inside):
        if not isinstance(nd, dict):
            return
        k = nd.get("k")
        if k == "mcall" and nd["method"] == "next_iterator" and unparse(strip(nd["recv"])) == "self":
            calls.append((nd.get("l"), inside))
        if k == "if" and yields(nd["cond"]):
            visit(nd["cond"], inside)
            visit(nd["then"], True)
            if nd.get("else"):
                visit(nd["else"], inside)
            return
        if k == "while" and yields(nd["cond"]):
            visit(nd["body"], True)
            return
        for c_ in children(nd):
            visit(c_, inside)
    visit(fn.body, False)
    n = 0
    for line, inside in calls:
        n += 1
        r.hit("next_iterator#%d" % n, sample={"line_in_fn": n, "while_iterator_yields": inside})
        if inside:
            ctx.report(r, "abandons-iterator", "next_textselection calls self.next_iterator() inside the branch that handles a candidate the iterator has just yielded: the rest of that candidate range is never looked at, so related selections that begin later in it are missing from the result", fn.file, line)
    ctx.floor(r, n, 2, "next_iterator() calls")
