"""C01 reverse lookups agree with forward references: structural necessary conditions.

OWN  who may write index / id-map / store fields (field effects + accessor call sites)
PAIR every index written by inserted() is un-written by preremove(), from the matching accessor
POS  handle-indexed vectors are never shifted
INV  guard/use contradictions on index bounds
CFG  each index is guarded by its own configuration flag
NEW  every inserted tuple ends in the callback's own handle (lists grow in handle order)
ONCE a text selection is inserted only on the not-known-yet edge of a look-up"""
import json
import os
import re
import mirq
import panics
from effects import field_effects, accessor_callers
from synq import Syn, walk, find, unparse, strip, norm_ty
from core import VERIF

INDEX_FIELDS = {
    "annotationstore::AnnotationStore": ["annotations", "annotationsets", "resources", "substores", "annotation_idmap", "resource_idmap", "dataset_idmap", "substore_idmap",
                                         "dataset_data_annotation_map", "textrelationmap", "resource_annotation_metamap", "dataset_annotation_metamap", "annotation_annotation_map",
                                         "key_annotation_metamap", "data_annotation_metamap", "annotation_substore_map", "resource_substore_map", "dataset_substore_map"],
    "resources::TextResource": ["textselections", "positionindex", "byte2charmap", "text", "textlen"],
    "annotationdataset::AnnotationDataSet": ["keys", "data", "key_idmap", "data_idmap", "key_data_map"],
    "store::RelationMap": ["data"], "store::TripleRelationMap": ["data"], "store::RelationBTreeMap": ["data"], "store::ExclusiveRelationMap": ["data"],
    "store::IdMap": ["data"], "textselection::PositionIndex": ["0"], "textselection::PositionIndexItem": ["begin2end", "end2begin", "bytepos"],
    "annotation::Annotation": ["data", "target"], "textselection::TextSelection": ["begin", "end", "intid"],
}

# index field -> accessor of ResultItem<Annotation> that enumerates the entries preremove must delete
ACCESSOR = {
    "annotation_annotation_map": "annotations_in_targets",
    "resource_annotation_metamap": "resources_as_metadata",
    "dataset_annotation_metamap": "datasets",
    "dataset_data_annotation_map": "data",
    "data_annotation_metamap": "data_as_metadata",
    "key_annotation_metamap": "keys_as_metadata",
    "textrelationmap": "textselections",
}

SHIFTING = {"remove", "insert", "swap_remove", "drain", "retain", "retain_mut", "dedup", "dedup_by", "dedup_by_key", "truncate", "split_off", "pop", "sort", "sort_unstable", "sort_by", "reverse", "rotate_left", "rotate_right", "splice", "extract_if"}


def load_owners():
    with open(os.path.join(VERIF, "rules", "owners.json")) as fh:
        return json.load(fh)


def self_field(e):
    """`self.F` -> F"""
    e = strip(e)
    if e.get("k") == "field" and strip(e["base"]).get("k") == "path" and strip(e["base"])["path"] == ["self"]:
        return e["member"]
    return None


def own_rule(ctx, prog, rule, owners_key="fields"):
    owners = load_owners()
    eff = field_effects(prog)
    n = 0
    for adt, flds in INDEX_FIELDS.items():
        for f in flds:
            k = "%s.%s" % (adt, f)
            allowed = owners.get(owners_key, {}).get(k, {})
            for bid, line in sorted(eff.get((adt, f), {}).items()):
                n += 1
                rule.hit("%s<-%s" % (k, bid), sample={"field": k, "writer": bid})
                b = prog.bodies[bid]
                if b.d.get("derived"):
                    continue
                if bid not in allowed:
                    ctx.report(rule, "%s<-%s" % (k, bid), "%s writes (mutably borrows or assigns) %s but is not one of its sanctioned writers %s" % (bid, k, sorted(allowed)), b.file, line)
    acc = accessor_callers(prog, {"store_mut", "idmap_mut"})
    for name, cs in acc.items():
        allowed = owners.get("accessors", {}).get(name, {})
        for bid, line in sorted(cs.items()):
            n += 1
            rule.hit("%s()<-%s" % (name, bid))
            if bid not in allowed:
                b = prog.bodies[bid]
                ctx.report(rule, "%s()<-%s" % (name, bid), "%s obtains mutable access to a store / id map through %s() but is not a sanctioned caller %s" % (bid, name, sorted(allowed)), b.file, line)
    return n


def run(ctx):
    prog = mirq.Program(ctx.facts.mir())
    syn = Syn(ctx.facts.syn())
    ctx.not_decided += ["that API iterators return exactly the index content (FromHandles skips unresolvable handles)", "content of the position index", "chronological order after protect_text (appends an existing handle)"]
    ctx.assumptions += ["all mutation of stores goes through StoreFor::insert/remove and the callbacks (established in-crate by C01.OWN; the index fields are private - witness W1 - but the low-level accessors StoreFor::store_mut / idmap_mut are public trait methods: code outside the crate that uses them directly is outside the operations this property quantifies over)"]

    sorted_rule(ctx, syn)
    row_rule(ctx, syn)
    emptyrow_rule(ctx, syn)
    triple_rule(ctx, syn)
    rangerec_rule(ctx, syn)
    exclusive_rule(ctx, syn)
    compress_rule(ctx, syn)
    expand_rule(ctx, syn)
    multiarms_rule(ctx, syn)
    from props.c02 import scope_rule
    import mirq as _mirq
    scope_rule(ctx, _mirq.Program(ctx.facts.mir()), rid="C01.SCOPE")   # a wiped sibling row is a reverse look-up that misses live annotations
    from props.c02 import pred_rule
    pred_rule(ctx, syn, rid="C01.PRED")   # the forward list loses exactly the (set, data) entry whose index entry is removed with it
    guard_rule(ctx, syn)

    r_own = ctx.rule("C01.OWN", "index, id-map, store and position-index fields are written only by their sanctioned writers")
    n = own_rule(ctx, prog, r_own)
    lowlevel_rule(ctx, prog)
    ctx.floor(r_own, n, 60, "field writers")

    # ---------------- PAIR / CFG / NEW on the annotation callbacks
    r_pair = ctx.rule("C01.PAIR", "every index that inserted() writes is un-written by preremove(), enumerating the same relation")
    r_cfg = ctx.rule("C01.CFG", "each index write in inserted() is guarded by the configuration flag of that index")
    r_new = ctx.rule("C01.NEW", "every tuple written by inserted() ends in the new annotation's own handle")
    ins = syn.fn("inserted", self_ty="AnnotationStore", trait="private::StoreCallbacks<Annotation>")
    pre = syn.fn("preremove", self_ty="AnnotationStore", trait="private::StoreCallbacks<Annotation>")
    ctx.functions_analysed.update([ins.qual, pre.qual])
    cfg = syn.structs.get("Config")
    cfg_fields = set(f["name"] for f in cfg["fields"]) if cfg else set()
    handle_param = ins.sig["inputs"][0]["pat"].get("name") if ins.sig["inputs"] else None
    if handle_param is None:
        ctx.anchor_missing(r_new, "handle parameter of inserted()")

    ins_fields = {}

    def visit(node, guards):
        k = node.get("k")
        if k == "if":
            g = None
            c = strip(node["cond"])
            if c.get("k") == "field" and unparse(strip(c["base"])) == "self.config":
                g = c["member"]
            visit_children(node["cond"], guards)
            visit(node["then"], guards + ([g] if g else []))
            if node.get("else"):
                visit(node["else"], guards)
            return
        if k == "mcall" and node["method"] in ("insert", "extend", "push"):
            f = self_field(node["recv"])
            if f and f.endswith("map"):
                ins_fields.setdefault(f, []).append((node, list(guards)))
        if k == "assign" and strip(node["left"]).get("k") == "path" and len(strip(node["left"])["path"]) == 1 and unparse(strip(node["right"])) in ("true", "false"):
            switches.append((strip(node["left"])["path"][0], list(guards), node))
        visit_children(node, guards)

    def visit_children(node, guards):
        for key, v in node.items():
            if isinstance(v, dict):
                visit(v, guards)
            elif isinstance(v, list):
                for e in v:
                    if isinstance(e, dict):
                        visit(e, guards)

    switches = []
    visit(ins.body, [])
    # the annotation is indexed under what its *own* target names: the selector walk must not follow annotation selectors
    # into the targets of the annotations it points at (preremove un-indexes through the non-recursive view)
    walks = [c_ for c_ in walk(ins.body) if c_.get("k") == "mcall" and c_["method"] == "iter" and len(c_["args"]) == 2 and unparse(strip(c_["recv"])).endswith(".target()")]
    for c_ in walks:
        flag = unparse(strip(c_["args"][1]))
        r_new.hit("target-walk", sample={"walk": unparse(c_)[:60], "recurse_annotation": flag})
        if flag != "false":
            ctx.report(r_new, "target-walk:recursive", "inserted() walks the new annotation's target with recurse_annotation = %s: the annotation is also indexed under everything the annotations it targets refer to (text, resources, annotations), so reverse look-ups return it for items its own target does not name, and removal (which un-indexes the non-recursive view) leaves those entries behind" % flag, ins.file, c_.get("l"))
    if not walks:
        ctx.anchor_missing(r_new, "annotation.target().iter(self, <recurse>) in inserted()")
    # a local switch that routes the annotation to a later block which fills several indices must not hang on one index's flag
    for name, guards, node in switches:
        gated = [x for x in walk(ins.body) if x.get("k") == "if" and unparse(strip(x["cond"])) == name]
        fields_behind = set()
        for gnode in gated:
            for x in walk(gnode["then"]):
                if x.get("k") == "mcall" and x["method"] in ("insert", "extend", "push"):
                    f_ = self_field(x["recv"])
                    if f_ and f_.endswith("map"):
                        fields_behind.add(f_)
        if not fields_behind:
            continue
        r_cfg.hit("switch:%s" % name)
        foreign = [g for g in guards if g in cfg_fields and (fields_behind - {g})]
        if foreign:
            ctx.report(r_cfg, "switch:%s<-%s" % (name, foreign[0]), "inserted() sets the switch `%s` (which leads to the block that fills %s) only under self.config.%s: with that one index switched off the annotation is left out of the *other* indices as well (e.g. an annotation on part of another annotation's text is not found through its text)" % (name, sorted(fields_behind), foreign[0]), ins.file, node.get("l"))
    for f, sites in sorted(ins_fields.items()):
        for node, guards in sites:
            r_cfg.hit("%s@%s" % (f, node["method"]))
            if f in cfg_fields and f not in guards:
                ctx.report(r_cfg, f, "inserted() writes index %s without testing self.config.%s (guards seen: %s): the index is filled although it is switched off, or switched by the wrong flag" % (f, f, guards), ins.file, node["l"])
            if node["method"] == "insert":
                r_new.hit("%s.insert" % f)
                last = unparse(strip(node["args"][-1])) if node["args"] else ""
                if last != handle_param:
                    ctx.report(r_new, "%s.insert" % f, "inserted() writes %s with last element `%s`, not the new annotation's handle `%s`" % (f, last, handle_param), ins.file, node["l"])
    # tuples pushed into the intermediate vectors
    for n_ in walk(ins.body):
        if n_.get("k") == "mcall" and n_["method"] == "push" and n_["args"] and strip(n_["args"][0]).get("k") == "tuple":
            tup = strip(n_["args"][0])
            r_new.hit("push:%s" % unparse(n_["recv"]))
            last = unparse(strip(tup["elems"][-1]))
            if last != handle_param:
                ctx.report(r_new, "push:%s" % unparse(n_["recv"]), "inserted() collects a tuple ending in `%s`, not the new annotation's handle" % last, ins.file, n_["l"])
    ctx.floor(r_cfg, sum(len(v) for v in ins_fields.values()), 12, "index writes in inserted()")

    # preremove: loops `for X in COLL { self.F.remove(.., handle) }` and COLL's accessor
    coll_acc = {}
    for s in walk(pre.body):
        if s.get("k") == "let" and s.get("init"):
            names = [p["name"] for p in walk(s["pat"]) if p.get("k") == "pat" and p.get("p") == "ident"]
            base = s["init"]
            # walk down the method chain to the root receiver
            chain = []
            e = base
            while e.get("k") in ("mcall", "try", "paren"):
                if e.get("k") == "mcall":
                    chain.append(e["method"])
                    e = e["recv"]
                else:
                    e = e["e"]
            if e.get("k") == "path" and e["path"] == ["annotation"] and chain and names:
                coll_acc[names[0]] = chain[-1]
    rem_fields = {}
    for lp in find(pre.body, "for"):
        coll = unparse(strip(lp["iter"]))
        for n_ in walk(lp["body"]):
            if n_.get("k") == "mcall" and n_["method"] == "remove":
                f = self_field(n_["recv"])
                if f:
                    rem_fields.setdefault(f, []).append((coll_acc.get(coll), n_["l"], coll))
    for n_ in walk(pre.body):
        if n_.get("k") == "mcall" and n_["method"] == "remove_all":
            f = self_field(n_["recv"])
            if f:
                rem_fields.setdefault(f, [])
    for f in sorted(set(ins_fields) | set(rem_fields)):
        r_pair.hit(f, sample={"index": f, "inserted": f in ins_fields, "removed_from": [a for a, _, _ in rem_fields.get(f, [])]})
        if f in ins_fields and not rem_fields.get(f):
            ctx.report(r_pair, "never-removed:" + f, "inserted() adds entries to %s but preremove() never removes them: a removed annotation stays in that reverse index" % f, pre.file, pre.line)
        if f in rem_fields and f not in ins_fields:
            ctx.report(r_pair, "never-inserted:" + f, "preremove() removes entries from %s which inserted() never writes" % f, pre.file, pre.line)
        want = ACCESSOR.get(f)
        for acc, line, coll in rem_fields.get(f, []):
            if want and acc and acc != want:
                ctx.report(r_pair, "family:%s<-%s" % (f, acc), "preremove() deletes the tuples enumerated by annotation.%s() from %s, but that index holds the relation enumerated by annotation.%s()" % (acc, f, want), pre.file, line)
        if want and f in ins_fields and rem_fields.get(f) and want not in [a for a, _, _ in rem_fields[f]]:
            ctx.report(r_pair, "family-missing:%s" % f, "preremove() never deletes the tuples of annotation.%s() from %s" % (want, f), pre.file, pre.line)
    ctx.floor(r_pair, len(set(ins_fields) | set(rem_fields)), 7, "annotation indices")

    # dataset callbacks: key_data_map
    for tr, nm in (("private::StoreCallbacks<AnnotationData>", "AnnotationData"),):
        i2 = syn.fn("inserted", self_ty="AnnotationDataSet", trait=tr)
        p2 = syn.fn("preremove", self_ty="AnnotationDataSet", trait=tr)
        fi = set(self_field(n_["recv"]) for n_ in walk(i2.body) if n_.get("k") == "mcall" and n_["method"] in ("insert", "extend")) - {None}
        fr = set(self_field(n_["recv"]) for n_ in walk(p2.body) if n_.get("k") == "mcall" and n_["method"] in ("remove", "remove_all")) - {None}
        r_pair.hit("dataset:" + nm)
        if fi != fr:
            ctx.report(r_pair, "dataset:%s" % nm, "AnnotationDataSet callbacks for %s: inserted() writes %s but preremove() un-writes %s" % (nm, sorted(fi), sorted(fr)), p2.file, p2.line)

    # ---------------- POS
    r_pos = ctx.rule("C01.POS", "vectors indexed by handle (stores, outer vectors of relation maps) are never shifted, truncated or reordered")
    npos = 0
    for bid, b in prog.bodies.items():
        if b.d.get("derived"):
            continue
        for bi, t in b.calls():
            decl, res, info = mirq.callee_of(t)
            if not decl or info.get("local"):
                continue
            if not re.match(r"^(alloc|std)::vec::Vec::<", decl):
                continue
            name = decl.split("::")[-1]
            ga = info.get("ga", [])
            if not ga:
                continue
            elem = ga[0]
            positional = None
            if re.match(r"^std::option::Option<(annotation::Annotation|annotationdata::AnnotationData|datakey::DataKey|resources::TextResource|annotationdataset::AnnotationDataSet|textselection::TextSelection|substore::AnnotationSubStore|T)>$", elem):
                positional = "store slot"
            elif re.match(r"^std::vec::Vec<", elem):
                positional = "row of a relation map (outer vector indexed by handle)"
            elif re.match(r"^store::RelationMap<", elem):
                positional = "inner map of a triple relation map (outer vector indexed by handle)"
            if positional is None:
                continue
            npos += 1
            r_pos.hit("%s|%s" % (bid, name))
            if name in SHIFTING:
                ctx.functions_analysed.add(bid)
                ctx.report(r_pos, "%s|Vec::%s" % (bid, name), "%s calls Vec::%s on a vector of %s (%s): handles are positions, so every later item is renumbered without its references being updated" % (bid, name, elem, positional), b.file, t.get("line"))
    ctx.floor(r_pos, npos, 20, "calls on handle-indexed vectors")

    # ---------------- INV
    r_inv = ctx.rule("C01.INV", "no access v[x] / v.get(x) / v.remove(x) in the branch where x >= v.len() holds (dead code or panic)")
    ninv = 0
    for bid, b in prog.bodies.items():
        if b.d.get("derived") or not re.match(r"^(store|annotationstore|annotationdataset|resources)::|^<(annotationstore|annotationdataset|resources|store)::", bid):
            continue
        facts_ = panics.cmp_facts(b)
        lenfacts = [(sbi, tt, ft, f) for (sbi, tt, ft, f) in facts_ if len(f) == 3 and f[0] in ("Ge", "Gt", "Lt", "Le") and re.search(r"::len\(", f[2] + f[1])]
        if not lenfacts:
            continue
        for bi, t in b.calls():
            decl, res, info = mirq.callee_of(t)
            if not decl:
                continue
            name = decl.split("::")[-1]
            if name not in ("get", "get_mut", "remove", "index", "index_mut", "swap_remove", "get_unchecked"):
                continue
            args = t.get("args", [])
            if len(args) < 2:
                continue
            recv = panics.norm_key(b.key_of_operand(args[0])).replace("mut ", "")
            for _ in range(3):
                mm = re.match(r"^(?:Deref::deref|DerefMut::deref_mut|Vec::as_mut_slice|Vec::as_slice|AsRef::as_ref|AsMut::as_mut)\(&?(?:mut )?(.*)\)$", recv)
                if mm:
                    recv = panics.norm_key(mm.group(1)).replace("mut ", "")
            idx = b.key_of_operand(args[1])
            ninv += 1
            for pol, f in panics.holds_at(b, bi, lenfacts):
                op, x, y = f
                if not pol:
                    op = {"Lt": "Ge", "Le": "Gt", "Gt": "Le", "Ge": "Lt"}[op]
                m = re.match(r"^(?:Vec|slice|SmallVec|VecDeque)::len\(&?(?:mut )?(.*)\)$", y)
                if op in ("Ge", "Gt") and m and panics.norm_key(m.group(1)) == recv and x == idx:
                    r_inv.hit("%s|%s" % (bid, name))
                    ctx.report(r_inv, "%s|%s" % (bid, name), "%s calls %s(%s) on %s inside the branch where %s >= len holds: the access is dead or panics (inverted bounds check)" % (bid, name, idx, recv, idx), b.file, t.get("line"))
    r_inv.instances += ninv
    ctx.floor(r_inv, ninv, 1, "indexed accesses examined")

    # ---------------- MERGE (range compression of sub-selectors)
    r_merge = ctx.rule("C01.MERGE", "two sub-selectors are merged into an internal ranged selector only if their resources are equal and their handles consecutive")
    subs = syn.fn("subselectors", self_ty="AnnotationStore")
    ctx.functions_analysed.add(subs.qual)
    sel_enum = syn.enums.get("Selector")
    vfields = {}
    if sel_enum:
        for v in sel_enum["variants"]:
            vfields[v["name"]] = [(f["name"], f["ty"]["s"].replace(" ", "")) for f in v["fields"]]

    def typed_bindings(pat):
        """(binding name, declared field type) of the Selector pattern"""
        out = []
        for p_ in walk(pat):
            if p_.get("k") != "pat" or p_.get("p") not in ("tuplestruct", "struct"):
                continue
            if len(p_.get("path", [])) < 2 or p_["path"][-2] != "Selector":
                continue
            flds = vfields.get(p_["path"][-1], [])
            if p_["p"] == "tuplestruct":
                for i, e in enumerate(p_["elems"]):
                    if i < len(flds):
                        out.append((e["name"] if e.get("p") == "ident" else None, flds[i][1]))
            else:
                bound = {}
                for f_ in p_["fields"]:
                    bound[f_["name"]] = f_["pat"]["name"] if f_["pat"].get("p") == "ident" else None
                for fname, fty in flds:
                    out.append((bound.get(fname), fty))
        return out

    n_merge = 0
    for m_ in find(subs.body, "match"):
        if m_["e"].get("k") != "tuple" or len(m_["e"]["elems"]) != 2:
            continue
        for a in m_["arms"]:
            if a["pat"].get("p") != "tuple" or len(a["pat"]["elems"]) != 2:
                continue
            lits = [s_ for s_ in find(a["body"], "structlit") if s_["path"][-1].startswith("Ranged")]
            if not lits:
                continue
            n_merge += 1
            left = typed_bindings(a["pat"]["elems"][0])
            right = typed_bindings(a["pat"]["elems"][1])
            lvar = "%s+%s" % (re.sub(r"\W+", "", a["pat"]["elems"][0]["s"].split("(")[0].split("{")[0]), re.sub(r"\W+", "", a["pat"]["elems"][1]["s"].split("(")[0].split("{")[0]))
            conds = [unparse(n_["cond"], strip_ref=True) for n_ in walk(a["body"]) if n_.get("k") == "if" and any(True for _ in find(n_["then"], "structlit"))]
            cond = " && ".join(conds)
            r_merge.hit(lvar, sample={"arm": lvar, "guard": cond[:160], "left": left, "right": right})
            for ln, lt in left:
                for rn, rt in right:
                    if lt == rt == "TextResourceHandle":
                        if ln is None or rn is None or not re.search(r"\(%s==%s\)|\(%s==%s\)" % (ln, rn, rn, ln), cond):
                            ctx.report(r_merge, "resource:" + lvar, "arm %s merges into %s without comparing the resources of the two selectors (`%s` / `%s`): a text selection of another resource is swallowed into the range" % (lvar, lits[0]["path"][-1], ln, rn), subs.file, a["l"])
            # consecutive handles: some right binding == left binding + 1
            if not re.search(r"\((\w+)\.as_usize\(\)==\((\w+)\.as_usize\(\)\+1\)\)", cond):
                ctx.report(r_merge, "consecutive:" + lvar, "arm %s merges into a ranged selector without checking that the handles are consecutive" % lvar, subs.file, a["l"])
            else:
                mm = re.search(r"\((\w+)\.as_usize\(\)==\((\w+)\.as_usize\(\)\+1\)\)", cond)
                rb = dict((k_, v_) for k_, v_ in right if k_)
                lb = dict((k_, v_) for k_, v_ in left if k_)
                if not (mm.group(1) in rb and mm.group(2) in lb and rb[mm.group(1)] == lb[mm.group(2)]):
                    ctx.report(r_merge, "consecutive-operands:" + lvar, "arm %s: the consecutive-handle test compares `%s` and `%s`, which are not (new item, end of range) of the same handle type" % (lvar, mm.group(1), mm.group(2)), subs.file, a["l"])
    ctx.floor(r_merge, n_merge, 6, "merge arms")

    # ---------------- LOOKUP: the look-ups that decide 'already known' scan the whole (unsorted) list
    r_lookup = ctx.rule("C01.LOOKUP", "look-ups of a known text selection leave the scan of begin2end only on a match (the list is in insertion order)")
    n_lk = 0
    for fn_name in ("known_textselection", "textselection_by_offset"):
        lf = syn.fn(fn_name, self_ty="TextResource")
        ctx.functions_analysed.add(lf.qual)
        for lp in find(lf.body, "for"):
            if not re.search(r"\.(begin2end|end2begin)\.iter\(\)$", unparse(lp["iter"])):
                continue
            n_lk += 1
            r_lookup.hit(fn_name)
            vars_ = [p_["name"] for p_ in walk(lp["pat"]) if p_.get("k") == "pat" and p_.get("p") == "ident"]

            def exits(node, under_match):
                k_ = node.get("k")
                if k_ in ("break", "return"):
                    if not under_match:
                        ctx.report(r_lookup, fn_name + ":early-exit", "%s leaves the scan of the selection list on a condition other than a match: a known selection further down the list is reported as unknown and inserted twice" % fn_name, lf.file, node["l"])
                    return
                if k_ == "if":
                    c = unparse(node["cond"], strip_ref=True)
                    is_match = bool(re.match(r"^\((\w+)==(\w+)\)$", c)) and any(v in c for v in vars_)
                    exits_block(node["then"], under_match or is_match)
                    if node.get("else"):
                        exits(node["else"], under_match)
                    return
                if k_ == "closure":
                    return
                for key_, v_ in node.items():
                    if isinstance(v_, dict):
                        exits(v_, under_match)
                    elif isinstance(v_, list):
                        for e_ in v_:
                            if isinstance(e_, dict):
                                exits(e_, under_match)

            def exits_block(b_, under_match):
                for s_ in b_["stmts"]:
                    exits(s_, under_match)

            exits_block(lp["body"], False)
    ctx.floor(r_lookup, n_lk, 2, "selection look-up loops")

    # ---------------- ONCE
    r_once = ctx.rule("C01.ONCE", "a TextSelection is inserted into a resource only on the not-known-yet edge of a look-up of that selection")
    sel = prog.one(r"^annotationstore::AnnotationStore::selector$")
    ctx.functions_analysed.add(sel.id)
    nins = 0
    for bi, t in sel.calls():
        decl, res, info = mirq.callee_of(t)
        if not decl or not decl.endswith("StoreFor::insert"):
            continue
        ga = info.get("ga", [])
        if "textselection::TextSelection" not in ga:
            continue
        nins += 1
        ok = False
        for si, blk in enumerate(sel.blocks):
            tt = blk["t"]
            if tt["t"] != "switch" or not sel.dominates(si, bi) or si == bi:
                continue
            k = sel.key_of_operand(tt["o"])
            if not re.search(r"(Storable::handle|known_textselection)\(", k):
                continue
            # the edge towards the insert must be the None edge (discriminant 0)
            lead = [tg for tg in set(sel.succs(si)) if sel.dominates(tg, bi)]
            if len(lead) == 1:
                vals = [v for v, tg in tt["targets"] if tg == lead[0]]
                if vals == [0] or (not vals and tt["otherwise"] == lead[0] and all(v != 0 for v, _ in tt["targets"])):
                    ok = True
        r_once.hit("selector|insert#%d" % nins)
        if not ok:
            ctx.report(r_once, "selector|insert#%d" % nins, "AnnotationStore::selector inserts a TextSelection without being on the 'no existing handle' edge of a look-up: the same selection can be stored twice, splitting its reverse index", sel.file, t.get("line"))
    ctx.floor(r_once, nins, 2, "TextSelection insertions in selector()")


# ---------------------------------------------------------------------- SORTED
def sorted_rule(ctx, syn):
    """every `ResultIter::new_sorted(x)` (the promise 'chronological order, no duplicates' that later
    binary searches rely on) is justified by where x comes from"""
    from synq import walk, find, unparse, strip, pat_names
    r = ctx.rule("C01.SORTED", "every collection announced as sorted and duplicate-free comes from a source that is: a reverse-index row, a store iteration, a BTreeSet/BTreeMap, a single item, or a local vector that was sorted and then de-duplicated")
    # reverse-index fields (by type) and substore membership vectors
    index_fields = set()
    member_fields = set()
    for sname, sd in syn.structs.items():
        for fld in sd.get("fields") or []:
            ty = re.sub(r"\s+", "", fld["ty"]["s"])
            if re.search(r"RelationMap<|RelationBTreeMap<", ty):
                index_fields.add(fld["name"])
            if sname == "AnnotationSubStore" and re.fullmatch(r"Vec<\w+Handle>", ty):
                member_fields.add(fld["name"])
    env = {"index_fields": index_fields, "member_fields": member_fields, "syn": syn, "fncache": {}}
    n = 0
    for f in syn.fns:
        if f.body is None or not f.file.startswith("src/api"):
            continue
        sites = [c for c in find(f.body, "call") if unparse(c["func"]) in ("ResultIter::new_sorted",) and c["args"]]
        if not sites:
            continue
        ctx.functions_analysed.add(f.qual)
        cnt = {}
        for c in sites:
            n += 1
            why, ok_ = justify(c["args"][0], f, c.get("l"), env, 0)
            cnt[why] = cnt.get(why, 0) + 1
            key = "%s|%s#%d" % (f.qual, why.split(":")[0], cnt[why])
            r.hit(key, sample={"function": f.qual, "argument": unparse(c["args"][0])[:70], "justified_by": why})
            if not ok_:
                ctx.report(r, key, "%s announces `%s` as sorted and duplicate-free, but %s: consumers that binary-search or merge it (Handles::contains, union, intersection) give wrong answers on an unsorted collection" % (f.qual, unparse(c["args"][0])[:70], why.split(":", 1)[-1]), f.file, c.get("l"))
    ctx.floor(r, n, 40, "new_sorted sites")


def fn_locals(f):
    from synq import walk, strip, pat_names
    lets = {}
    sorts = []
    for nd in walk(f.body):
        if nd.get("k") == "let" and nd.get("init") is not None:
            for nm in pat_names(nd["pat"]):
                lets[nm] = nd
        if nd.get("k") == "mcall" and nd["method"] in ("sort", "sort_unstable", "dedup") and strip(nd["recv"]).get("k") == "path":
            sorts.append((nd.get("l"), nd["method"], strip(nd["recv"])["path"][0]))
    return lets, sorts


def returned_exprs(f):
    from synq import walk, strip, block_tail
    out = []

    def tails(e):
        e = strip(e)
        k = e.get("k")
        if k == "blockexpr":
            t = block_tail(e["block"])
            if t is not None:
                tails(t)
        elif k == "block":
            t = block_tail(e)
            if t is not None:
                tails(t)
        elif k == "if":
            tails({"k": "blockexpr", "block": e["then"]})
            if e.get("else") is not None:
                tails(e["else"])
        elif k == "match":
            for a in e["arms"]:
                tails(a["body"])
        else:
            out.append(e)
    tails(f.body)
    for nd in walk(f.body):
        if nd.get("k") == "return" and nd.get("e") is not None:
            out.append(strip(nd["e"]))
    return out


def justify(arg, f, line, env, depth):
    from synq import unparse, strip, walk, pat_names
    a = strip(arg)
    src = unparse(a)
    k = a.get("k")
    if depth > 8:
        return "unknown:the origin of the collection could not be followed", False
    lets, sorts = fn_locals(f)
    if k == "call":
        fn = unparse(a["func"])
        if fn in ("FromHandles::new", "ResultTextSelections::new", "Box::new", "Some") and a["args"] and fn != "Some":
            return justify(a["args"][0], f, line, env, depth + 1)
        if fn in ("Some", "std::iter::once"):
            return "single:one item", True
        if fn in ("Vec::new", "Vec::with_capacity", "std::iter::empty"):
            return "empty:empty collection", True
        if fn.startswith("TargetIter"):
            return "targets:it follows the order of the annotation's own target selectors (TargetIter), which is the order they were given in for a DirectionalSelector", False
        return "unknown:`%s` is not a recognised ordered source" % src[:40], False
    if k == "field":
        if a["member"] in env["member_fields"]:
            return "members:membership vector of a substore (items are appended when added, in handle order)", True
        if a["member"] in env["index_fields"]:
            return "index:reverse index field %s" % a["member"], True
        return justify(a["base"], f, line, env, depth + 1) if a["member"] == "data" else ("unknown:field %s" % a["member"], False)
    if k == "mcall":
        m = a["method"]
        recv = strip(a["recv"])
        rsrc = unparse(recv)
        if m == "flatten" and recv.get("k") == "mcall" and recv["method"] == "into_iter" and strip(recv["recv"]).get("k") == "mcall" and strip(recv["recv"])["method"] in ("get", "ok"):
            return justify(strip(recv["recv"]), f, line, env, depth + 1)   # Option<&Vec>.into_iter().flatten(): one row
        if m in ("iter", "annotations", "datasets", "resources", "substores", "keys", "data") and rsrc in ("self", "store", "self.store()", "self.rootstore()", "self.as_ref()"):
            return "store:iteration over a store in handle order", True
        if m in ("into_iter", "iter", "copied", "cloned", "map", "filter_map", "filter", "peekable", "as_ref", "unwrap", "clone", "expect", "ok", "unwrap_or_default"):
            return justify(a["recv"], f, line, env, depth + 1)
        if m == "get" and recv.get("k") == "field":
            return justify(recv, f, line, env, depth + 1)
        if m in ("iter", "annotations", "datasets", "resources", "substores", "keys", "data") and rsrc in ("self", "store", "self.store()", "self.rootstore()", "self.as_ref()"):
            return "store:iteration over a store in handle order", True
        # a crate-local helper: judge what it returns
        cands = [g for g in env["syn"].fns if g.name == m and g.body is not None and not g.file.startswith("src/api") and g.file != "src/tests.rs"]
        if len(cands) == 1:
            g = cands[0]
            if g.qual in env["fncache"]:
                return env["fncache"][g.qual]
            env["fncache"][g.qual] = ("unknown:recursive helper", False)
            res = None
            for e in returned_exprs(g):
                why, ok_ = justify(e, g, None, env, depth + 1)
                if not ok_:
                    res = ("helper:%s() can return a collection for which %s" % (m, why.split(":", 1)[-1]), False)
                    break
                if res is None or why.split(":")[0] != "empty":
                    res = ("helper(%s):%s" % (m, why), True)
            res = res or ("unknown:%s() returns nothing recognisable" % m, False)
            env["fncache"][g.qual] = res
            return res
        if m in ("flatten", "flat_map", "chain", "rev", "zip"):
            return "unsorted:it concatenates or reorders several sequences (.%s()) without sorting" % m, False
        return "unknown:.%s() is not a recognised ordered source" % m, False
    if k == "path" and a["path"][-1] == "None":
        return "empty:no collection", True
    if k == "path" and len(a["path"]) == 1:
        nm = a["path"][0]
        if nm in lets:
            nd = lets[nm]
            tysrc = nd["pat"].get("s", "") + " " + (unparse(nd["init"]) if nd.get("init") else "")
            if "BTreeSet" in tysrc or "BTreeMap" in tysrc:
                return "btree:collected into a BTreeSet/BTreeMap", True
            ss = [(l, m_) for l, m_, v in sorts if v == nm and l is not None and (line is None or l <= line)]
            has_sort = [l for l, m_ in ss if m_.startswith("sort")]
            has_dedup = [l for l, m_ in ss if m_ == "dedup"]
            if has_sort and has_dedup and min(has_sort) <= max(has_dedup):
                return "sorted:local vector sorted and then de-duplicated", True
            if has_sort and not has_dedup:
                return "nodedup:the local vector `%s` is sorted but never de-duplicated" % nm, False
            if has_dedup and not has_sort:
                return "nosort:the local vector `%s` is de-duplicated (adjacent duplicates only) but never sorted" % nm, False
            if "TargetIter" in tysrc:
                return "targets:it follows the order of the annotation's own target selectors (TargetIter), which is the order they were given in for a DirectionalSelector", False
            if nd.get("init") is not None:
                return justify(nd["init"], f, line, env, depth + 1)
        for nd in walk(f.body):
            if nd.get("k") == "letexpr" and nm in pat_names(nd["pat"]):
                return justify(nd["e"], f, line, env, depth + 1)
        return "unknown:`%s` has no visible origin" % nm, False
    return "unknown:`%s` is not a recognised ordered source" % src[:40], False


# ---------------------------------------------------------------------- ROW
def row_rule(ctx, syn, rid="C01.ROW"):
    """rows of the reverse indices: insertion is idempotent for the newest handle, appends keep the
    handle order, removal keeps the order of the remaining entries (finite evaluation of the extracted
    insert / remove of RelationMap and RelationBTreeMap)"""
    from synq import unparse
    from formula import Evaluator, Unknown, Panic, StructVal, some, is_some
    from props.c10 import closure_call
    r = ctx.rule(rid, "a row of a reverse index holds each referrer once, in handle order, and removal drops exactly the named referrer (none when it is not in the row) and preserves that order")
    hooks = {}
    hooks["as_usize"] = lambda ev, recv, args, node, env: recv if isinstance(recv, int) else NotImplemented
    hooks["last"] = lambda ev, recv, args, node, env: (some(recv[-1]) if recv else None) if isinstance(recv, list) else NotImplemented
    hooks["contains"] = lambda ev, recv, args, node, env: (args[0] in recv) if isinstance(recv, list) else NotImplemented

    def resize_with(ev, recv, args, node, env):
        if isinstance(recv, list):
            while len(recv) < args[0]:
                recv.append([])
            return ()
        return NotImplemented
    hooks["resize_with"] = resize_with

    def get_mut(ev, recv, args, node, env):
        if isinstance(recv, list):
            return some(recv[args[0]]) if 0 <= args[0] < len(recv) else None
        if isinstance(recv, dict) and not isinstance(recv, StructVal):
            return some(recv[args[0]]) if args[0] in recv else None
        return NotImplemented
    hooks["get_mut"] = get_mut
    hooks["get"] = get_mut
    hooks["contains_key"] = lambda ev, recv, args, node, env: (args[0] in recv) if isinstance(recv, dict) and not isinstance(recv, StructVal) else NotImplemented

    def h_insert(ev, recv, args, node, env):
        if isinstance(recv, dict) and not isinstance(recv, StructVal) and len(args) == 2:
            recv[args[0]] = args[1]
            return None
        if isinstance(recv, list) and len(args) == 2 and isinstance(args[0], int):
            recv.insert(args[0], args[1])
            return ()
        return NotImplemented
    hooks["insert"] = h_insert
    hooks["macro:vec"] = lambda ev, node, env: [ev.eval(a, env) for a in (node.get("args") or [])]
    hooks["unwrap"] = lambda ev, recv, args, node, env: recv[1] if is_some(recv) else NotImplemented

    def position(ev, recv, args, node, env):
        if isinstance(recv, list) and args and isinstance(args[0], tuple) and args[0][0] == "closure":
            for i, x in enumerate(recv):
                if closure_call(ev, args[0], [x], env):
                    return some(i)
            return None
        return NotImplemented
    hooks["position"] = position

    def h_remove(ev, recv, args, node, env):
        if isinstance(recv, list) and isinstance(args[0], int):
            if not (0 <= args[0] < len(recv)):
                raise Panic("remove-out-of-bounds", node.get("l"))
            return recv.pop(args[0])
        if isinstance(recv, dict) and not isinstance(recv, StructVal):
            return some(recv.pop(args[0])) if args[0] in recv else None
        return NotImplemented
    hooks["remove"] = h_remove

    def swap_remove(ev, recv, args, node, env):
        if isinstance(recv, list) and isinstance(args[0], int):
            if not (0 <= args[0] < len(recv)):
                raise Panic("swap_remove-out-of-bounds", node.get("l"))
            v = recv[args[0]]
            recv[args[0]] = recv[-1]
            recv.pop()
            return v
        return NotImplemented
    hooks["swap_remove"] = swap_remove

    def retain(ev, recv, args, node, env):
        if isinstance(recv, list) and args and isinstance(args[0], tuple) and args[0][0] == "closure":
            recv[:] = [x for x in recv if closure_call(ev, args[0], [x], env)]
            return ()
        return NotImplemented
    hooks["retain"] = retain

    def binary_search(ev, recv, args, node, env):
        # the real algorithm (not a linear scan): on an unsorted row it misses, as the real one does
        if not isinstance(recv, list):
            return NotImplemented
        from formula import ok, err
        x = args[0]
        lo, hi = 0, len(recv)
        while lo < hi:
            mid = (lo + hi) // 2
            if recv[mid] == x:
                return ok(mid)
            if recv[mid] < x:
                lo = mid + 1
            else:
                hi = mid
        return err(lo)
    hooks["binary_search"] = binary_search

    def map_or(ev, recv, args, node, env):
        if recv is None:
            return args[0]
        if is_some(recv) and isinstance(args[1], tuple) and args[1][0] == "closure":
            return closure_call(ev, args[1], [recv[1]], env)
        return NotImplemented
    hooks["map_or"] = map_or
    n = 0
    for ty, mk in (("RelationMap", lambda: []), ("RelationBTreeMap", lambda: {})):
        ins = [f for f in syn.fns if f.name == "insert" and f.file == "src/store.rs" and (f.self_ty or "").startswith(ty + "<") and f.trait is None]
        rem = [f for f in syn.fns if f.name == "remove" and f.file == "src/store.rs" and (f.self_ty or "").startswith(ty + "<") and f.trait is None]
        if len(ins) != 1 or len(rem) != 1:
            ctx.anchor_missing(r, "%s::insert / remove" % ty)
            continue
        ins, rem = ins[0], rem[0]
        ctx.functions_analysed.update([ins.qual, rem.qual])

        def row(m, x):
            d = m["data"]
            if isinstance(d, list):
                return list(d[x]) if x < len(d) else []
            return list(d.get(x, []))

        def do(f, m, *args):
            params = [p["pat"].get("name") for p in f.sig["inputs"]]
            Evaluator(hooks=hooks).run_body(f.body, dict([("self", m)] + list(zip(params, args))))
        try:
            m = StructVal(ty, {"data": mk()})
            for y in (1, 3, 3, 4, 7, 7, 7, 9):
                do(ins, m, 2, y)
            got = row(m, 2)
            n += 1
            r.hit("%s:insert" % ty, sample={"map": ty, "inserted": [1, 3, 3, 4, 7, 7, 7, 9], "row": got})
            if got != [1, 3, 4, 7, 9]:
                ctx.report(r, "%s:insert" % ty, "%s::insert of the handles 1,3,3,4,7,7,7,9 (an annotation naming the same item through several sub-selectors repeats its own handle) leaves the row %s; each referrer must be listed once, in handle order" % (ty, got), ins.file, ins.line)
            # an older referrer that starts to refer to the item later on (validation data added to existing annotations)
            for y in (5, 2, 5, 0, 9):
                do(ins, m, 2, y)
            got = row(m, 2)
            n += 1
            r.hit("%s:insert-older" % ty, sample={"map": ty, "then_inserted": [5, 2, 5, 0, 9], "row": got})
            if got != [0, 1, 2, 3, 4, 5, 7, 9]:
                ctx.report(r, "%s:insert-older" % ty, "%s::insert of the older handles 5,2,5,0 (and 9 again) into the row [1,3,4,7,9] leaves %s; the row is handed out as a sorted, duplicate-free collection (chronological order) and must be [0,1,2,3,4,5,7,9]" % (ty, got), ins.file, ins.line)
            for y in (0, 2, 5):
                do(rem, m, 2, y)
            if row(m, 2) != [1, 3, 4, 7, 9]:
                ctx.report(r, "%s:remove" % ty, "%s::remove of 0, 2, 5 leaves the row %s, expected [1, 3, 4, 7, 9]" % (ty, row(m, 2)), rem.file, rem.line)
            for victim, want in ((3, [1, 4, 7, 9]), (1, [4, 7, 9]), (5, [4, 7, 9]), (9, [4, 7])):
                do(rem, m, 2, victim)
                got = row(m, 2)
                n += 1
                r.hit("%s:remove:%d" % (ty, victim), sample={"map": ty, "removed": victim, "row": got})
                if got != want:
                    ctx.report(r, "%s:remove" % ty, "%s::remove(.., %d) leaves the row %s, expected %s: removal must drop exactly that referrer and keep the others in handle order (the rows are handed out as sorted collections)" % (ty, victim, got, want), rem.file, rem.line)
                    break
            # down to a single referrer; then a referrer that is not in the row (an annotation that names one item
            # through two sub-selectors is un-indexed twice), then the last one
            do(rem, m, 2, 4)
            for victim, want in ((3, [7]), (9, [7]), (7, [])):
                do(rem, m, 2, victim)
                got = row(m, 2)
                n += 1
                r.hit("%s:remove-single:%d" % (ty, victim), sample={"map": ty, "removed": victim, "row": got})
                if got != want:
                    ctx.report(r, "%s:remove-single" % ty, "%s::remove(.., %d) on the single-valued row [7] leaves %s, expected %s: removing a referrer that is not (or no longer) in the row must leave the others alone - an annotation that names the same item through two sub-selectors is un-indexed twice, and the second removal would drop somebody else's relation" % (ty, victim, got, want), rem.file, rem.line)
                    break
            do(rem, m, 5, 1)   # a row that does not exist
            n += 1
        except (Unknown, Panic) as e:
            ctx.report(r, "%s:unevaluated" % ty, "%s::insert/remove could not be evaluated (%s): the row discipline is not established" % (ty, e), ins.file, ins.line)
    ctx.floor(r, n, 20, "row operations evaluated")


# ---------------------------------------------------------------------- COMPRESS
def compress_rule(ctx, syn):
    """range compression of sub-selectors preserves meaning: whenever the match in `subselectors` replaces
    (last, selector) by an internal ranged selector, expanding that ranged selector gives back exactly the
    selectors it replaced.  The match is evaluated from its syntax tree on every pair of a small domain."""
    import itertools
    from synq import find, unparse, strip
    from formula import Evaluator, Unknown, Panic, StructVal, EnumVal, some, is_some
    r = ctx.rule("C01.COMPRESS", "an internal ranged selector stands for exactly the sub-selectors it replaced (same resource, consecutive handles, default offset mode, whole text)")
    subs = syn.fn("subselectors", self_ty="AnnotationStore")
    ctx.functions_analysed.add(subs.qual)
    target = None
    for m_ in find(subs.body, "match"):
        if m_["e"].get("k") == "tuple" and len(m_["e"]["elems"]) == 2 and any(True for _ in find(m_, "structlit")):
            target = m_
    if target is None:
        ctx.anchor_missing(r, "match (&last, &selector) in AnnotationStore::subselectors")
        return
    WHOLE = StructVal("Offset", {"begin": EnumVal("BeginAligned", [0]), "end": EnumVal("EndAligned", [0])})
    PARTS = [StructVal("Offset", {"begin": EnumVal("BeginAligned", [1]), "end": EnumVal("EndAligned", [0])}),
             StructVal("Offset", {"begin": EnumVal("BeginAligned", [0]), "end": EnumVal("EndAligned", [SInt_(-1)])}),
             StructVal("Offset", {"begin": EnumVal("BeginAligned", [0]), "end": EnumVal("BeginAligned", [2])})]
    modes = ["BeginBegin", "BeginEnd", "EndEnd", "EndBegin"]

    def tsel(r_, h, m):
        return EnumVal("TextSelector", [r_, h, EnumVal(m)])

    def asel(h, off, mode="BeginEnd"):   # off: None | ("w",) | ("p", i); mode: the alignment the offset was given in
        payload = None if off is None else some(("RES", ("tsel-of", h, off), EnumVal(mode)))
        return EnumVal("AnnotationSelector", [h, payload])

    def rtext(r_, b, e):
        return StructVal("RangedTextSelector", {"resource": r_, "begin": b, "end": e})

    def rann(b, e, wt):
        return StructVal("RangedAnnotationSelector", {"begin": b, "end": e, "with_text": wt})

    def expand(sel):
        """what a (possibly ranged) selector stands for: list of (kind, resource, handle, mode / offset class)"""
        if isinstance(sel, EnumVal) and sel.name == "TextSelector":
            return [("text", sel.args[0], sel.args[1], sel.args[2].name)]
        if isinstance(sel, EnumVal) and sel.name == "AnnotationSelector":
            off = sel.args[1]
            if off is None:
                return [("ann", None, sel.args[0], "none")]
            o_ = off[1][1][2]
            return [("ann", None, sel.args[0], ("whole" if o_ == ("w",) else "part%d" % o_[1]) + ":" + off[1][2].name)]
        if isinstance(sel, StructVal) and sel.tyname == "RangedTextSelector":
            return [("text", sel["resource"], h, "BeginBegin") for h in range(sel["begin"], sel["end"] + 1)]
        if isinstance(sel, StructVal) and sel.tyname == "RangedAnnotationSelector":
            return [("ann", None, h, ("whole:" + exp_mode) if sel["with_text"] else "none") for h in range(sel["begin"], sel["end"] + 1)]
        raise Unknown("selector %r" % (sel,))

    def offset_of(sel):
        if isinstance(sel, EnumVal) and sel.name == "AnnotationSelector" and sel.args[1] is not None:
            off = sel.args[1][1][1][2]
            return some(WHOLE if off == ("w",) else PARTS[off[1]])
        if isinstance(sel, StructVal) and sel.tyname == "RangedAnnotationSelector":
            return some(WHOLE) if sel["with_text"] else None
        return None
    hooks = {}
    hooks["as_usize"] = lambda ev, recv, args, node, env: recv if isinstance(recv, int) else NotImplemented
    hooks["offset_with_mode"] = lambda ev, recv, args, node, env: offset_of(recv)
    hooks["offset"] = lambda ev, recv, args, node, env: offset_of(recv)
    hooks["call:Offset::whole"] = lambda ev, recv, args, node, env: WHOLE
    hooks["is_whole"] = lambda ev, recv, args, node, env: (recv == WHOLE) if isinstance(recv, StructVal) else NotImplemented
    # the alignment the real expansion (SelectorIter::get_internal_ranged_item) gives to the items of a ranged annotation selector with text
    exp_mode = "BeginBegin"
    gi = [f for f in syn.fns if f.name == "get_internal_ranged_item" and f.file == "src/selector.rs"]
    if len(gi) == 1:
        for c_ in walk(gi[0].body):
            if c_.get("k") == "call" and unparse(c_["func"]).endswith("Selector::AnnotationSelector") and len(c_["args"]) == 2:
                m_ = re.search(r"OffsetMode::(\w+)(\(\))?\)+$", unparse(c_["args"][1]))
                if m_ and m_.group(1) != "default":
                    exp_mode = m_.group(1)
    else:
        ctx.anchor_missing(r, "SelectorIter::get_internal_ranged_item")
    r.notes.append("items of a ranged annotation selector with text are expanded with OffsetMode::%s" % exp_mode)
    lasts = [tsel(r_, 3, m) for r_ in (0, 1) for m in modes] + [rtext(0, 2, 3), rtext(1, 2, 3)] + \
            [asel(3, None)] + [asel(3, ("w",), m) for m in modes] + [asel(3, ("p", i)) for i in range(len(PARTS))] + [rann(2, 3, False), rann(2, 3, True)]
    nexts = [tsel(r_, h, m) for r_ in (0, 1) for h in (4, 5, 3) for m in modes] + \
            [asel(h, None) for h in (4, 5, 3)] + [asel(h, ("w",), m) for h in (4, 5, 3) for m in modes] + [asel(h, ("p", i)) for h in (4, 5, 3) for i in range(len(PARTS))]
    stmt_let = {"k": "let", "pat": {"k": "pat", "p": "ident", "name": "substitute", "s": "mut substitute", "mut": True, "byref": False}, "init": {"k": "path", "path": ["None"]}}
    block = {"k": "block", "stmts": [stmt_let, {"k": "exprstmt", "e": target, "semi": True}, {"k": "exprstmt", "e": {"k": "path", "path": ["substitute"]}, "semi": False}]}
    reported = set()
    n = merged = 0
    for last, nxt in itertools.product(lasts, nexts):
        try:
            res = Evaluator(hooks=hooks).run_body(block, {"last": last, "selector": nxt, "self": StructVal("AnnotationStore", {})})
        except (Unknown, Panic) as e:
            if "unevaluated" not in reported:
                reported.add("unevaluated")
                ctx.report(r, "unevaluated", "the range-compression match of subselectors could not be evaluated (%s) on (%r, %r): that compression preserves the selectors is not established" % (e, last, nxt), subs.file, target.get("l"))
            continue
        n += 1
        if res is None:
            continue
        merged += 1
        sub = res[1] if is_some(res) else res
        try:
            got = expand(sub)
            want = expand(last) + expand(nxt)
        except Unknown as e:
            got, want = None, str(e)
        kind = (last.name if isinstance(last, EnumVal) else last.tyname) + "+" + (nxt.name if isinstance(nxt, EnumVal) else nxt.tyname)
        r.obligations += 1
        if got == want:
            r.discharged += 1
            if merged % 3 == 1:
                r.hit("merge:%s#%d" % (kind, merged), sample={"last": repr(last), "selector": repr(nxt), "substitute": repr(sub)})
        elif kind not in reported:
            reported.add(kind)
            ctx.report(r, kind, "subselectors replaces (%r, %r) by %r, which stands for %s, not for the two selectors it replaced (%s): the annotation's targets change when it is stored (and written back)" % (last, nxt, sub, got, want), subs.file, target.get("l"), {"last": repr(last), "selector": repr(nxt)})
    r.hit("pairs", sample={"pairs_evaluated": n, "merged": merged})
    ctx.floor(r, n, 600, "selector pairs evaluated")
    ctx.floor(r, merged, 6, "merging pairs")


def expand_rule(ctx, syn, rid="C01.EXPAND"):
    """the other half of range compression: SelectorIter::get_internal_ranged_item turns item i of an internal ranged
    selector back into the selector it stands for.  inserted() builds the reverse indices from this iterator, so an
    expansion that loses the text reference leaves the annotation out of the text index."""
    from formula import Evaluator, Unknown, Panic, StructVal, EnumVal, some, is_some, ok
    r = ctx.rule(rid, "item i of an internal ranged selector expands to the selector it replaced: handle begin+i, default offset mode, and for a ranged annotation selector with text the text selection of the target annotation however that annotation reaches its text (text selector or annotation selector with offset)")
    fs = [f for f in syn.fns if f.name == "get_internal_ranged_item" and f.file == "src/selector.rs"]
    th = [f for f in syn.fns if f.name == "textselection_handle" and f.file == "src/selector.rs" and (f.self_ty or "") == "Selector"]
    rh = [f for f in syn.fns if f.name == "resource_handle" and f.file == "src/selector.rs" and (f.self_ty or "") == "Selector"]
    if len(fs) != 1 or len(th) != 1 or len(rh) != 1:
        ctx.anchor_missing(r, "SelectorIter::get_internal_ranged_item / Selector::textselection_handle / resource_handle")
        return
    fn = fs[0]
    ctx.functions_analysed.update([fn.qual, th[0].qual, rh[0].qual])
    # the alignment a compressed item had: the compression arms of subselectors() name it (OffsetMode::X in their patterns), default otherwise
    subs_ = [f for f in syn.fns if f.name == "subselectors" and (f.self_ty or "") == "AnnotationStore"]
    # (read from the pattern trees, not from their text: a formatter adds line breaks and trailing commas)
    named = set()
    for pt in (walk(subs_[0].body) if subs_ else []):
        if pt.get("k") == "pat" and pt.get("p") == "tuplestruct" and pt.get("path") and pt["path"][-1] == "AnnotationSelector" and len(pt.get("elems", [])) == 2:
            for q in walk(pt["elems"][1]):
                if q.get("k") == "pat" and q.get("p") == "path" and len(q.get("path", [])) >= 2 and q["path"][-2] == "OffsetMode":
                    named.add(q["path"][-1])
    BB = EnumVal(sorted(named)[0] if len(named) == 1 else "BeginBegin")
    targets = {
        "TextSelector": (EnumVal("TextSelector", [7, 40, EnumVal("EndEnd")]), (7, 40)),
        "AnnotationSelector+offset": (EnumVal("AnnotationSelector", [2, some((8, 41, EnumVal("BeginEnd")))]), (8, 41)),
        "AnnotationSelector": (EnumVal("AnnotationSelector", [2, None]), None),
        "ResourceSelector": (EnumVal("ResourceSelector", [7]), None),
        "DataSetSelector": (EnumVal("DataSetSelector", [3]), None),
    }
    n = 0
    reported = set()
    for tname, (tgt, text) in sorted(targets.items()):
        hooks = {}
        hooks["as_usize"] = lambda ev, recv, args, node, env: recv if isinstance(recv, int) else NotImplemented
        hooks["call:AnnotationHandle::new"] = lambda ev, recv, args, node, env: args[0]
        hooks["call:TextSelectionHandle::new"] = lambda ev, recv, args, node, env: args[0]
        hooks["call:Cow::Owned"] = lambda ev, recv, args, node, env: args[0]
        hooks["call:OffsetMode::default"] = lambda ev, recv, args, node, env: BB
        hooks["get"] = lambda ev, recv, args, node, env: ok(StructVal("Annotation", {"handle": args[0]})) if isinstance(recv, StructVal) and recv.tyname == "AnnotationStore" else NotImplemented
        hooks["expect"] = lambda ev, recv, args, node, env: recv[1] if isinstance(recv, tuple) and recv and recv[0] == "ok" else NotImplemented
        hooks["target"] = lambda ev, recv, args, node, env, tgt=tgt: tgt if isinstance(recv, StructVal) and recv.tyname == "Annotation" else NotImplemented
        hooks["textselection_handle"] = lambda ev, recv, args, node, env: Evaluator(hooks=hooks).run_body(th[0].body, {"self": recv}) if isinstance(recv, EnumVal) else NotImplemented
        hooks["resource_handle"] = lambda ev, recv, args, node, env: Evaluator(hooks=hooks).run_body(rh[0].body, {"self": recv}) if isinstance(recv, EnumVal) else NotImplemented
        for with_text in (True, False):
            for c in (0, 1, 2):
                sel = StructVal("RangedAnnotationSelector", {"begin": 10, "end": 12, "with_text": with_text})
                me = StructVal("SelectorIter", {"cursor_in_range": c, "store": StructVal("AnnotationStore", {})})
                key = "annotation:%s:%s" % (tname, "with_text" if with_text else "plain")
                try:
                    got = Evaluator(hooks=hooks).run_body(fn.body, {"self": me, "selector": sel})
                except (Unknown, Panic) as e:
                    if "unevaluated" not in reported:
                        reported.add("unevaluated")
                        ctx.report(r, "unevaluated", "get_internal_ranged_item could not be evaluated (%s): that a ranged selector expands to what it replaced is not established" % e, fn.file, fn.line)
                    continue
                n += 1
                want_payload = some((text[0], text[1], BB)) if (with_text and text is not None) else None
                want = EnumVal("AnnotationSelector", [10 + c, want_payload])
                if c == 0:
                    r.hit(key, sample={"ranged": "RangedAnnotationSelector{10..12, with_text=%s}" % with_text, "target_of_each": tname, "item0": repr(got)})
                if got != want and key not in reported:
                    reported.add(key)
                    ctx.report(r, key, "item %d of RangedAnnotationSelector{begin:10,end:12,with_text:%s} over annotations whose own target is %s expands to %r, expected %r: the annotation keeps its text for its own text() but is left out of the reverse index of that text selection (textselection.annotations() / resource.annotations() miss it)" % (c, with_text, tname, got, want), fn.file, fn.line)
    for c in (0, 1):
        sel = StructVal("RangedTextSelector", {"resource": 7, "begin": 20, "end": 22})
        me = StructVal("SelectorIter", {"cursor_in_range": c, "store": StructVal("AnnotationStore", {})})
        try:
            got = Evaluator(hooks=hooks).run_body(fn.body, {"self": me, "selector": sel})
            n += 1
            r.hit("text:%d" % c)
            if got != EnumVal("TextSelector", [7, 20 + c, BB]):
                ctx.report(r, "text", "item %d of RangedTextSelector{resource:7,begin:20,end:22} expands to %r, expected TextSelector(7, %d, BeginBegin)" % (c, got, 20 + c), fn.file, fn.line)
        except (Unknown, Panic) as e:
            ctx.report(r, "unevaluated", "get_internal_ranged_item could not be evaluated (%s)" % e, fn.file, fn.line)
    ctx.floor(r, n, 32, "expansions evaluated")


def lowlevel_rule(ctx, prog, rid="C01.LOWLEVEL"):
    """Annotation::add_data / remove_data change an annotation's forward data references "without updating any reverse
    index" (their own documentation).  A caller must therefore write the same (set, data, annotation) triple to
    dataset_data_annotation_map on every path that continues normally after the call."""
    import json as _json
    r = ctx.rule(rid, "every call of the low-level Annotation::add_data / remove_data (forward reference only) is followed, on every non-error path to the function's return, by the matching insert / remove on dataset_data_annotation_map")
    n = 0
    for bid, b in sorted(prog.bodies.items()):
        if b.d.get("derived"):
            continue
        sites = [(bi, (mirq.callee_of(t)[0] or "").split("::")[-1]) for bi, t in b.calls() if re.search(r"annotation::Annotation::(add_data|remove_data)$", mirq.callee_of(t)[0] or "")]
        if not sites:
            continue
        ctx.functions_analysed.add(bid)
        errs = set(bi for bi, t in b.calls() if (mirq.callee_of(t)[0] or "").endswith("FromResidual::from_residual"))
        rets = [bi for bi, blk in enumerate(b.blocks) if blk["t"]["t"] == "return"]
        for bi, which in sites:
            n += 1
            want = "insert" if which == "add_data" else "remove"
            idx = set(x for x, t in b.calls() if re.search(r"TripleRelationMap::<.*>::%s$" % want, mirq.callee_of(t)[0] or "") and '"n": "dataset_data_annotation_map"' in _json.dumps(b.blocks[x]))
            # the index may also be updated before the forward write (dominating it)
            before = any(b.dominates(x, bi) for x in idx if x != bi)
            tgt = b.blocks[bi]["t"].get("target")
            bypass = None
            if which == "remove_data":
                # the un-indexing is deferred to a loop over the collected triples (zero iterations is a CFG path): required is
                # that it exists and is reachable after the call; the all-paths form is applied to add_data only
                if not before and not any(b.can_reach(bi, x) for x in idx):
                    bypass = -1
            elif not before and tgt is not None:
                avoid = idx | errs
                for rt in rets:
                    if tgt == rt or (tgt not in avoid and b.can_reach(tgt, rt, avoid=avoid)):
                        bypass = rt
                        break
            key = "%s|%s#%d" % (bid, which, [x for x, _ in sites].index(bi) + 1)
            r.hit(key, sample={"in": bid, "call": which, "index_calls": len(idx), "bypass": bypass is not None})
            if bypass is not None:
                ctx.report(r, "%s|%s" % (bid, which), "%s calls Annotation::%s (line %s) and can return normally without the matching dataset_data_annotation_map.%s on that path: the annotation's data and the reverse index disagree (data.annotations() misses the annotation, or removal cascades miss it)" % (bid, which, b.blocks[bi]["t"].get("line"), want), b.file, b.blocks[bi]["t"].get("line"))
    ctx.floor(r, n, 3, "calls of Annotation::add_data / remove_data")


def emptyrow_rule(ctx, syn, rid="C01.EMPTYROW"):
    """RelationMap is a vector of rows indexed by handle: the row of item 3 exists (empty) as soon as item 7 has a
    relation.  Callers read `get(x).is_none()` as "x has no relation" (root-store membership of resources and datasets
    in the JSON writer, resources_no_substores()), so get() must not hand out an empty row."""
    from formula import Evaluator, Unknown, Panic, StructVal, some, is_some
    r = ctx.rule(rid, "RelationMap::get answers None for an item without relations, also when its (empty) row exists because an item with a higher handle has one")
    fs = [f for f in syn.fns if f.name == "get" and f.file == "src/store.rs" and (f.self_ty or "").startswith("RelationMap<") and f.trait is None and f.body is not None]
    if len(fs) != 1:
        ctx.anchor_missing(r, "RelationMap::get")
        return
    fn = fs[0]
    ctx.functions_analysed.add(fn.qual)
    hooks = {"as_usize": lambda ev, recv, args, node, env: recv if isinstance(recv, int) else NotImplemented,
             "get": lambda ev, recv, args, node, env: ((some(recv[args[0]]) if 0 <= args[0] < len(recv) else None) if isinstance(recv, list) else NotImplemented),
             "is_empty": lambda ev, recv, args, node, env: (len(recv) == 0) if isinstance(recv, list) else NotImplemented}

    def h_filter(ev, recv, args, node, env):
        if (recv is None or is_some(recv)) and args and isinstance(args[0], tuple) and args[0][0] == "closure":
            if recv is None:
                return None
            from props.c10 import closure_call
            return recv if closure_call(ev, args[0], [recv[1]], env) else None
        return NotImplemented
    hooks["filter"] = h_filter
    m = StructVal("RelationMap", {"data": [[], [5], [], [2, 9]]})
    try:
        for x, want in ((0, None), (1, [5]), (2, None), (3, [2, 9]), (7, None)):
            got = Evaluator(hooks=hooks).run_body(fn.body, {"self": m, "x": x})
            r.hit("get(%d)" % x, sample={"rows": [[], [5], [], [2, 9]], "x": x, "answer": repr(got)})
            gv = got[1] if is_some(got) else None
            if gv != want:
                ctx.report(r, "empty-row" if want is None else "row", "RelationMap::get(%d) on the rows [[], [5], [], [2, 9]] answers %r, expected %r: an item without relations is told apart from one with relations by `get(x).is_none()` (a root-store resource with a lower handle than a sub-store's resource is otherwise not written by the JSON writer of the root store, and the store cannot be loaded back)" % (x, got, want), fn.file, fn.line)
    except (Unknown, Panic) as e:
        ctx.report(r, "unevaluated", "RelationMap::get could not be evaluated (%s)" % e, fn.file, fn.line)


def exclusive_rule(ctx, syn, rid="C01.EXCLUSIVE"):
    """ExclusiveRelationMap (annotation -> the one sub-store it belongs to): insert replaces, evaluated from its syntax tree"""
    from formula import Evaluator, Unknown, Panic, StructVal, some, is_some
    r = ctx.rule(rid, "ExclusiveRelationMap::insert(x, y) makes y the value of x also when x had a value before (an annotation moved to another sub-store is written with that sub-store)")
    fs = dict((f.name, f) for f in syn.fns if f.file == "src/store.rs" and (f.self_ty or "").startswith("ExclusiveRelationMap<") and f.trait is None and f.body is not None)
    if "insert" not in fs or "get" not in fs:
        ctx.anchor_missing(r, "ExclusiveRelationMap::insert / get")
        return
    ctx.functions_analysed.update([fs["insert"].qual, fs["get"].qual])

    class Cell(object):
        def __init__(self, d, k):
            self.d, self.k = d, k
    hooks = {}
    hooks["contains_key"] = lambda ev, recv, args, node, env: (args[0] in recv) if isinstance(recv, dict) and not isinstance(recv, StructVal) else NotImplemented

    def h_get(ev, recv, args, node, env):
        if isinstance(recv, dict) and not isinstance(recv, StructVal):
            return some(recv[args[0]]) if args[0] in recv else None
        return NotImplemented
    hooks["get"] = h_get
    hooks["copied"] = lambda ev, recv, args, node, env: recv
    hooks["cloned"] = hooks["copied"]

    def h_get_mut(ev, recv, args, node, env):
        if isinstance(recv, dict) and not isinstance(recv, StructVal):
            if args[0] not in recv:
                return None
            c = StructVal("Cell", {"v": recv[args[0]]})
            c._backing = (recv, args[0])
            cells.append(c)
            return some(c)
        return NotImplemented
    hooks["get_mut"] = h_get_mut

    def h_insert(ev, recv, args, node, env):
        if isinstance(recv, dict) and not isinstance(recv, StructVal) and len(args) == 2:
            old = recv.get(args[0])
            recv[args[0]] = args[1]
            return some(old) if old is not None else None
        return NotImplemented
    hooks["insert"] = h_insert
    hooks["entry"] = lambda ev, recv, args, node, env: ("entry", recv, args[0]) if isinstance(recv, dict) and not isinstance(recv, StructVal) else NotImplemented

    def or_insert(ev, recv, args, node, env):
        if isinstance(recv, tuple) and recv and recv[0] == "entry":
            recv[1].setdefault(recv[2], args[0])
            return recv[1][recv[2]]
        return NotImplemented
    hooks["or_insert"] = or_insert

    def and_modify_insert(ev, recv, args, node, env):
        return NotImplemented
    cells = []

    def do(name, m, *args):
        f = fs[name]
        params = [p_["pat"].get("name") for p_ in f.sig["inputs"]]
        res = Evaluator(hooks=hooks).run_body(f.body, dict([("self", m)] + list(zip(params, args))))
        for c in cells:      # write back `*entry = y`
            c._backing[0][c._backing[1]] = c["v"]
        del cells[:]
        return res
    try:
        m = StructVal("ExclusiveRelationMap", {"data": {}})
        do("insert", m, 1, 5)
        do("insert", m, 2, 7)
        do("insert", m, 1, 6)
        g1, g2, g3 = do("get", m, 1), do("get", m, 2), do("get", m, 3)
        v = lambda g: (g[1] if is_some(g) else None)
        r.hit("insert-replaces", sample={"inserted": [(1, 5), (2, 7), (1, 6)], "get(1)": repr(v(g1)), "get(2)": repr(v(g2)), "get(3)": repr(v(g3))})
        if (v(g1), v(g2), v(g3)) != (6, 7, None):
            ctx.report(r, "insert-replaces", "after insert(1,5), insert(2,7), insert(1,6) the map answers get(1)=%r get(2)=%r get(3)=%r; expected 6, 7, None: an annotation that is moved to another sub-store stays registered with the old one and is written into the wrong file" % (v(g1), v(g2), v(g3)), fs["insert"].file, fs["insert"].line)
    except (Unknown, Panic) as e:
        ctx.report(r, "unevaluated", "ExclusiveRelationMap::insert/get could not be evaluated (%s)" % e, fs["insert"].file, fs["insert"].line)


class TList(list):
    """a vector that knows how to make its default element (for resize_with(n, Default::default))"""
    def __init__(self, mk):
        super().__init__()
        self.mk = mk


def triple_rule(ctx, syn, rid="C01.TRIPLE"):
    """TripleRelationMap (set -> data/key -> annotations): insert / get / remove / remove_second evaluated from their
    syntax trees, the inner RelationMap through its own extracted methods: each operation touches exactly the row it names"""
    from formula import Evaluator, Unknown, Panic, StructVal, some, is_some
    r = ctx.rule(rid, "TripleRelationMap::insert / get / remove / remove_second address the row (x, y) they are given and no other (the metadata indices of keys and data items are rows of such maps)")
    fns = {}
    for ty in ("TripleRelationMap", "RelationMap"):
        for f in syn.fns:
            if f.file == "src/store.rs" and (f.self_ty or "").startswith(ty + "<") and f.trait is None and f.body is not None:
                fns[(ty, f.name)] = f
    for need in (("TripleRelationMap", "insert"), ("TripleRelationMap", "get"), ("TripleRelationMap", "remove"), ("TripleRelationMap", "remove_second"), ("RelationMap", "insert"), ("RelationMap", "get"), ("RelationMap", "remove"), ("RelationMap", "remove_all")):
        if need not in fns:
            ctx.anchor_missing(r, "%s::%s" % need)
            return
        ctx.functions_analysed.add(fns[need].qual)
    hooks = {}
    hooks["as_usize"] = lambda ev, recv, args, node, env: recv if isinstance(recv, int) else NotImplemented
    hooks["last"] = lambda ev, recv, args, node, env: (some(recv[-1]) if recv else None) if isinstance(recv, list) else NotImplemented
    hooks["is_empty"] = lambda ev, recv, args, node, env: (len(recv) == 0) if isinstance(recv, list) else NotImplemented
    hooks["clear"] = lambda ev, recv, args, node, env: (recv.clear() or ()) if isinstance(recv, list) else NotImplemented
    hooks["push"] = lambda ev, recv, args, node, env: (recv.append(args[0]) or ()) if isinstance(recv, list) else NotImplemented

    def resize_with(ev, recv, args, node, env):
        if isinstance(recv, TList):
            while len(recv) < args[0]:
                recv.append(recv.mk())
            return ()
        return NotImplemented
    hooks["resize_with"] = resize_with

    def get_(ev, recv, args, node, env):
        if isinstance(recv, list) and len(args) == 1 and isinstance(args[0], int):
            return some(recv[args[0]]) if 0 <= args[0] < len(recv) else None
        return NotImplemented
    hooks["get"] = get_
    hooks["get_mut"] = get_

    def position(ev, recv, args, node, env):
        from props.c10 import closure_call
        if isinstance(recv, list) and args and isinstance(args[0], tuple) and args[0][0] == "closure":
            for i, x in enumerate(recv):
                if closure_call(ev, args[0], [x], env):
                    return some(i)
            return None
        return NotImplemented
    hooks["position"] = position
    hooks["iter"] = lambda ev, recv, args, node, env: recv if isinstance(recv, list) else NotImplemented

    def h_remove(ev, recv, args, node, env):
        if isinstance(recv, list) and len(args) == 1 and isinstance(args[0], int):
            if not (0 <= args[0] < len(recv)):
                raise Panic("remove-out-of-bounds", node.get("l"))
            return recv.pop(args[0])
        return NotImplemented
    hooks["remove"] = h_remove

    def h_insert(ev, recv, args, node, env):
        if isinstance(recv, list) and len(args) == 2 and isinstance(args[0], int):
            recv.insert(args[0], args[1])
            return ()
        return NotImplemented
    hooks["insert"] = h_insert

    def bsearch(ev, recv, args, node, env):
        if not isinstance(recv, list):
            return NotImplemented
        from formula import ok, err
        lo, hi = 0, len(recv)
        while lo < hi:
            mid = (lo + hi) // 2
            if recv[mid] == args[0]:
                return ok(mid)
            if recv[mid] < args[0]:
                lo = mid + 1
            else:
                hi = mid
        return err(lo)
    hooks["binary_search"] = bsearch

    def map_or(ev, recv, args, node, env):
        from props.c10 import closure_call
        if recv is None:
            return args[0]
        if is_some(recv) and isinstance(args[1], tuple) and args[1][0] == "closure":
            return closure_call(ev, args[1], [recv[1]], env)
        return NotImplemented
    hooks["map_or"] = map_or

    def h_filter(ev, recv, args, node, env):
        from props.c10 import closure_call
        if (recv is None or is_some(recv)) and args and isinstance(args[0], tuple) and args[0][0] == "closure":
            if recv is None:
                return None
            return recv if closure_call(ev, args[0], [recv[1]], env) else None
        return NotImplemented
    hooks["filter"] = h_filter

    def dispatch(ev, recv, args, node, env):
        if isinstance(recv, StructVal) and (recv.tyname, node["method"]) in fns:
            f = fns[(recv.tyname, node["method"])]
            params = [p_["pat"].get("name") for p_ in f.sig["inputs"]]
            if len(params) != len(args):
                return NotImplemented
            return Evaluator(hooks=hooks).run_body(f.body, dict([("self", recv)] + list(zip(params, args))))
        return NotImplemented
    hooks["*"] = dispatch
    for nm in ("insert", "get", "remove", "remove_all", "get_mut"):
        prev = hooks.get(nm)

        def mk(nm, prev):
            def h(ev, recv, args, node, env):
                if isinstance(recv, StructVal):
                    return dispatch(ev, recv, args, node, env)
                return prev(ev, recv, args, node, env) if prev else NotImplemented
            return h
        hooks[nm] = mk(nm, prev)

    def new_map():
        return StructVal("TripleRelationMap", {"data": TList(lambda: StructVal("RelationMap", {"data": TList(list)}))})

    def call(m, name, *args):
        f = fns[("TripleRelationMap", name)]
        params = [p_["pat"].get("name") for p_ in f.sig["inputs"]]
        return Evaluator(hooks=hooks).run_body(f.body, dict([("self", m)] + list(zip(params, args))))

    def row(m, x, y):
        g = call(m, "get", x, y)
        return list(g[1]) if is_some(g) else None
    n = 0
    try:
        m = new_map()
        for x, y, z in ((1, 2, 5), (2, 1, 6), (1, 1, 7), (1, 2, 8)):
            call(m, "insert", x, y, z)
        state = {(1, 2): row(m, 1, 2), (2, 1): row(m, 2, 1), (1, 1): row(m, 1, 1), (2, 2): row(m, 2, 2)}
        n += 1
        r.hit("insert/get", sample={"inserted": [(1, 2, 5), (2, 1, 6), (1, 1, 7), (1, 2, 8)], "rows": {str(k): v for k, v in state.items()}})
        if state != {(1, 2): [5, 8], (2, 1): [6], (1, 1): [7], (2, 2): None}:
            ctx.report(r, "insert-get", "after inserting (1,2,5) (2,1,6) (1,1,7) (1,2,8) the rows read back as %s" % {str(k): v for k, v in state.items()}, fns[("TripleRelationMap", "insert")].file, fns[("TripleRelationMap", "insert")].line)
        call(m, "remove", 1, 2, 5)
        n += 1
        r.hit("remove")
        if (row(m, 1, 2), row(m, 2, 1), row(m, 1, 1)) != ([8], [6], [7]):
            ctx.report(r, "remove", "remove(1,2,5) leaves the rows (1,2)=%s (2,1)=%s (1,1)=%s; expected [8] [6] [7]" % (row(m, 1, 2), row(m, 2, 1), row(m, 1, 1)), fns[("TripleRelationMap", "remove")].file, fns[("TripleRelationMap", "remove")].line)
        # removing a relation that is not there changes nothing - also not in a row that holds a single other value
        call(m, "remove", 2, 1, 99)
        n += 1
        r.hit("remove-absent")
        if row(m, 2, 1) != [6]:
            ctx.report(r, "remove-absent", "remove(2,1,99) on the row (2,1)=[6] leaves %s: asking to remove a relation that is not in the row wipes the one that is (the annotation pre-removal asks this for targets it reaches through other annotations)" % row(m, 2, 1), fns[("TripleRelationMap", "remove")].file, fns[("TripleRelationMap", "remove")].line)
        call(m, "remove_second", 1, 2)
        n += 1
        got = (row(m, 1, 2), row(m, 2, 1), row(m, 1, 1), row(m, 2, 2))
        r.hit("remove_second", sample={"after_remove_second(1,2)": [str(x) for x in got]})
        if got != (None, [6], [7], None):
            ctx.report(r, "remove_second", "remove_second(1, 2) leaves (1,2)=%s (2,1)=%s (1,1)=%s (2,2)=%s; expected the row (1,2) gone and the others untouched: the metadata index row of another key / data item is wiped (or the intended one survives), so a later removal does not cascade to the annotations on it" % got, fns[("TripleRelationMap", "remove_second")].file, fns[("TripleRelationMap", "remove_second")].line)
    except (Unknown, Panic) as e:
        ctx.report(r, "unevaluated", "TripleRelationMap could not be evaluated (%s): that each operation addresses the row it names is not established" % e, fns[("TripleRelationMap", "insert")].file, fns[("TripleRelationMap", "insert")].line)
    # batch insertion (Extend): what inserted() uses for the entries of a complex target, whose members may lie in different
    # resources / datasets - every triple goes to the row it names, also one whose first-level row does not exist yet
    ext = [f for f in syn.fns if f.name == "extend" and f.file == "src/store.rs" and (f.self_ty or "").startswith("TripleRelationMap<") and "Extend" in (f.trait or "") and f.body is not None]
    if len(ext) != 1:
        ctx.anchor_missing(r, "Extend<(A, B, C)> for TripleRelationMap")
    else:
        ctx.functions_analysed.add(ext[0].qual)
        hooks2 = dict(hooks)
        class IterList(list):
            """a consuming iterator over a list: next() takes the first remaining item, a `for` runs over what is left"""
        hooks2["into_iter"] = lambda ev, recv, args, node, env: (recv if isinstance(recv, IterList) else IterList(recv)) if isinstance(recv, list) else NotImplemented
        hooks2["next"] = lambda ev, recv, args, node, env: ((some(recv.pop(0)) if recv else None) if isinstance(recv, IterList) else NotImplemented)

        hooks2["peek"] = lambda ev, recv, args, node, env: ((some(recv[0]) if recv else None) if isinstance(recv, IterList) else NotImplemented)

        def h_index_mut(ev, recv, args, node, env):
            return NotImplemented
        prev_get = hooks2.get("get_mut")
        hooks2["len"] = lambda ev, recv, args, node, env: len(recv) if isinstance(recv, list) else NotImplemented
        hooks2["peekable"] = lambda ev, recv, args, node, env: (recv if isinstance(recv, IterList) else IterList(recv)) if isinstance(recv, list) else NotImplemented
        try:
            m2 = new_map()
            call(m2, "insert", 0, 3, 4)
            params = [p_["pat"].get("name") for p_ in ext[0].sig["inputs"]]
            batch = [(0, 1, 9), (2, 1, 9), (5, 0, 9), (2, 2, 9)]
            Evaluator(hooks=hooks2).run_body(ext[0].body, dict([("self", m2)] + list(zip(params, [list(batch)]))))
            n += 1
            got = dict(((x, y), row(m2, x, y)) for x, y in ((0, 3), (0, 1), (2, 1), (5, 0), (2, 2), (0, 0)))
            want = {(0, 3): [4], (0, 1): [9], (2, 1): [9], (5, 0): [9], (2, 2): [9], (0, 0): None}
            r.hit("extend", sample={"batch": batch, "rows": {str(k): v for k, v in got.items()}})
            if got != want:
                wrong = sorted(str(k) for k in want if got.get(k) != want[k])
                ctx.report(r, "extend", "after extend(%s) on a map that holds (0,3,4) the rows %s read back as %s: an entry of the batch whose first handle differs from the first entry's (another resource or dataset of the same annotation) is filed in the wrong row or dropped, and the annotation is not found from that target" % (batch, ", ".join(wrong), [got[eval(k)] for k in wrong]), ext[0].file, ext[0].line)
        except (Unknown, Panic) as e:
            ctx.report(r, "unevaluated:extend", "Extend for TripleRelationMap could not be evaluated (%s): that a batch is filed row by row is not established" % e, ext[0].file, ext[0].line)
    ctx.floor(r, n, 5, "TripleRelationMap operations evaluated")


def SInt_(v):
    from formula import SInt
    return SInt(v)


# ---------------------------------------------------------------------- GUARD
def guard_rule(ctx, syn):
    """protect_text() attaches data to annotations that exist already and writes the reverse index by hand.  The pairing
    is read off the code: a queue is drained into insert_data(.., KEY, ..) + add_data + index insert; what is put on that
    queue must be annotations that do not carry data under KEY yet, i.e. the push is guarded by X().is_none() where X
    looks the annotation's data up under the same KEY literal."""
    from synq import unparse, children, str_lits
    r = ctx.rule("C01.GUARD", "data attached to existing annotations by hand (protect_text) is attached only to annotations that do not carry data under that key yet: the queue drained into insert_data(.., KEY, ..) is filled under a guard that looks up the same KEY")
    fs = [f for f in syn.fns if f.name == "protect_text" and (f.self_ty or "") == "AnnotationStore"]
    if len(fs) != 1:
        ctx.anchor_missing(r, "AnnotationStore::protect_text")
        return
    fn = fs[0]
    ctx.functions_analysed.add(fn.qual)
    drains = {}  # queue -> KEY
    for lp in walk(fn.body):
        if lp.get("k") != "for":
            continue
        q = strip(lp["iter"])
        if q.get("k") != "path" or len(q["path"]) != 1:
            continue
        keys = [c for c in walk(lp["body"]) if c.get("k") == "mcall" and c["method"] == "insert_data"]
        manual = [c for c in walk(lp["body"]) if c.get("k") == "mcall" and c["method"] in ("add_data",)]
        if keys and manual:
            k_ = strip(keys[0]["args"][1]) if len(keys[0]["args"]) > 1 else None
            if k_ is None or k_.get("k") != "lit" or k_.get("t") != "str":
                ctx.report(r, "key-not-literal:" + q["path"][0], "protect_text drains %s into insert_data with a key that is not a literal: the guard pairing cannot be established" % q["path"][0], fn.file, lp["l"])
                continue
            drains[q["path"][0]] = k_["v"]
    ctx.floor(r, len(drains), 2, "queues drained into insert_data + add_data")
    lookups = {}
    for f in syn.fns:
        if f.file == fn.file and f.body and f.name.startswith("validation_"):
            lookups[f.name] = set(str_lits(f.body))

    def visit(node, conds):
        k = node.get("k") if isinstance(node, dict) else None
        if k == "closure":
            return
        if k == "if":
            visit(node["cond"], conds)
            visit(node["then"], conds + [node["cond"]])
            if node.get("else"):
                visit(node["else"], conds)
            return
        if k == "mcall" and node["method"] == "push":
            q = strip(node["recv"])
            if q.get("k") == "path" and len(q["path"]) == 1 and q["path"][0] in drains:
                qn, key = q["path"][0], drains[q["path"][0]]
                guards = []
                for c in conds:
                    for m in walk(c):
                        if m.get("k") == "mcall" and m["method"] == "is_none" and strip(m["recv"]).get("k") == "mcall":
                            guards.append(strip(m["recv"])["method"])
                r.hit(qn, sample={"queue": qn, "key": key, "guards": guards})
                good = [g for g in guards if key in lookups.get(g, ())]
                if not good:
                    ctx.report(r, "unguarded:" + key, "protect_text queues an annotation for new \"%s\" data under the guard %s, none of which looks up \"%s\" data of that annotation: an annotation that already carries it gets the same data item attached again (its data and the index row list it twice)" % (key, guards or "(none)", key), fn.file, node["l"])
        for c in children(node):
            visit(c, conds)
    visit(fn.body, [])
    if r.instances < len(drains):
        ctx.report(r, "no-push", "a queue drained by protect_text is never filled in its own body: the guard pairing cannot be established", fn.file, fn.line)


# ---------------------------------------------------------------------- MULTIARMS
def multiarms_rule(ctx, syn, rid="C01.MULTIARMS"):
    """the multi-target block of StoreCallbacks<Annotation>::inserted walks the sub-selectors of a complex target and
    queues one reverse-index entry per sub-selector.  Its match is evaluated (lib/formula.py) once per kind of
    sub-selector with every index switched on: each kind must queue exactly the entries that point back from what it
    references - an annotation selector the (target annotation -> annotation) pair *whether or not it carries a text
    offset*, and with an offset also the (resource, text selection -> annotation) triple."""
    from formula import Evaluator, Unknown, Panic, StructVal, EnumVal, some
    r = ctx.rule(rid, "in the multi-target block of inserted() every kind of sub-selector queues exactly its own reverse-index entries (annotation selectors with and without offset, text, resource, dataset, key and data selectors)")
    fns = [f for f in syn.fns if f.name == "inserted" and f.file == "src/annotationstore.rs" and f.body is not None and "Annotation" in (f.trait or "") and "AnnotationData" not in (f.trait or "")]
    loop = None
    fn = None
    for f in fns:
        for nd in walk(f.body):
            if nd.get("k") == "for" and "target().iter(self" in unparse(nd["iter"]).replace(" ", "") and any(x.get("k") == "match" for x in walk(nd["body"])):
                loop, fn = nd, f
    if loop is None:
        ctx.anchor_missing(r, "the loop over annotation.target().iter(self, false) in StoreCallbacks<Annotation>::inserted")
        return
    ctx.functions_analysed.add(fn.qual)
    var = loop["pat"].get("name")
    cfg_fields = set(re.findall(r"self\.config\.(\w+)", unparse(loop["body"])))
    lists = sorted(set(m_["recv"]["s"] for m_ in walk(loop["body"]) if m_.get("k") == "mcall" and m_["method"] == "push" and strip(m_["recv"]).get("k") == "path" and len(strip(m_["recv"])["path"]) == 1) if False else set())
    names = set()
    for m_ in walk(loop["body"]):
        if m_.get("k") == "mcall" and m_["method"] == "push":
            rv_ = strip(m_["recv"])
            if rv_.get("k") == "path" and len(rv_["path"]) == 1:
                names.add(rv_["path"][0])
    H = 99
    mode = EnumVal("BeginEnd")
    cases = [
        ("AnnotationSelector+offset", EnumVal("AnnotationSelector", [7, some((1, 2, mode))]), {("annotation", (7, H)), ("text", (1, 2, H))}),
        ("AnnotationSelector", EnumVal("AnnotationSelector", [7, None]), {("annotation", (7, H))}),
        ("TextSelector", EnumVal("TextSelector", [1, 2, mode]), {("text", (1, 2, H))}),
        ("ResourceSelector", EnumVal("ResourceSelector", [1]), {("resource", (1, H))}),
        ("DataSetSelector", EnumVal("DataSetSelector", [3]), {("dataset", (3, H))}),
        ("DataKeySelector", EnumVal("DataKeySelector", [3, 4]), {("key", (3, 4, H))}),
        ("AnnotationDataSelector", EnumVal("AnnotationDataSelector", [3, 5]), {("data", (3, 5, H))}),
    ]
    kind_of_list = lambda nm: "annotation" if "annotations" in nm else "text" if "text" in nm else "resource" if "resource" in nm else "dataset" if "dataset" in nm else "key" if "key" in nm else "data" if "data" in nm else nm
    n = 0
    for label, sel, want in cases:
        env = {var: sel, "handle": H, "self": StructVal("Store", {"config": StructVal("Config", dict((c_, True) for c_ in cfg_fields))})}
        for nm in names:
            env[nm] = []
        try:
            Evaluator(hooks={}).block(loop["body"], env, {})
        except (Unknown, Panic) as ex:
            ctx.report(r, "unevaluated:" + label, "the multi-target match of inserted() could not be evaluated for a %s sub-selector (%s): which index entries it queues is not established" % (label, ex), fn.file, loop.get("l"))
            continue
        n += 1
        got = set()
        for nm in names:
            for item in env[nm]:
                got.add((kind_of_list(nm), tuple(item) if isinstance(item, (tuple, list)) else item))
        r.hit(label, sample={"sub_selector": label, "queues": sorted("%s%s" % (k_, v_) for k_, v_ in got)})
        if got != want:
            miss = sorted("%s%s" % x for x in want - got)
            extra = sorted("%s%s" % x for x in got - want)
            ctx.report(r, label, "for a %s sub-selector of a complex target the multi-target block of inserted() queues %s%s: the annotation is then not found from what that sub-selector references (and a cascade that follows the index leaves it behind with a dangling target)" % (label, ("nothing for " + ", ".join(miss)) if miss else "", ((" and the unrelated " + ", ".join(extra)) if extra else "")), fn.file, loop.get("l"))
    ctx.floor(r, n, 7, "sub-selector kinds evaluated")



# ---------------------------------------------------------------------- RANGEREC
def rangerec_rule(ctx, syn, rid="C01.RANGEREC"):
    """consecutive annotation selectors of a complex target are stored as one range.  Walking a target
    (SelectorIter) follows an AnnotationSelector into the target of its annotation when asked to (recurse_annotation):
    that is how resources(), annotations_in_targets(Max) and the metadata iterators see what lies behind an
    annotation.  The arm for the range must do the same for each annotation it stands for - sibling agreement of the
    two arms of SelectorIter::next that yield annotation selectors."""
    from synq import unparse
    r = ctx.rule(rid, "in SelectorIter::next the arm for a range of annotation selectors follows each annotation's target under recurse_annotation, like the arm for a single AnnotationSelector")
    fns = [f for f in syn.fns if f.name == "next" and (f.self_ty or "").startswith("SelectorIter") and f.body is not None]
    if len(fns) != 1:
        ctx.anchor_missing(r, "SelectorIter::next")
        return
    f = fns[0]
    ctx.functions_analysed.add(f.qual)
    arms = {}
    for nd in walk(f.body):
        if nd.get("k") == "match":
            for a in nd["arms"]:
                names = set(q["path"][-1] for q in walk(a["pat"]) if q.get("k") == "pat" and q.get("path"))
                for v in ("AnnotationSelector", "RangedAnnotationSelector"):
                    if v in names and len(names & {"AnnotationSelector", "RangedAnnotationSelector", "Selector"}) >= 1 and v not in arms:
                        arms[v] = a
    if set(arms) != {"AnnotationSelector", "RangedAnnotationSelector"}:
        ctx.anchor_missing(r, "the arms for AnnotationSelector and RangedAnnotationSelector in SelectorIter::next (found %s)" % sorted(arms))
        return

    def follows(arm):
        for nd in walk(arm["body"]):
            if nd.get("k") == "if" and "recurse_annotation" in unparse(nd["cond"]):
                for x in walk(nd["then"]):
                    if x.get("k") == "mcall" and x.get("method") == "push" and "subiterstack" in unparse(x["recv"]):
                        return True
        return False
    res = dict((v, follows(a)) for v, a in arms.items())
    r.hit(f.qual, sample={"arm_follows_annotation_target": res})
    if not res["AnnotationSelector"]:
        ctx.report(r, "single", "SelectorIter::next no longer follows an AnnotationSelector into the target of its annotation under recurse_annotation: what lies behind an annotation (resources(), annotations_in_targets(Max)) is not seen", f.file, arms["AnnotationSelector"].get("l"))
    if res["AnnotationSelector"] and not res["RangedAnnotationSelector"]:
        ctx.report(r, "range", "SelectorIter::next follows a single AnnotationSelector into its annotation's target but not the annotations of a RangedAnnotationSelector: a complex target over consecutive annotations (stored as a range) answers resources() / annotations_in_targets(Max) / the metadata iterators with nothing, the same target over non-consecutive annotations answers correctly", f.file, arms["RangedAnnotationSelector"].get("l"))
