"""Both-ways self test (thorough tier): every stored mutant / seeded change of a property is
applied to a scratch copy of /repo's current tree (under /tmp, removed afterwards) and the
property's quick check is run against it.  A mutant that is expected to break the property must
be reported; a behaviour-preserving control must stay silent.  The outcome is recorded in the
evidence file; it never changes the verdict on /repo itself."""
import json
import os
import shutil
import subprocess
import tempfile
from concurrent.futures import ThreadPoolExecutor

VERIF = os.path.dirname(os.path.dirname(os.path.abspath(__file__)))


def cases(pid):
    out = []
    try:
        idx = json.load(open(os.path.join(VERIF, "mutants", "index.json")))
    except OSError:
        idx = {"mutants": []}
    for m in idx["mutants"]:
        if pid in m["property"].split(","):
            out.append({"name": m["name"], "patch": os.path.join(VERIF, m["patch"]) if m.get("patch") else None, "generator": m.get("generator"), "expect": m["expect"], "what": m.get("what", "")})
    sd = os.path.join(VERIF, "seeded")
    for d in sorted(os.listdir(sd)) if os.path.isdir(sd) else []:
        meta_p = os.path.join(sd, d, "meta.json")
        if not os.path.exists(meta_p):
            continue
        meta = json.load(open(meta_p))
        st = meta.get("status", {})
        if isinstance(st, str):
            st = {"state": st}
        caught_by = st.get("caught_by") or [meta.get("property")]
        if pid not in caught_by:
            continue
        state = (st.get("state") or "").split(":")[0].strip()
        if state == "obsolete":
            continue
        if state == "neutralised":
            st = dict(st, expect="silent")
        patch = os.path.join(sd, d, "patch.rebased.diff")
        if not os.path.exists(patch):
            patch = os.path.join(sd, d, "patch.diff")
        out.append({"name": "seeded/" + d, "patch": patch, "expect": st.get("expect", "violation"), "what": meta.get("summary", "")[:160]})
    return out


def run_one(pid, case):
    d = tempfile.mkdtemp(prefix="stamself.", dir="/tmp")
    try:
        repo = os.path.join(d, "repo")
        subprocess.check_call(["rsync", "-a", "--exclude", "target", "--exclude", ".git", "/repo/", repo + "/"])
        if case.get("generator") == "cargo fmt":
            # layout-only control generated from the current tree (never stale)
            subprocess.run(["cargo", "fmt"], cwd=repo, capture_output=True, text=True)
        else:
            r = subprocess.run(["git", "apply", "--whitespace=nowarn", case["patch"]], cwd=repo, capture_output=True, text=True)
            if r.returncode != 0:
                return dict(case, outcome="stale", detail="patch does not apply to the current tree")
        env = dict(os.environ, STAM_REPO=repo, STAM_VERIF_NOEVIDENCE="1", STAM_VERIF_NOSELFTEST="1")
        r = subprocess.run([os.path.join(VERIF, "bin", "check"), pid, "--tier", "quick"], env=env, capture_output=True, text=True)
        if "does /repo compile?" in (r.stdout + r.stderr):
            # the variant applies but no longer builds (a later repair renamed what it uses): no verdict either way
            return dict(case, outcome="stale", detail="the patched tree does not compile")
        v = [l for l in r.stdout.splitlines() if l.startswith("VIOLATION")]
        keys = sorted(set(l.split(" key=")[1].split(" ")[0] for l in v if " key=" in l))
        fired = bool(v)
        ok = fired == (case["expect"] == "violation")
        return dict(case, outcome=("caught" if fired else "silent"), as_expected=ok, keys=keys[:5])
    finally:
        shutil.rmtree(d, ignore_errors=True)


def run(pid, jobs=6):
    cs = cases(pid)
    if not cs:
        return {"cases": 0, "results": []}
    with ThreadPoolExecutor(max_workers=jobs) as ex:
        res = list(ex.map(lambda c: run_one(pid, c), cs))
    for r in res:
        r.pop("patch", None)
    return {
        "cases": len(res),
        "as_expected": sum(1 for r in res if r.get("as_expected")),
        "missed": [r["name"] for r in res if r["outcome"] == "silent" and r["expect"] == "violation"],
        "false_alarm_on_control": [r["name"] for r in res if r["outcome"] == "caught" and r["expect"] == "silent"],
        "stale": [r["name"] for r in res if r["outcome"] == "stale"],
        "results": res,
    }
