"""A6: unit inference (codepoint positions vs UTF-8 byte positions) over MIR.

Every local carries at most one unit (Char or Byte); wrappers (Option/Result/references,
checked-arithmetic tuples) are transparent.  Seeds come from the return values of the
conversion functions, from std string functions and from declared field units.  A
violation is a definite mismatch: arithmetic or comparison between Char and Byte, a
Byte passed where a Char is expected (or the reverse), a value of one unit stored in a
field of the other.  Unknown never alarms."""
import re
from collections import defaultdict
from mirq import callee_of, op_place, short_fn

CHAR, BYTE = "Char", "Byte"

# return-value seeds: (regex on the declared callee path, optional regex on the first argument type, unit)
RET = [
    (r"::textlen$", None, CHAR),
    (r"^core::str::<impl str>::len$|^alloc::string::String::len$|^std::string::String::len$", None, BYTE),
    (r"::(utf8byte)$", None, BYTE),
    (r"::(utf8byte_to_charpos)$", None, CHAR),
    (r"::(absolute_cursor|beginaligned_cursor)$", None, CHAR),
    (r"::subslice_utf8_offset$", None, BYTE),
    (r"^core::str::<impl str>::(find|rfind|floor_char_boundary|ceil_char_boundary)$", None, BYTE),
    (r"^regex::.*Match.*::(start|end)$", None, BYTE),
    (r"^(core|std)::char::methods::<impl char>::len_utf8$", None, BYTE),
    (r"::count$", r"Chars<", CHAR),
    (r"::bytepos$", None, BYTE),
    (r"^std::io::Read::(read|read_to_string|read_to_end)$|^std::io::Write::write$|^std::fs::read_to_string$.len", None, BYTE),
    (r"(textselection::TextSelection|ResultTextSelection<'store>|store::ResultItem<'store, textselection::TextSelection>)[^:]*>?::(begin|end)$", None, CHAR),
    (r"^textselection::TextSelection::(begin|end|relative_begin|relative_end)$", None, CHAR),
    (r"^api::textselection::<impl .*>::(begin|end)$", None, CHAR),
    (r"^textselection::(TextSelectionSet|ResultTextSelectionSet).*::(begin|end)$", None, CHAR),
]
# parameter expectations: regex on callee -> {arg index: unit}
PARAM = [
    (r"::utf8byte$", {1: CHAR}),
    (r"::utf8byte_to_charpos$", {1: BYTE}),
    (r"::absolute_cursor$", {1: CHAR}),
    (r"^selector::Offset::simple$", {0: CHAR, 1: CHAR}),
    (r"^resources::TextResource::(range|positions_in_range)$", {1: CHAR, 2: CHAR}),
    (r"^resources::TextResource::position$", {1: CHAR}),
]
# field units: (adt, field) -> unit
FIELD = {
    ("textselection::TextSelection", "begin"): CHAR, ("textselection::TextSelection", "end"): CHAR,
    ("textselection::PositionIndexItem", "bytepos"): BYTE,
    ("resources::TextResource", "textlen"): CHAR,
    ("api::text::FindRegexIter", "begincharpos"): CHAR, ("api::text::FindRegexIter", "beginbytepos"): BYTE,
    ("api::text::SplitTextIter", "byteoffset"): BYTE,
    ("api::resources::SegmentationIter", "cursor"): CHAR, ("api::resources::SegmentationIter", "end"): CHAR,
}
# enum payload units: (adt, variant) -> [units]
VARIANT = {
    ("types::Cursor", "BeginAligned"): [CHAR], ("types::Cursor", "EndAligned"): [CHAR],
}
# coordinate space of Char positions: absolute (in the resource) seeds
ABS_RET = [
    (r"(textselection::TextSelection|ResultTextSelection<'store>|store::ResultItem<'store, textselection::TextSelection>)[^:]*>?::(begin|end)$", None),
    (r"^textselection::TextSelection::(begin|end)$", None),
    (r"^api::textselection::<impl .*>::(begin|end)$", None),
    (r"::utf8byte_to_charpos$", r"resources::TextResource"),
    (r"::absolute_cursor$", None),
]
ABS_FIELD = {("api::text::FindRegexIter", "begincharpos"), ("api::resources::SegmentationIter", "cursor"), ("api::resources::SegmentationIter", "end"),
             ("textselection::TextSelection", "begin"), ("textselection::TextSelection", "end")}
TRANSPARENT = re.compile(r"::(unwrap|expect|unwrap_or|unwrap_or_default|unwrap_or_else|ok|ok_or|ok_or_else|map_err|copied|cloned|as_ref|as_mut|branch|from_residual|into|from|clone|deref|abs|min|max|checked_add|checked_sub|saturating_sub|saturating_add|wrapping_sub|wrapping_add|try_into|try_from|unsigned_abs)$")
TUPLE_ITER = [
    (r"::next(_back)?$", r"Enumerate<(std|core)::str::CharIndices<", (CHAR, (BYTE, None))),
    (r"::next$", r"CharIndices<", (BYTE, None)),
    (r"::next$", r"Enumerate<std::str::Chars<|Enumerate<core::str::Chars<|Enumerate<std::iter::Rev<std::str::Chars", (CHAR, None)),
    (r"::next_back$", r"CharIndices<", (BYTE, None)),
    (r"::(nth|last)$", r"^&mut (std|core)::str::CharIndices<|^(std|core)::str::CharIndices<", (BYTE, None)),
]


class Units:
    def __init__(self, body, prog=None, captures=None, param=None, depth=0):
        self.b = body
        self.prog = prog
        self.captures = captures   # units of the captured variables (closure bodies analysed for their caller)
        self.depth = depth
        self.unit = {}      # local -> unit
        self.tup = {}       # local -> tuple of units (for iterator items)
        self.conflict = set()
        self.viol = []
        self.abs = set()    # locals that hold an absolute codepoint position
        # the parameters of the conversion functions themselves carry the unit their callers must pass
        for rx, exp in PARAM:
            if re.search(rx, body.id):
                for idx, u in exp.items():
                    if 1 <= idx + 0 <= body.argc and not str(body.local_ty(idx + 0)).startswith("&"):
                        pass
                # argument indices in PARAM count the receiver as 0 for methods: local 1 is self
                for idx, u in exp.items():
                    l = idx + 1
                    if l <= body.argc and re.match(r"^(usize|isize|u\d+|i\d+)$", str(body.local_ty(l))):
                        self.unit[l] = u
        if param is not None and body.argc >= 2:
            if isinstance(param, tuple):
                self.tup[2] = param
            else:
                self.unit[2] = param
        self._run()
        self._run_space()

    def u_place(self, p):
        """unit of a place expression"""
        u = None
        l = p["l"]
        proj = p["p"]
        # field projections with a declared unit win (innermost last)
        for e in proj:
            if isinstance(e, dict) and "f" in e:
                fu = FIELD.get((e.get("a"), e.get("n")))
                if fu:
                    u = fu
        if u:
            return u
        if self.captures is not None and l == 1 and proj and isinstance(proj[0], dict) and proj[0].get("a") == "{closure}" and all(e == "*" for e in proj[1:]):
            i = proj[0]["f"]
            return self.captures[i] if i < len(self.captures) else None
        # tuple item of an iterator carrier: .0 / .1 after optional downcast
        if l in self.tup:
            idxs = [e["f"] for e in proj if isinstance(e, dict) and "f" in e and e.get("a") in ("(tuple)", None)]
            # the Some payload itself is field 0 of Option, then the tuple index
            opt = [e for e in proj if isinstance(e, dict) and "f" in e and e.get("a") == "std::option::Option"]
            if idxs:
                t = self.tup[l]
                for i in idxs:
                    if isinstance(t, tuple) and i < len(t):
                        t = t[i]
                    else:
                        return None
                return t if isinstance(t, str) else None
            return None
        # checked arithmetic tuples `(_x.0)`, Option/Result payloads: transparent
        if any(isinstance(e, dict) and "f" in e and e.get("a") not in ("(tuple)", "std::option::Option", "std::result::Result", "std::ops::ControlFlow", None) for e in proj):
            return None  # a field of some other struct without declared unit
        if any(isinstance(e, dict) and "f" in e and e.get("a") == "(tuple)" and e["f"] != 0 for e in proj):
            return None  # second component of a tuple (overflow flag, other item)
        return self.unit.get(l)

    def u_op(self, o):
        p = op_place(o)
        if p is None:
            return None
        return self.u_place(p)

    def _closure_result(self, t):
        """unit of what `opt.map(closure)` carries: the closure body analysed with the units of what it captures and
        of the payload it is given"""
        c = op_place(t["args"][1])
        if c is None or c["p"]:
            return None
        sd = self.b.single_def(c["l"])
        if not sd or sd[2] != "assign" or sd[3].get("r") != "agg" or sd[3].get("ak") != "closure":
            return None
        cb = self.prog.bodies.get(sd[3].get("closure"))
        if cb is None:
            return None
        caps = [self.u_op(o) for o in sd[3].get("ops", [])]
        q = op_place(t["args"][0])
        param = None
        if q is not None:
            param = self.tup.get(q["l"]) if q["l"] in self.tup else self.u_place(q)
        child = Units(cb, self.prog, captures=caps, param=param, depth=self.depth + 1)
        return child.unit.get(0)

    def _set(self, l, u):
        if u is None or l in self.conflict:
            return False
        old = self.unit.get(l)
        if old is None:
            self.unit[l] = u
            return True
        if old != u:
            self.conflict.add(l)
            del self.unit[l]
            return True
        return False

    def _run(self):
        b = self.b
        for _ in range(12):
            changed = False
            for bi, blk in enumerate(b.blocks):
                for s in blk["s"]:
                    rv = s.get("rv")
                    if not rv or s["p"]["p"]:
                        continue
                    l = s["p"]["l"]
                    r = rv["r"]
                    u = None
                    if r in ("use", "cast"):
                        u = self.u_op(rv["o"])
                        q = op_place(rv["o"])
                        if q is not None and q["l"] in self.tup and not [e for e in q["p"] if isinstance(e, dict) and "f" in e and e.get("a") == "(tuple)"]:
                            # moving the carrier (e.g. Some payload) keeps the tuple units
                            if l not in self.tup:
                                self.tup[l] = self.tup[q["l"]]
                                changed = True
                    elif r == "ref":
                        u = self.u_place(rv["p"])
                        if rv["p"]["l"] in self.tup and not [e for e in rv["p"]["p"] if isinstance(e, dict) and "f" in e and e.get("a") == "(tuple)"]:
                            if l not in self.tup:
                                self.tup[l] = self.tup[rv["p"]["l"]]
                                changed = True
                    elif r == "bin":
                        op = rv["op"]
                        ua, ub = self.u_op(rv["a"]), self.u_op(rv["b"])
                        if op in ("Add", "Sub", "AddWithOverflow", "SubWithOverflow", "AddUnchecked", "SubUnchecked"):
                            u = ua or ub
                        elif op in ("Mul", "MulWithOverflow", "Div", "Rem"):
                            ka, kb = rv["a"].get("k"), rv["b"].get("k")
                            if kb is not None:
                                u = ua
                            elif ka is not None:
                                u = ub
                    elif r == "un":
                        u = self.u_op(rv["o"])
                    elif r == "agg" and rv.get("ak") == "adt" and rv.get("adt") in ("std::option::Option", "std::result::Result") and rv.get("ops"):
                        u = self.u_op(rv["ops"][0])
                    if self._set(l, u):
                        changed = True
                t = blk["t"]
                if t["t"] == "call" and "dest" in t and not t["dest"]["p"]:
                    l = t["dest"]["l"]
                    decl, res, info = callee_of(t)
                    if not decl:
                        continue
                    at0 = (t.get("at") or [""])[0]
                    u = None
                    for rx, arx, unit in RET:
                        if re.search(rx, decl) and (arx is None or re.search(arx, at0)):
                            u = unit
                            break
                    if u is None and TRANSPARENT.search(decl) and t.get("args"):
                        u = self.u_op(t["args"][0])
                        if u is None and re.search(r"::(unwrap_or|min|max)$", decl) and len(t["args"]) > 1:
                            u = self.u_op(t["args"][1])  # the default / other operand may be the result
                        q = op_place(t["args"][0])
                        if q is not None and q["l"] in self.tup and l not in self.tup:
                            self.tup[l] = self.tup[q["l"]]
                            changed = True
                    if u is None and self.prog is not None and self.depth < 2 and re.search(r"^std::(option::Option|result::Result)::<.*>::map$", decl) and len(t.get("args", [])) == 2:
                        u = self._closure_result(t)
                    for rx, arx, tu in TUPLE_ITER:
                        if re.search(rx, decl) and re.search(arx, at0) and l not in self.tup:
                            self.tup[l] = tu
                            changed = True
                    if self._set(l, u):
                        changed = True
            if not changed:
                break
        self._check()

    def abs_place(self, p):
        for e in p["p"]:
            if isinstance(e, dict) and "f" in e and (e.get("a"), e.get("n")) in ABS_FIELD:
                return True
        if any(isinstance(e, dict) and "f" in e and e.get("a") not in ("(tuple)", "std::option::Option", "std::result::Result", "std::ops::ControlFlow", None) for e in p["p"]):
            return False
        if any(isinstance(e, dict) and "f" in e and e.get("a") == "(tuple)" and e["f"] != 0 for e in p["p"]):
            return False
        return p["l"] in self.abs

    def abs_op(self, o):
        p = op_place(o)
        return p is not None and self.abs_place(p)

    def _run_space(self):
        b = self.b
        for _ in range(10):
            changed = False
            for blk in b.blocks:
                for s in blk["s"]:
                    rv = s.get("rv")
                    if not rv or s["p"]["p"]:
                        continue
                    l = s["p"]["l"]
                    a = False
                    if rv["r"] in ("use", "cast", "un"):
                        a = self.abs_op(rv["o"])
                    elif rv["r"] == "ref":
                        a = self.abs_place(rv["p"])
                    elif rv["r"] == "bin" and rv["op"] in ("Add", "AddWithOverflow"):
                        a = self.abs_op(rv["a"]) or self.abs_op(rv["b"])
                    elif rv["r"] == "bin" and rv["op"] in ("Sub", "SubWithOverflow"):
                        # Abs - Abs is a distance; Abs - distance stays Abs
                        a = self.abs_op(rv["a"]) and not self.abs_op(rv["b"])
                    elif rv["r"] == "agg" and rv.get("adt") in ("std::option::Option", "std::result::Result") and rv.get("ops"):
                        a = self.abs_op(rv["ops"][0])
                    if a and l not in self.abs and self.unit.get(l) != BYTE:
                        self.abs.add(l)
                        changed = True
                t = blk["t"]
                if t["t"] == "call" and "dest" in t and not t["dest"]["p"]:
                    l = t["dest"]["l"]
                    decl, res, info = callee_of(t)
                    if not decl:
                        continue
                    at0 = (t.get("at") or [""])[0]
                    a = False
                    for rx, arx in ABS_RET:
                        if re.search(rx, decl) and (arx is None or re.search(arx, at0)):
                            a = True
                    if not a and TRANSPARENT.search(decl) and t.get("args"):
                        a = self.abs_op(t["args"][0])
                    if a and l not in self.abs:
                        self.abs.add(l)
                        changed = True
            if not changed:
                break
        # offsets built from absolute positions, handed to an API that reads them relative to a selection
        absoff = {}
        for _ in range(6):
            ch = False
            for blk in b.blocks:
                t = blk["t"]
                if t["t"] == "call" and "dest" in t and not t["dest"]["p"]:
                    decl, res, info = callee_of(t)
                    if decl and re.search(r"selector::Offset::(simple|new)$", decl) and t.get("args"):
                        which = [i for i, a_ in enumerate(t["args"]) if self.abs_op(a_) or (op_place(a_) is not None and op_place(a_)["l"] in absoff)]
                        if which and t["dest"]["l"] not in absoff:
                            absoff[t["dest"]["l"]] = b.key_of_operand(t["args"][which[0]])[:60]
                            ch = True
                for s_ in blk["s"]:
                    rv = s_.get("rv")
                    if not rv or s_["p"]["p"]:
                        continue
                    src_l = None
                    if rv["r"] in ("use", "cast"):
                        q_ = op_place(rv["o"])
                        src_l = q_["l"] if q_ else None
                    elif rv["r"] == "ref":
                        src_l = rv["p"]["l"]
                    elif rv["r"] == "agg" and rv.get("adt", "").endswith("Cursor") and rv.get("ops") and self.abs_op(rv["ops"][0]) and rv.get("variant") == "BeginAligned":
                        if s_["p"]["l"] not in absoff:
                            absoff[s_["p"]["l"]] = b.key_of_operand(rv["ops"][0])[:60]
                            ch = True
                    if src_l in absoff and s_["p"]["l"] not in absoff:
                        absoff[s_["p"]["l"]] = absoff[src_l]
                        ch = True
            if not ch:
                break
        for blk in b.blocks:
            if blk.get("cleanup"):
                continue
            t = blk["t"]
            if t["t"] == "call" and t.get("args") and len(t["args"]) >= 2:
                decl, res, info = callee_of(t)
                at0 = (t.get("at") or [""])[0]
                if decl and re.search(r"::(textselection|text_by_offset)$", decl) and not re.search(r"TextResource", at0):
                    q_ = op_place(t["args"][1])
                    if q_ is not None and q_["l"] in absoff:
                        self._v("abs-offset-to-relative-api", decl.split("::")[-1], t.get("line"), "an offset built from the absolute position %s is passed to %s on a receiver of type %s, which reads offsets relative to its own begin" % (absoff[q_["l"]], decl.split("::")[-1], at0[:50]))
        # relative positions carry the selection they are relative to: Abs - X.begin() is relative to X, and must go to X's API
        def base_of(o):
            """if operand o holds `X.begin()` or `X.absolute_cursor(0)`: the key of X"""
            q = op_place(o)
            depth = 0
            while q is not None and not q["p"] and depth < 6:
                sd = b.single_def(q["l"])
                if sd is None:
                    return None
                _, _, kind, payload = sd
                if kind == "call":
                    decl, res, info = callee_of(payload)
                    if decl and payload.get("args") and (re.search(r"::begin$", decl) or (re.search(r"::absolute_cursor$", decl) and len(payload["args"]) == 2 and (payload["args"][1].get("k") or {}).get("v") == 0)):
                        return b.key_of_operand(payload["args"][0]).lstrip("&*")
                    return None
                if kind == "assign" and payload["r"] in ("use", "cast"):
                    q = op_place(payload["o"])
                    depth += 1
                    continue
                return None
            return None
        rel = {}
        for _ in range(6):
            ch = False
            for blk in b.blocks:
                for s_ in blk["s"]:
                    rv = s_.get("rv")
                    if not rv or s_["p"]["p"]:
                        continue
                    l_ = s_["p"]["l"]
                    base = None
                    if rv["r"] == "bin" and rv["op"] in ("Sub", "SubWithOverflow") and self.abs_op(rv["a"]):
                        base = base_of(rv["b"])
                    elif rv["r"] in ("use", "cast"):
                        q_ = op_place(rv["o"])
                        if q_ is not None and q_["l"] in rel:
                            base = rel[q_["l"]]
                    elif rv["r"] == "ref" and rv["p"]["l"] in rel:
                        base = rel[rv["p"]["l"]]
                    elif rv["r"] == "agg" and rv.get("adt", "").endswith("Cursor") and rv.get("variant") == "BeginAligned" and rv.get("ops"):
                        q_ = op_place(rv["ops"][0])
                        if q_ is not None and q_["l"] in rel:
                            base = rel[q_["l"]]
                    if base and l_ not in rel:
                        rel[l_] = base
                        ch = True
                t = blk["t"]
                if t["t"] == "call" and "dest" in t and not t["dest"]["p"]:
                    decl, res, info = callee_of(t)
                    if decl and re.search(r"selector::Offset::(simple|new)$", decl):
                        for a_ in t.get("args", []):
                            q_ = op_place(a_)
                            if q_ is not None and q_["l"] in rel and t["dest"]["l"] not in rel:
                                rel[t["dest"]["l"]] = rel[q_["l"]]
                                ch = True
            if not ch:
                break
        for blk in b.blocks:
            if blk.get("cleanup"):
                continue
            t = blk["t"]
            if t["t"] == "call" and t.get("args") and len(t["args"]) >= 2:
                decl, res, info = callee_of(t)
                at0 = (t.get("at") or [""])[0]
                if decl and re.search(r"::(textselection|text_by_offset)$", decl) and not re.search(r"TextResource", at0):
                    q_ = op_place(t["args"][1])
                    if q_ is not None and q_["l"] in rel:
                        recv = b.key_of_operand(t["args"][0]).lstrip("&*")
                        if recv != rel[q_["l"]] and recv not in ("?", "") and rel[q_["l"]] not in ("?", ""):
                            self._v("rel-base-mismatch", decl.split("::")[-1], t.get("line"), "an offset computed relative to `%s` (position - %s.begin()) is passed to %s of `%s`, which reads it relative to its own begin" % (rel[q_["l"]], rel[q_["l"]], decl.split("::")[-1], recv))
        # an absolute position handed to the codepoint->byte conversion of a *selection*, which takes positions relative to the selection
        for blk in b.blocks:
            if blk.get("cleanup"):
                continue
            t = blk["t"]
            if t["t"] == "call" and t.get("args") and len(t["args"]) >= 2:
                decl, res, info = callee_of(t)
                at0 = (t.get("at") or [""])[0]
                if decl and re.search(r"::utf8byte$", decl) and re.search(r"TextSelection", at0) and not re.search(r"TextResource", at0):
                    if self.abs_op(t["args"][1]):
                        self._v("abs-position-to-relative-api", "utf8byte", t.get("line"), "the absolute position %s is passed to utf8byte on a receiver of type %s, which takes positions relative to the selection (and makes them absolute itself): the selection's begin is applied twice" % (b.key_of_operand(t["args"][1])[:60], at0[:50]))
        for blk in b.blocks:
            if blk.get("cleanup"):
                continue
            for s in blk["s"]:
                rv = s.get("rv")
                if rv and rv["r"] == "bin" and rv["op"] in ("Add", "AddWithOverflow"):
                    if self.abs_op(rv["a"]) and self.abs_op(rv["b"]) and self.u_op(rv["a"]) == CHAR and self.u_op(rv["b"]) == CHAR:
                        self._v("abs-plus-abs", "Add", s.get("line"), "two absolute codepoint positions are added (%s + %s): the begin offset is applied twice" % (b.key_of_operand(rv["a"])[:60], b.key_of_operand(rv["b"])[:60]))

    def _v(self, kind, what, line, detail):
        self.viol.append({"kind": kind, "what": what, "line": line, "detail": detail})

    def _check(self):
        b = self.b
        for bi, blk in enumerate(b.blocks):
            if blk.get("cleanup"):
                continue
            for s in blk["s"]:
                rv = s.get("rv")
                if not rv:
                    continue
                if rv["r"] == "bin" and rv["op"] in ("Add", "Sub", "AddWithOverflow", "SubWithOverflow", "Lt", "Le", "Gt", "Ge", "Eq", "Ne"):
                    ua, ub = self.u_op(rv["a"]), self.u_op(rv["b"])
                    if ua and ub and ua != ub:
                        self._v("mixed-op", rv["op"].replace("WithOverflow", ""), s.get("line"), "%s %s %s" % (ua, rv["op"], ub))
                # store into a field with a declared unit
                fu = None
                for e in s["p"]["p"]:
                    if isinstance(e, dict) and "f" in e:
                        fu = FIELD.get((e.get("a"), e.get("n"))) or fu
                        fname = "%s.%s" % (e.get("a"), e.get("n"))
                if fu and rv["r"] in ("use", "cast"):
                    uv = self.u_op(rv["o"])
                    if uv and uv != fu:
                        self._v("field-store", fname, s.get("line"), "%s value stored in %s field %s" % (uv, fu, fname))
                if rv["r"] == "agg" and rv.get("ak") == "adt":
                    adt = rv.get("adt")
                    for i, fn_ in enumerate(rv.get("fields", [])):
                        fu = FIELD.get((adt, fn_))
                        if fu and i < len(rv["ops"]):
                            uv = self.u_op(rv["ops"][i])
                            if uv and uv != fu:
                                self._v("field-init", "%s.%s" % (adt, fn_), s.get("line"), "%s value initialises %s field %s.%s" % (uv, fu, adt, fn_))
                    vu = VARIANT.get((adt, rv.get("variant")))
                    if vu:
                        for i, want in enumerate(vu):
                            if i < len(rv["ops"]):
                                uv = self.u_op(rv["ops"][i])
                                if uv and uv != want:
                                    self._v("variant-init", "%s::%s" % (adt.split("::")[-1], rv.get("variant")), s.get("line"), "%s value used as %s::%s (a %s position)" % (uv, adt, rv.get("variant"), want))
            t = blk["t"]
            if t["t"] == "call":
                decl, res, info = callee_of(t)
                if not decl:
                    continue
                for rx, params in PARAM:
                    if re.search(rx, decl):
                        for i, want in params.items():
                            if i < len(t.get("args", [])):
                                uv = self.u_op(t["args"][i])
                                if uv and uv != want:
                                    self._v("arg", short_fn(decl), t.get("line"), "%s value passed to %s, which expects a %s position" % (uv, short_fn(decl), want))
                if re.search(r"::(unwrap_or|min|max)$", decl) and len(t.get("args", [])) == 2:
                    u0, u1 = self.u_op(t["args"][0]), self.u_op(t["args"][1])
                    if u0 and u1 and u0 != u1:
                        self._v("mixed-op", decl.split("::")[-1], t.get("line"), "%s and %s values combined by %s" % (u0, u1, decl.split("::")[-1]))
                # BTreeMap<byte, char> byte2charmap
                if re.search(r"BTreeMap::<.*>::(insert|entry)$", decl) and len(t.get("args", [])) >= 2:
                    k = b.key_of_operand(t["args"][0])
                    if "byte2charmap" in k:
                        uk = self.u_op(t["args"][1])
                        if uk and uk != BYTE:
                            self._v("map-key", "byte2charmap", t.get("line"), "%s value used as key of byte2charmap (keys are byte positions)" % uk)
                        if decl.endswith("::insert") and len(t["args"]) >= 3:
                            uv = self.u_op(t["args"][2])
                            if uv and uv != CHAR:
                                self._v("map-value", "byte2charmap", t.get("line"), "%s value stored in byte2charmap (values are codepoint positions)" % uv)


def analyse(prog, body_filter):
    """returns (violations with stable keys, stats)"""
    out = []
    stats = {"bodies": 0, "locals_with_unit": 0, "conflicts": 0}
    for bid, b in sorted(prog.bodies.items()):
        if b.d.get("derived") or not body_filter(b):
            continue
        u = Units(b, prog)
        stats["bodies"] += 1
        stats["locals_with_unit"] += len(u.unit)
        stats["conflicts"] += len(u.conflict)
        groups = defaultdict(list)
        for v in u.viol:
            groups[(v["kind"], v["what"])].append(v)
        for (k, w), lst in groups.items():
            lst.sort(key=lambda v: v["line"] or 0)
            for i, v in enumerate(lst):
                v["key"] = "%s|%s:%s#%d" % (bid, k, w, i + 1)
                v["body"] = bid
                v["file"] = b.file
                out.append(v)
    return out, stats
