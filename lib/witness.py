"""E-WIT: compile-fail witnesses (thorough tier).  The harness crate /verif/witness path-depends on /repo, so
the doc-tests are compiled against /repo's current tree on every run (nightly, offline)."""
import os
import re
import subprocess

VERIF = os.path.dirname(os.path.dirname(os.path.abspath(__file__)))


def run(repo="/repo"):
    wdir = os.path.join(VERIF, "witness")
    env = dict(os.environ, CARGO_TARGET_DIR=os.path.join(VERIF, ".cache", "witness-target"), CARGO_NET_OFFLINE="true", RUSTFLAGS="-Awarnings", RUSTDOCFLAGS="-Awarnings")
    try:
        r = subprocess.run(["cargo", "+nightly", "test", "--doc", "--offline"], cwd=wdir, env=env, capture_output=True, text=True, timeout=1500)
    except Exception as e:  # toolchain missing, timeout: the witnesses were not evaluated
        return {"ran": False, "error": "%s: %s" % (type(e).__name__, e), "tests": []}
    tests = []
    for l in r.stdout.splitlines():
        m = re.match(r"test src/lib.rs - (\w+) \(line (\d+)\)( - compile fail)? \.\.\. (\w+)", l)
        if m:
            tests.append({"witness": m.group(1), "kind": "compile_fail" if m.group(3) else "twin", "result": m.group(4)})
    return {"ran": bool(tests), "rc": r.returncode, "tests": tests, "stderr_tail": r.stderr[-600:] if r.returncode else ""}
