"""Model of the text-selection relation tests, extracted from the syntax tree of
src/textselection.rs on every run (used by C13 and C06)."""
import itertools
from synq import Syn, unparse, walk, block_tail
from formula import Evaluator, Interval, OpVal, Unknown, Panic, some, is_some, match_pat
from core import AnchorMissing


class RelModel:
    def __init__(self, syn):
        self.syn = syn
        en = syn.enums.get("TextSelectionOperator")
        if en is None:
            raise AnchorMissing("enum TextSelectionOperator")
        self.file = en["_file"]
        self.variants = {}
        for v in en["variants"]:
            self.variants[v["name"]] = {f["name"]: f["ty"]["s"].replace(" ", "") for f in v["fields"]}
        self.f_test = syn.fn("test", self_ty="TextSelection", trait="TestTextSelection")
        self.f_test_set = syn.fn("test_set", self_ty="TextSelection", trait="TestTextSelection")
        self.f_set_test = syn.fn("test", self_ty="TextSelectionSet", trait="TestTextSelection")
        self.f_set_test_set = syn.fn("test_set", self_ty="TextSelectionSet", trait="TestTextSelection")
        self.f_toggle_negate = syn.fn("toggle_negate", self_ty="TextSelectionOperator")
        self.f_toggle_all = syn.fn("toggle_all", self_ty="TextSelectionOperator")
        self.f_with_limit = syn.fn("with_limit", self_ty="TextSelectionOperator")
        st = syn.structs.get("TextSelection")
        if st is None:
            raise AnchorMissing("struct TextSelection")
        self.ts_fields = [f["name"] for f in st["fields"]]
        # equality of TextSelection: derived (field-wise) unless a manual impl exists
        self.eq_fields = list(self.ts_fields)
        for im in syn.impls:
            if im.get("trait") and im["trait"].replace(" ", "").startswith("PartialEq") and im["self_ty"]["s"].strip() == "TextSelection":
                raise AnchorMissing("derived PartialEq for TextSelection (a manual impl exists: equality semantics unknown)")
        self.depth = 0
        # integer constants of the crate, for arms that compare against a named limit
        self.consts = {}
        for name, c in syn.consts.items():
            e = c.get("e")
            if e and e.get("k") == "lit" and e.get("t") == "int":
                self.consts[name] = int(e["v"])
        self.consts_used = set()

    # ---- operator space
    def opvalues(self, limits=(None, 1), variants=None):
        out = []
        for name, flds in self.variants.items():
            if variants and name not in variants:
                continue
            names = sorted(flds)
            doms = []
            for f in names:
                t = flds[f]
                if t == "bool":
                    doms.append([False, True])
                elif t == "Option<usize>":
                    doms.append([None if l is None else some(l) for l in limits])
                else:
                    raise AnchorMissing("operator field type %s" % t)
            for combo in itertools.product(*doms):
                out.append(OpVal(name, dict(zip(names, combo))))
        return out

    def interval(self, b, e):
        d = Interval()
        for f in self.ts_fields:
            d[f] = None
        d["begin"] = b
        d["end"] = e
        return d

    # ---- evaluator wiring
    def evaluator(self, ws_value=True):
        ev = Evaluator(hooks={}, opvariants=self.variants)
        ev.ws_value = ws_value
        ev.globals = self.consts
        ev.globals_used = self.consts_used
        model = self

        def h_test(ev, recv, args, node, env):
            if len(args) != 3 or not isinstance(args[0], OpVal):
                return NotImplemented
            if isinstance(recv, Interval) and isinstance(args[1], Interval):
                return model._call(ev, model.f_test, recv, args)
            if isinstance(recv, list) and isinstance(args[1], Interval):
                return model._call(ev, model.f_set_test, recv, args)
            return NotImplemented

        def h_test_set(ev, recv, args, node, env):
            if len(args) != 3 or not isinstance(args[0], OpVal) or not isinstance(args[1], list):
                return NotImplemented
            if isinstance(recv, Interval):
                return model._call(ev, model.f_test_set, recv, args)
            if isinstance(recv, list):
                return model._call(ev, model.f_set_test_set, recv, args)
            return NotImplemented

        def h_toggle(fn):
            def h(ev, recv, args, node, env):
                if not isinstance(recv, OpVal):
                    return NotImplemented
                return model._call(ev, fn, recv, args)
            return h

        def h_text_by_offset(ev, recv, args, node, env):
            if len(args) == 1 and isinstance(args[0], tuple) and args[0][0] == "offset":
                a, b = args[0][1], args[0][2]
                if a <= b:
                    return ("ok", ("gap", a, b))
                return ("err", None)
            return NotImplemented

        def h_simple(ev, recv, args, node, env):
            if len(args) == 2 and all(isinstance(a, int) for a in args):
                return ("offset", args[0], args[1])
            raise Unknown("Offset::simple args")

        def h_chars(ev, recv, args, node, env):
            if isinstance(recv, tuple) and recv and recv[0] == "gap":
                return ("gapchars", recv[1], recv[2])
            return NotImplemented

        def h_all(ev, recv, args, node, env):
            if isinstance(recv, tuple) and recv and recv[0] == "gapchars" and len(args) == 1 and isinstance(args[0], tuple) and args[0][0] == "closure":
                body = unparse(args[0][1]["body"])
                pats = [p["s"].strip() for p in args[0][1]["inputs"]]
                if len(pats) == 1 and body == "%s.is_whitespace()" % pats[0]:
                    ev.ws_keys.append((recv[1], recv[2]))
                    if recv[1] == recv[2]:
                        return True  # empty gap: vacuous
                    return ev.ws_value
                raise Unknown("gap predicate %s" % body)
            return NotImplemented

        def h_leftmost(ev, recv, args, node, env):
            if isinstance(recv, list):
                if not recv:
                    return None
                return some(min(recv, key=lambda i: (i["begin"], i["end"])))
            return NotImplemented

        def h_rightmost(ev, recv, args, node, env):
            if isinstance(recv, list):
                if not recv:
                    return None
                return some(max(recv, key=lambda i: (i["end"], i["begin"])))
            return NotImplemented

        def h_opmethod(ev, recv, args, node, env):
            # any other method of TextSelectionOperator called on an operator value: follow it if it is unique
            if not isinstance(recv, OpVal):
                return NotImplemented
            cands = [f for f in model.syn.fns if f.name == node.get("method") and (f.self_ty or "") == "TextSelectionOperator" and f.trait is None and f.body is not None]
            if len(cands) != 1:
                return NotImplemented
            return model._call(ev, cands[0], recv, args)
        ev.hooks["*"] = h_opmethod

        ev.hooks.update({"test": h_test, "test_set": h_test_set,
                         "toggle_negate": h_toggle(self.f_toggle_negate), "toggle_all": h_toggle(self.f_toggle_all),
                         "with_limit": h_toggle(self.f_with_limit),
                         "text_by_offset": h_text_by_offset, "call:Offset::simple": h_simple,
                         "chars": h_chars, "all": h_all, "leftmost": h_leftmost, "rightmost": h_rightmost})
        return ev

    def _call(self, ev, fn, recv, args):
        self.depth += 1
        try:
            if self.depth > 6:
                raise Unknown("recursion depth")
            env = {"self": recv}
            params = [n for i in fn.sig["inputs"] for n in [i["pat"].get("name")]]
            if len(params) != len(args):
                raise Unknown("arity of %s" % fn.qual)
            for p, a in zip(params, args):
                env[p] = a
            return ev.run_body(fn.body, env)
        finally:
            self.depth -= 1

    # ---- public API
    def pair(self, op, s, r, ws=True, ev=None):
        ev = ev or self.evaluator(ws)
        return self._call(ev, self.f_test, self.interval(*s), [op, self.interval(*r), "RESOURCE"]), ev

    def call(self, fn, recv, args, ws=True):
        ev = self.evaluator(ws)
        return self._call(ev, fn, recv, args), ev

    def first_arm(self, fn, op):
        """the match arm of fn's top-level `match operator` that op selects (pattern level only)"""
        m = top_match(fn)
        for i, a in enumerate(m["arms"]):
            b = {}
            if match_pat(a["pat"], op, b):
                if a.get("guard") is not None:
                    raise Unknown("guarded arm")
                return i, a
        return None, None


def top_match(fn):
    for s in reversed(fn.body["stmts"]):
        if s["k"] == "exprstmt" and s["e"].get("k") == "match":
            return s["e"]
    raise AnchorMissing("top-level match in %s" % fn.qual)


def is_unreachable_arm(a):
    b = a["body"]
    while b.get("k") == "blockexpr" and len(b["block"]["stmts"]) == 1 and b["block"]["stmts"][0]["k"] == "exprstmt":
        b = b["block"]["stmts"][0]["e"]
    return b.get("k") == "macro" and b["name"] in ("unreachable", "todo", "unimplemented", "panic")
