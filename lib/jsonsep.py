"""Separator / bracket typestate for hand-assembled JSON text (used by C17.SEP).

An abstract interpreter over the syntax tree of the exporter functions.  Abstract value of a
string accumulator: (sep, stack) with
  sep   in {empty, open, colon, comma, value}   what the text ends with
  stack tuple of the brackets opened and not yet closed
Environments also hold the boolean flags / opaque pure conditions decided on the path, so the
analysis is path sensitive in exactly the conditions the exporter branches on.  Calls to the
exporter's own functions are replaced by summaries (may return empty / may return a value,
which match arms may set an out-flag) computed per boolean calling context to a fixpoint."""
import re
from synq import walk, unparse, strip, pat_names

EMPTY = ("empty", ())
MAXENV = 20000


def placeholders(fmt):
    """[(index, in_string)] for each {} of a format literal; None if quotes are unbalanced"""
    out = []
    instr = False
    i = 0
    n = 0
    while i < len(fmt):
        c = fmt[i]
        if c == "\\" and instr:
            i += 2
            continue
        if c == '"':
            instr = not instr
        elif c == "{":
            if i + 1 < len(fmt) and fmt[i + 1] == "{":
                i += 2
                continue
            j = fmt.find("}", i)
            if j < 0:
                return None
            out.append((n, instr))
            n += 1
            i = j + 1
            continue
        elif c == "}" and i + 1 < len(fmt) and fmt[i + 1] == "}":
            i += 2
            continue
        i += 1
    if instr:
        return None
    return out


def feed_text(state, s, err):
    """advance (sep, stack) over literal JSON text; \\x00 stands for one complete value"""
    sep, stack = state
    stack = list(stack)
    i = 0
    n = len(s)
    while i < n:
        c = s[i]
        if c.isspace():
            i += 1
            continue
        if c == '"':
            j = i + 1
            while j < n and s[j] != '"':
                j += 2 if s[j] == "\\" else 1
            if j >= n:
                err("unterminated-string")
                j = n - 1
            if sep == "value":
                err("missing-comma")
            sep = "value"
            i = j + 1
            continue
        if c in "{[":
            if sep == "value":
                err("missing-comma")
            stack.append(c)
            sep = "open"
        elif c in "}]":
            if sep == "comma":
                err("trailing-comma")
            elif sep == "colon":
                err("missing-value")
            if not stack:
                err("unbalanced-close")
            else:
                o = stack.pop()
                if (o == "{") != (c == "}"):
                    err("mismatched-bracket")
            sep = "value"
        elif c == ",":
            if sep in ("open", "comma", "colon", "empty"):
                err("dangling-comma")
            sep = "comma"
        elif c == ":":
            if sep != "value":
                err("misplaced-colon")
            sep = "colon"
        elif c == "\x00":
            if sep == "value":
                err("missing-comma")
            sep = "value"
        else:
            j = i
            while j < n and (s[j].isalnum() or s[j] in "+-._"):
                j += 1
            if j == i:
                err("stray-character")
                j = i + 1
            elif sep == "value":
                err("missing-comma")
            sep = "value"
            i = j
            continue
        i += 1
    if len(stack) > 12:
        stack = stack[:12]
    return (sep, tuple(stack))


class Summary:
    def __init__(self):
        self.may_empty = False
        self.may_value = False
        self.arms_set = {}      # out-param name -> set of arm indexes that may set it
        self.done = False

    def sig(self):
        return (self.may_empty, self.may_value, tuple(sorted((k, tuple(sorted(v))) for k, v in self.arms_set.items())))


class Analysis:
    def __init__(self, fns_by_name, kinds):
        """kinds: fn name -> 'value' | 'value*' | 'members*' | 'member'"""
        self.fns = fns_by_name
        self.kinds = kinds
        self.summaries = {}
        self.errors = {}        # (fn, kind) -> (line, context text)
        self.contexts = {}      # fn -> set of contexts analysed
        self.stats = {"functions": set(), "paths": 0, "appends": 0}

    # ---------------------------------------------------------------- driver
    def run(self, roots):
        for _ in range(8):
            before = dict((k, v.sig()) for k, v in self.summaries.items())
            self.errors = {}
            pending = [(r, (), None) for r in roots]
            seen = set()
            self._pending = pending
            while pending:
                fn, ctx, arms = pending.pop()
                key = (fn, ctx, arms)
                if key in seen:
                    continue
                seen.add(key)
                self.analyse(fn, ctx, arms)
            after = dict((k, v.sig()) for k, v in self.summaries.items())
            if before == after:
                break
        return self.errors

    def summary(self, fn, ctx, arms):
        key = (fn, ctx, arms)
        if key not in self.summaries:
            s = Summary()
            s.may_value = True  # optimistic start, refined by the fixpoint
            self.summaries[key] = s
        self._pending.append((fn, ctx, arms))
        return self.summaries[key]

    def err(self, fn, kind, line, ctx):
        self.errors.setdefault((fn, kind), (line, ctx))

    # ---------------------------------------------------------------- one function in one context
    def analyse(self, fname, ctx, arms):
        f = self.fns[fname]
        self.stats["functions"].add(fname)
        self.contexts.setdefault(fname, set()).add((ctx, arms))
        A = _Fn(self, f, dict(ctx), arms)
        finals = A.go()
        s = self.summaries.setdefault((fname, ctx, arms), Summary())
        me = any(st == EMPTY for st, env in finals)
        mv = any(st != EMPTY for st, env in finals)
        s.may_empty, s.may_value = me, mv
        s.arms_set = {}
        for st, env in finals:
            for k, v in env.items():
                if k.startswith("out:") and v:
                    s.arms_set.setdefault(k[4:], set()).add(env.get("arm", -1))
        kind = self.kinds.get(fname)
        ctxs = ctx_text(ctx, arms)
        for st, env in finals:
            if st == EMPTY:
                if kind in ("value", "member"):
                    self.err(fname, "empty-result", f.line, ctxs)
                continue
            sep, stack = st
            if stack:
                self.err(fname, "unclosed-bracket", f.line, ctxs)
            if sep != "value":
                self.err(fname, "ends-after-" + sep, f.line, ctxs)
        self.stats["paths"] += len(finals)
        s.done = True


def ctx_text(ctx, arms):
    t = ", ".join("%s=%s" % (k, str(v).lower()) for k, v in ctx) or "any"
    if arms is not None:
        t += ", match arms %s" % sorted(arms)
    return t


class _Fn:
    def __init__(self, an, f, ctx, arms):
        self.an = an
        self.f = f
        self.arms = arms
        self.accs = set()
        self.flags = set()
        self.boolparams = []
        self.outparams = []
        self.params = []
        self.localdefs = {}
        for inp in f.sig.get("inputs", []):
            nm = inp["pat"].get("name")
            ty = re.sub(r"\s+", "", inp["ty"]["s"])
            self.params.append(nm)
            if ty == "bool":
                self.boolparams.append(nm)
                self.flags.add(nm)
            if ty == "&mutbool":
                self.outparams.append(nm)
        for n in walk(f.body):
            if n.get("k") == "let" and n.get("init") is not None:
                nm = pat_names(n["pat"])
                if len(nm) != 1:
                    continue
                src = unparse(n["init"])
                if src == "String::new()" or src.startswith("String::with_capacity("):
                    self.accs.add(nm[0])
                elif src in ("true", "false"):
                    self.flags.add(nm[0])
                else:
                    self.localdefs[nm[0]] = n["init"]
        self.ctx = ctx
        self.finals = []
        self.cur_line = f.line

    def err(self, kind, line=None):
        self.an.err(self.f.name, kind, line or self.cur_line, ctx_text(tuple(sorted(self.ctx.items())), self.arms))

    # ------------------------------------------------------------ entry
    def go(self):
        env = {}
        for k, v in self.ctx.items():
            env["flag:" + k] = v
        envs = self.block(self.f.body, [env], tail=True)
        for e in envs:
            self.finals.append((e.get("acc:$ret", EMPTY), e))
        return self.finals

    # ------------------------------------------------------------ environments
    def dedupe(self, envs):
        seen = set()
        out = []
        for e in envs:
            k = tuple(sorted((a, str(b)) for a, b in e.items()))
            if k not in seen:
                seen.add(k)
                out.append(e)
        if len(out) > MAXENV:
            self.err("analysis-budget")
            out = out[:MAXENV]
        return out

    # ------------------------------------------------------------ conditions
    def branches(self, c, env):
        """[(env', truth)]"""
        c0 = c
        k = c.get("k")
        if k == "paren":
            return self.branches(c["e"], env)
        if k == "unary" and c["op"] == "!":
            return [(e, not v) for e, v in self.branches(c["e"], env)]
        if k == "binary" and c["op"] in ("&&", "||"):
            out = []
            for e1, v1 in self.branches(c["left"], env):
                if (c["op"] == "&&" and not v1) or (c["op"] == "||" and v1):
                    out.append((e1, v1))
                else:
                    out += self.branches(c["right"], e1)
            return out
        if k == "lit" and c.get("t") == "bool":
            return [(env, bool(c["v"]))]
        if k == "path" and len(c["path"]) == 1 and c["path"][0] in self.flags:
            return self.atom("flag:" + c["path"][0], env)
        if k == "unary" and c["op"] == "*" and c["e"].get("k") == "path" and c["e"]["path"][0] in self.outparams:
            return self.atom("out:" + c["e"]["path"][0], env)
        if k == "mcall" and c["method"] in ("is_empty",) and not c["args"]:
            r = strip(c["recv"])
            if r.get("k") == "path" and len(r["path"]) == 1 and r["path"][0] in self.accs:
                return [(env, env.get("acc:" + r["path"][0], EMPTY) == EMPTY)]
            if r.get("k") == "path" and len(r["path"]) == 1 and ("val:" + r["path"][0]) in env:
                return [(env, env["val:" + r["path"][0]] == "empty")]
            return self.atom("atom:" + self.pure_text(r) + ".is_empty()", env)
        if k == "mcall" and c["method"] in ("is_some", "is_none") and not c["args"]:
            res = self.atom("atom:" + self.pure_text(c["recv"]) + ".is_some()", env)
            return res if c["method"] == "is_some" else [(e, not v) for e, v in res]
        if k == "letexpr":
            pat = re.sub(r"\s+", "", c["pat"]["s"])
            if pat.startswith("Some("):
                return self.atom("atom:" + self.pure_text(c["e"]) + ".is_some()", env)
            if pat.startswith("None"):
                return [(e, not v) for e, v in self.atom("atom:" + self.pure_text(c["e"]) + ".is_some()", env)]
            return self.atom("atom:let " + pat + "=" + self.pure_text(c["e"]), env)
        if k == "binary" and c["op"] in ("!=", "==", "<", ">", ">=", "<="):
            l, r = unparse(strip(c["left"])), re.sub(r"[()]", "", unparse(strip(c["right"])))
            for key in list(env):
                if key.startswith("last:"):
                    i, coll = key[5:].split("@")
                    if l == i and r == "%s.len-1" % coll.replace("()", "") or (l == i and r == coll + ".len-1"):
                        pass
                    if l == i and re.sub(r"\s", "", r) in ("%s.len-1" % coll, "%s.len()-1" % coll):
                        last = env[key]
                        if c["op"] in ("!=", "<"):
                            return [(env, not last)]
                        if c["op"] in ("==", ">="):
                            return [(env, last)]
                if key.startswith("first:"):
                    i = key[6:]
                    if l == i and r == "0":
                        first = env[key]
                        if c["op"] in ("!=", ">"):
                            return [(env, not first)]
                        if c["op"] == "==":
                            return [(env, first)]
        return self.atom("atom:" + self.pure_text(c0), env)

    def pure_text(self, e):
        e = strip(e)
        while e.get("k") == "mcall" and e["method"] in ("as_ref", "as_deref", "as_str") and not e["args"]:
            e = strip(e["recv"])
        return unparse(e, strip_ref=True)

    def atom(self, key, env):
        if key in env:
            return [(env, env[key])]
        txt = key.split(":", 1)[1]
        volatile = any(re.search(r"\b%s\b" % re.escape(a), txt) for a in self.accs) and key.startswith("atom:")
        out = []
        for v in (True, False):
            e2 = dict(env)
            if not volatile:
                e2[key] = v
            out.append((e2, v))
        return out

    # ------------------------------------------------------------ pieces
    def tokens(self, e, env):
        """[(env', [token])] ; token = ('lit', text) | ('val',) | ('acc', name) | ('opt', )"""
        e = strip(e)
        k = e.get("k")
        if k == "lit" and e.get("t") in ("str", "char"):
            return [(env, [("lit", e["v"])])]
        if k == "lit":
            return [(env, [("lit", str(e["v"]))])]
        if k == "macro" and e["name"] == "format" and e.get("args") and e["args"][0].get("k") == "lit":
            fmt = e["args"][0]["v"]
            ph = placeholders(fmt)
            if ph is None:
                self.err("unterminated-string", e.get("l"))
                return [(env, [("val",)])]
            results = [(env, [])]
            i = 0
            idx = 0
            buf = ""
            while i < len(fmt):
                if fmt.startswith("{{", i):
                    buf += "{"
                    i += 2
                elif fmt.startswith("}}", i):
                    buf += "}"
                    i += 2
                elif fmt[i] == "{":
                    j = fmt.find("}", i)
                    instr = ph[idx][1]
                    arg = e["args"][idx + 1] if idx + 1 < len(e["args"]) else None
                    if instr or arg is None:
                        buf += "x"
                    else:
                        new = []
                        for en, toks in results:
                            for en2, sub in self.tokens(arg, en):
                                new.append((en2, toks + [("lit", buf)] + sub))
                        results = new
                        buf = ""
                    idx += 1
                    i = j + 1
                else:
                    buf += fmt[i]
                    i += 1
            return [(en, toks + [("lit", buf)]) for en, toks in results]
        if k == "path" and len(e["path"]) == 1:
            nm = e["path"][0]
            if nm in self.accs:
                return [(env, [("acc", nm)])]
            if ("val:" + nm) in env:
                v = env["val:" + nm]
                return [(env, [] if v == "empty" else [("val",)])]
            if nm in self.localdefs:
                return self.tokens(self.localdefs[nm], env)
            return [(env, [("val",)])]
        if k == "if" and e.get("else") is not None:
            out = []
            for en, v in self.branches(e["cond"], env):
                br = e["then"] if v else e["else"]
                t = tail_of(br)
                if t is None:
                    out.append((en, []))
                else:
                    out += self.tokens(t, en)
            return out
        if k == "call" or k == "mcall":
            name = unparse(e["func"]).split("::")[-1] if k == "call" else e["method"]
            if k == "call" and unparse(e["func"]) in ("String::new",):
                return [(env, [])]
            if k == "mcall" and name in ("to_string", "to_owned", "into", "clone", "as_str", "as_ref") and not e["args"]:
                r = strip(e["recv"])
                if r.get("k") == "lit" or (r.get("k") == "path" and len(r["path"]) == 1 and (r["path"][0] in self.accs or ("val:" + r["path"][0]) in env)):
                    return self.tokens(r, env)
                return [(env, [("val",)])]
            if k == "mcall" and name == "join" and e["args"]:
                sepl = strip(e["args"][0])
                if sepl.get("k") == "lit" and sepl["v"].strip() != ",":
                    self.err("bad-list-separator", e.get("l"))
                src = self.list_source(e["recv"])
                out = []
                if src is None:
                    # a possibly empty list
                    out.append((env, []))
                    out.append((env, [("val",)]))
                    return out
                for en, isempty in self.atom("atom:" + src + ".is_empty()", env):
                    out.append((en, [] if isempty else [("val",)]))
                return out
            if name in self.an.fns and name in self.an.kinds:
                return self.call_tokens(name, e, env)
            return [(env, [("val",)])]
        return [(env, [("val",)])]

    def list_source(self, e):
        """for `X` where X = COLL.iter().map(..).collect(): text of COLL"""
        e = strip(e)
        if e.get("k") == "path" and len(e["path"]) == 1 and e["path"][0] in self.localdefs:
            e = strip(self.localdefs[e["path"][0]])
        if e.get("k") in ("field", "path"):
            return self.pure_text(e)
        while e.get("k") == "mcall" and e["method"] in ("collect", "map", "iter", "into_iter", "cloned"):
            if e["method"] in ("iter", "into_iter"):
                return self.pure_text(e["recv"])
            e = strip(e["recv"])
        return None

    def call_tokens(self, name, e, env):
        g = self.an.fns[name]
        args = e["args"] if e["k"] == "call" else e["args"]
        params = [p["pat"].get("name") for p in g.sig.get("inputs", [])]
        if g.sig.get("recv"):
            pass
        ctx = []
        envs = [env]
        outflag = None
        for pn, a, inp in zip(params, args, g.sig.get("inputs", [])):
            ty = re.sub(r"\s+", "", inp["ty"]["s"])
            if ty == "bool":
                new = []
                vals = set()
                a = strip(a)
                if a.get("k") == "lit":
                    ctx.append((pn, bool(a["v"])))
                elif a.get("k") == "path" and ("flag:" + a["path"][0]) in env:
                    ctx.append((pn, env["flag:" + a["path"][0]]))
            if ty == "&mutbool":
                a2 = a
                if a2.get("k") == "ref":
                    a2 = a2["e"]
                a2 = strip(a2)
                if a2.get("k") == "path":
                    outflag = (pn, a2["path"][0])
        ctx = tuple(sorted(ctx))
        arms = None
        if outflag and ("flag:" + outflag[1]) in env and env["flag:" + outflag[1]] is True and ("setby:" + outflag[1]) in env:
            # the flag is known to have been set by an earlier call: only the arms that can set it are live
            pf, pctx = env["setby:" + outflag[1]]
            if pf == name:
                ps = self.an.summary(pf, pctx, None)
                arms = tuple(sorted(ps.arms_set.get(outflag[0], set())))
        s = self.an.summary(name, ctx, arms)
        out = []
        kind = self.an.kinds[name]
        alts = []
        if s.may_empty:
            alts.append([])
        if s.may_value or not s.may_empty:
            alts.append([("lit", '"k":'), ("val",)] if kind in ("member", "members*") else [("val",)])
        for toks in alts:
            e2 = dict(env)
            if outflag:
                caller_flag = outflag[1]
                if caller_flag in self.outparams:
                    if len(s.arms_set.get(outflag[0], ())) > 0 or not s.done:
                        e2["out:" + caller_flag] = True
                else:
                    e2.pop("flag:" + caller_flag, None)
                    e2["setby:" + caller_flag] = (name, ctx)
                    if s.done and not s.arms_set.get(outflag[0]):
                        e2["flag:" + caller_flag] = env.get("flag:" + caller_flag, False)
            out.append((e2, toks))
        return out

    def append(self, env, acc, toks, line):
        self.cur_line = line
        self.an.stats["appends"] += 1
        st = env.get("acc:" + acc, EMPTY)
        for t in toks:
            if t[0] == "lit":
                if t[1].strip() == "":
                    continue
                st = feed_text(st, t[1], lambda kind: self.err(kind, line))
            elif t[0] == "val":
                st = feed_text(st, "\x00", lambda kind: self.err(kind, line))
            elif t[0] == "acc":
                other = env.get("acc:" + t[1], EMPTY)
                if other == EMPTY:
                    continue
                if st[0] == "value":
                    self.err("missing-comma", line)
                st = (other[0], st[1] + other[1])
        e2 = dict(env)
        e2["acc:" + acc] = st
        return e2

    # ------------------------------------------------------------ statements
    def block(self, b, envs, tail=False):
        stmts = b["stmts"]
        for i, s in enumerate(stmts):
            last = tail and i == len(stmts) - 1 and s.get("k") == "exprstmt" and not s.get("semi")
            envs = self.stmt(s, envs, last)
            envs = self.dedupe(envs)
        return envs

    def stmt(self, s, envs, tail):
        k = s.get("k")
        if k == "let":
            init = s.get("init")
            if init is None:
                return envs
            nm = pat_names(s["pat"])
            src = unparse(init)
            if len(nm) == 1 and nm[0] in self.flags and src in ("true", "false"):
                for e in envs:
                    e["flag:" + nm[0]] = (src == "true")
                return envs
            if len(nm) == 1 and nm[0] in self.accs:
                for e in envs:
                    e["acc:" + nm[0]] = EMPTY
                return envs
            # a local holding the result of one of the exporter's own functions: remember whether it is empty
            ini = strip(init)
            if len(nm) == 1 and ini.get("k") in ("call", "mcall"):
                name = unparse(ini["func"]).split("::")[-1] if ini["k"] == "call" else ini["method"]
                if name in self.an.fns and name in self.an.kinds:
                    out = []
                    for e in envs:
                        for e2, toks in self.call_tokens(name, ini, e):
                            e2["val:" + nm[0]] = "value" if toks else "empty"
                            out.append(e2)
                    return out
            return self.expr(init, envs, False)
        if k == "exprstmt":
            return self.expr(s["e"], envs, tail)
        return envs

    def ret(self, e, envs):
        out = []
        for env in envs:
            for e2, toks in self.tokens(e, env):
                out.append(self.append(e2, "$ret", toks, e.get("l")))
        return out

    def expr(self, e, envs, tail):
        k = e.get("k")
        if k == "binary" and e["op"] == "+=" and unparse(strip(e["left"])) in self.accs:
            acc = unparse(strip(e["left"]))
            out = []
            for env in envs:
                for e2, toks in self.tokens(e["right"], env):
                    out.append(self.append(e2, acc, toks, e.get("l")))
            return out
        if k == "mcall" and e["method"] in ("push", "push_str") and unparse(strip(e["recv"])) in self.accs and e["args"]:
            acc = unparse(strip(e["recv"]))
            out = []
            for env in envs:
                for e2, toks in self.tokens(e["args"][0], env):
                    out.append(self.append(e2, acc, toks, e.get("l")))
            return out
        if k == "assign":
            l = e["left"]
            if l.get("k") == "path" and l["path"][0] in self.flags and unparse(e["right"]) in ("true", "false"):
                for env in envs:
                    env["flag:" + l["path"][0]] = unparse(e["right"]) == "true"
                return envs
            if l.get("k") == "unary" and l["op"] == "*" and l["e"].get("k") == "path" and l["e"]["path"][0] in self.outparams:
                for env in envs:
                    env["out:" + l["e"]["path"][0]] = unparse(e["right"]) == "true"
                return envs
            if l.get("k") == "path" and l["path"][0] in self.flags:
                for env in envs:
                    env.pop("flag:" + l["path"][0], None)
            return envs
        if k == "if":
            out = []
            for env in envs:
                for en, v in self.branches(e["cond"], dict(env)):
                    if v:
                        out += self.block(e["then"], [en], tail)
                    elif e.get("else") is not None:
                        out += self.expr(e["else"], [en], tail)
                    else:
                        out.append(en)
            return self.dedupe(out)
        if k == "blockexpr":
            return self.block(e["block"], envs, tail)
        if k == "block":
            return self.block(e, envs, tail)
        if k == "match":
            scrut = strip(e["e"])
            is_param = scrut.get("k") == "path" and len(scrut["path"]) == 1 and scrut["path"][0] in self.params
            out = []
            for idx, a in enumerate(e["arms"]):
                if is_param and self.arms is not None and idx not in self.arms:
                    continue
                sub = [dict(x) for x in envs]
                if is_param:
                    for x in sub:
                        x["arm"] = idx
                out += self.expr(a["body"], sub, tail)
            return self.dedupe(out)
        if k == "for":
            return self.loop(e, envs)
        if k in ("while", "loop"):
            cur = envs
            allenvs = list(envs)
            for _ in range(4):
                cur = self.block(e["body"], [dict(x) for x in cur])
                allenvs = self.dedupe(allenvs + cur)
            return allenvs
        if k == "return":
            if e.get("e") is not None:
                self.finals_from(self.ret(e["e"], envs))
            else:
                self.finals_from(envs)
            return []
        if k == "macro" and e["name"] in ("unreachable", "panic", "todo", "unimplemented"):
            return []
        if tail:
            return self.ret(e, envs)
        return envs

    def finals_from(self, envs):
        for env in envs:
            self.finals.append((env.get("acc:$ret", EMPTY), env))

    def loop(self, e, envs):
        """for loops: each iteration is the first or not, the last or not"""
        names = pat_names(e["pat"])
        it = strip(e["iter"])
        idxvar = None
        coll = None
        if it.get("k") == "mcall" and it["method"] == "enumerate" and len(names) >= 1:
            idxvar = names[0]
            r = strip(it["recv"])
            while r.get("k") == "mcall" and r["method"] in ("iter", "into_iter", "iter_mut"):
                r = strip(r["recv"])
            coll = unparse(r, strip_ref=True)
        exits = [dict(x) for x in envs]  # zero iterations
        cur = [dict(x) for x in envs]
        first = True
        seen = set()
        for _ in range(4):
            nxt = []
            for lastflag in (False, True):
                start = [dict(x) for x in cur]
                for x in start:
                    if idxvar:
                        x["first:" + idxvar] = first
                        x["last:%s@%s" % (idxvar, coll)] = lastflag
                res = self.block(e["body"], start)
                for x in res:
                    if idxvar:
                        x.pop("first:" + idxvar, None)
                        x.pop("last:%s@%s" % (idxvar, coll), None)
                    for key in [k for k in x if k.startswith("val:")]:
                        pass
                if lastflag:
                    exits += res
                else:
                    nxt += res
            first = False
            cur = self.dedupe(nxt)
            sig = frozenset(tuple(sorted((a, str(b)) for a, b in x.items())) for x in cur)
            if sig in seen:
                break
            seen.add(sig)
        return self.dedupe(exits)


def tail_of(b):
    if b.get("k") == "blockexpr":
        b = b["block"]
    if b.get("k") != "block":
        return b
    if b.get("stmts"):
        last = b["stmts"][-1]
        if last["k"] == "exprstmt" and not last.get("semi"):
            return last["e"]
    return None
